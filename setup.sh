#!/bin/sh
# Build the static checker from vendored sources only (offline).
set -e
cd "$(dirname "$0")/checker"
export GOFLAGS=-mod=vendor GOPROXY=off GOSUMDB=off GOTOOLCHAIN=local GOWORK=off
mkdir -p ../bin
go build -o ../bin/samlcheck .
