#!/usr/bin/env python3
"""Self-check sweep for one property (thorough tier): runs ./selftest over variants/<id>/*.patch and the seeded
changes of that property, and records {seeded, detected, benign, silent, skipped} in evidence/<id>.json.
Informational: never changes the check's exit code."""
import glob, json, os, subprocess, sys, tempfile
root = os.path.dirname(os.path.dirname(os.path.abspath(__file__)))
pid = sys.argv[1]
patches = sorted(glob.glob(os.path.join(root, "variants", pid, "*.patch")))
tmp = tempfile.mkdtemp(prefix="verif-sweep.")
for d in sorted(glob.glob(os.path.join(root, "seeded", "*"))):
    try:
        meta = json.load(open(os.path.join(d, "meta.json")))
    except Exception:
        continue
    if meta.get("property") != pid:
        continue
    p = os.path.join(tmp, "seeded-" + os.path.basename(d) + ".patch")
    open(p, "w").write("# property: %s\n# expect: detect\n" % pid + open(os.path.join(d, "patch.diff")).read())
    patches.append(p)
# behaviour-preserving refactorings collected for this property (must stay silent under this property's check)
for b in sorted(glob.glob(os.path.join(root, "benign", pid + "-ben*.patch"))):
    p = os.path.join(tmp, "benign-" + os.path.basename(b))
    body = "".join(l for l in open(b) if not l.startswith("# property:"))
    open(p, "w").write("# property: %s\n" % pid + body)
    patches.append(p)
stats = dict(seeded=0, detected=0, benign=0, silent=0, skipped=0, mismatches=[])
if patches:
    out = subprocess.run([os.path.join(root, "selftest")] + patches, capture_output=True, text=True).stdout
    for line in out.splitlines():
        w = line.split()
        if not w or w[0] not in ("OK", "MISMATCH", "SKIP"):
            continue
        if w[0] == "SKIP":
            stats["skipped"] += 1
            continue
        exp = [x for x in w if x.startswith("expect=")][0][7:]
        got = [x for x in w if x.startswith("got=")][0][4:]
        if exp == "detect":
            stats["seeded"] += 1
            stats["detected"] += got == "detect"
        else:
            stats["benign"] += 1
            stats["silent"] += got == "silent"
        if w[0] == "MISMATCH":
            stats["mismatches"].append(w[1])
for f in glob.glob(os.path.join(tmp, "*")):
    os.remove(f)
os.rmdir(tmp)
ev = os.path.join(root, "evidence", pid + ".json")
try:
    e = json.load(open(ev))
    e["coverage"]["selfcheck"] = stats
    json.dump(e, open(ev, "w"), indent=1)
except Exception as ex:
    print("sweep: could not update evidence:", ex)
print("selfcheck %s: seeded %d detected %d, benign %d silent %d, skipped %d" % (pid, stats["seeded"], stats["detected"], stats["benign"], stats["silent"], stats["skipped"]))
