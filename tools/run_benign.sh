#!/bin/bash
# tools/run_benign.sh <agent-out-dir> <name>
# For each behaviour-preserving refactoring benign-k.diff: apply to a scratch worktree of /repo HEAD, check that it
# builds and the suite shows only the baseline failures, run ALL 20 quick checks on it and expect silence.
# Kept (when confirmed) under /verif/benign/<name>-k.patch with the agent's description.
OUT="$1"; NAME="$2"; D=/verif
export GOPROXY=off GOSUMDB=off GOTOOLCHAIN=local GOWORK=off; unset GOFLAGS
mkdir -p $D/benign
for f in "$OUT"/benign-*.diff; do
  k=$(basename "$f" .diff | sed 's/benign-//')
  S=$(mktemp -d /tmp/verif-benign.XXXXXX); WT=$S/wt
  git -C /repo worktree add -q --detach "$WT" HEAD
  if ! git -C "$WT" apply "$f" 2>/dev/null; then echo "SKIP $NAME-$k (does not apply)"; git -C /repo worktree remove --force "$WT"; rm -rf "$S"; continue; fi
  if ! ( cd "$WT" && go build ./... ) >/dev/null 2>&1; then echo "SKIP $NAME-$k (does not build)"; git -C /repo worktree remove --force "$WT"; rm -rf "$S"; continue; fi
  nf=$(cd "$WT" && go test -count=1 -vet=off ./... 2>&1 | grep -E '^--- FAIL' | grep -vE 'FAIL: (TestSAML|TestSAMLUsingSetSPKeyStore) ' | tr '\n' ' ')
  if [ -n "$nf" ]; then echo "SKIP $NAME-$k (suite fails: $nf)"; git -C /repo worktree remove --force "$WT"; rm -rf "$S"; continue; fi
  mkdir -p "$S/out"; cp "$D/known_findings.json" "$S/out/"
  out=$("$D/bin/samlcheck" -repo "$WT" -out "$S/out" -controls "$D/controls" -prop all -tier quick 2>&1); code=$?
  what=$(python3 -c "
import json,sys
try:
  for e in json.load(open('$OUT/benign.json')):
    if e.get('file')=='benign-$k.diff': print(e.get('kind','')+': '+e.get('what',''))
except Exception as ex: print('?')")
  if [ $code = 0 ]; then echo "SILENT $NAME-$k  [$what]"; else echo "ALARM($code) $NAME-$k  [$what]"; echo "$out" | grep -E 'VIOLATED|UNDECIDED|could not|panic' | head -8 | cut -c1-230 | sed 's/^/      /'; fi
  (printf '# property: all\n# expect: silent\n# origin: %s\n# what: %s\n' "${NAME%%-*}" "$what"; cat "$f") > "$D/benign/$NAME-$k.patch"
  git -C /repo worktree remove --force "$WT"; rm -rf "$S"
done
