#!/bin/bash
# tools/ingest_seed.sh <agent-out-dir> <seed-name>
# Independently confirms a sub-agent's seeded change in a fresh scratch worktree of /repo HEAD:
#   patch applies, module builds, suite shows only the 2 baseline failures, demo FAILS with the change and PASSES without.
# On success stores /verif/seeded/<seed-name>/{patch.diff,demo test,meta.json} and runs the property's quick check on it.
set -u
OUT="$1"; NAME="$2"; D=/verif
export GOPROXY=off GOSUMDB=off GOTOOLCHAIN=local GOWORK=off; unset GOFLAGS
prop=$(python3 -c "import json,sys;print(json.load(open('$OUT/meta.json'))['property'])")
ddir=$(python3 -c "import json,sys;print(json.load(open('$OUT/meta.json')).get('demo_dir','.'))")
S=$(mktemp -d /tmp/verif-ingest.XXXXXX); WT=$S/wt
git -C /repo worktree add -q --detach "$WT" HEAD
fail() { echo "REJECT $NAME: $1"; git -C /repo worktree remove --force "$WT"; rm -rf "$S"; exit 1; }
demo=$(ls "$OUT"/*_test.go | head -1)
# 1. demo passes on the unchanged tree
cp "$demo" "$WT/$ddir/zz_seed_demo_test.go"
( cd "$WT" && go test -count=1 -vet=off -run TestSeedDemo "./$ddir" >"$S/demo_clean.log" 2>&1 ) || fail "demo does not pass on the unchanged tree ($(tail -3 $S/demo_clean.log | tr '\n' ' '))"
grep -q '^ok' "$S/demo_clean.log" || fail "demo did not run on unchanged tree"
# 2. apply
git -C "$WT" apply "$OUT/patch.diff" 2>"$S/apply.err" || fail "patch does not apply: $(head -1 $S/apply.err)"
( cd "$WT" && go build ./... ) >"$S/build.log" 2>&1 || fail "does not build"
# 3. demo fails with the change
if ( cd "$WT" && go test -count=1 -vet=off -run TestSeedDemo "./$ddir" >"$S/demo_seeded.log" 2>&1 ); then fail "demo passes with the change applied"; fi
grep -q -- '--- FAIL: TestSeedDemo' "$S/demo_seeded.log" || fail "demo did not fail in TestSeedDemo ($(tail -3 $S/demo_seeded.log | tr '\n' ' '))"
# 4. suite without the demo: only baseline failures
rm "$WT/$ddir/zz_seed_demo_test.go"
( cd "$WT" && go test -count=1 -vet=off ./... >"$S/suite.log" 2>&1 )
newfail=$(grep -E '^--- FAIL' "$S/suite.log" | grep -vE 'FAIL: (TestSAML|TestSAMLUsingSetSPKeyStore) ' | tr '\n' ' ')
[ -z "$newfail" ] || fail "suite newly fails: $newfail"
grep -qE '^(FAIL|ok).*providertests' "$S/suite.log" || fail "suite did not run"
# 5. store
mkdir -p "$D/seeded/$NAME"
cp "$OUT/patch.diff" "$D/seeded/$NAME/patch.diff"
cp "$demo" "$D/seeded/$NAME/zz_seed_demo_test.go"
python3 - "$OUT/meta.json" "$D/seeded/$NAME/meta.json" <<PY
import json,sys
m=json.load(open(sys.argv[1]))
m["confirmed_by_main_session"]={"base":"$(git -C /repo rev-parse --short HEAD)","ran":["demo on unchanged tree: pass","git apply patch.diff; go build ./...: ok","demo with change: FAIL in TestSeedDemo","go test -count=1 -vet=off ./... with change (demo removed): only baseline failures TestSAML, TestSAMLUsingSetSPKeyStore"]}
json.dump(m,open(sys.argv[2],"w"),indent=1)
PY
git -C /repo worktree remove --force "$WT"; rm -rf "$S"
echo "CONFIRMED $NAME (property $prop)"
(printf '# property: %s\n# expect: detect\n' "$prop"; cat "$D/seeded/$NAME/patch.diff") > /tmp/seed-$NAME.patch
SHOW=1 "$D/selftest" /tmp/seed-$NAME.patch; rm -f /tmp/seed-$NAME.patch
