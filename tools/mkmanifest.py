#!/usr/bin/env python3
"""Regenerates /verif/MANIFEST.json from the table below (kept in sync with checker/run.go)."""
import json, os
here = os.path.dirname(os.path.abspath(__file__))
root = os.path.dirname(here)

TB = "Trusted base: go/types + go/ssa (x/tools v0.29.0) represent the source faithfully; the external contract table (checker/contracts.go) for goxmldsig, etree, xml-roundtrip-validator and std; pinned dependency versions (a replace directive fails the check)."

P = {
 "C01": dict(tech="path-sensitive provenance analysis on go/ssa (pathwalk) + who-may-call scans",
   text="Decides, for every path of ValidateEncodedResponse with validation enabled, where each decoded Response/Assertion came from: the element returned by a successful dsig Validate, or (unsigned root) a header-only decode with both assertion lists reset and appends only of freshly allocated, individually verified direct children; only ErrMissingSignature at the root continues; parseResponse screens the very bytes it parsed into a document created for that attempt; both traversal handlers (Assertion, EncryptedAssertion) demand a direct child of the processed root; the validation context is built per call over sp.IDPCertificateStore / sp.Clock; the header is decoded before any tree mutation. Holds for all inputs because it is a property of every control-flow path, not of sampled documents. No traversal handler ends the walk early (etreeutils.ErrTraversalHalted) on an accepting path. Every element decryptAssertions adds to a tree is Root(parseResponse(DecryptBytes(the EncryptedAssertion decoded from the handler's element))): no other source of plaintext.",
   note="Not decided: correctness of dsig.Validate itself (contract, audited by shape in the thorough tier), parser differentials beyond the round-trip screen, ID-collision handling inside goxmldsig. " + TB, ref="DESIGN.md §3 C01"),
 "C02": dict(tech="who-may-construct / receiver scans + path-sensitive error-discipline analysis",
   text="Every validation context is built in validationContext() over sp.IDPCertificateStore with ctx.Clock = sp.Clock, every Validate receiver comes from it, and at all four verify sites the only non-fatal error is ErrMissingSignature at a root site, whose continuation leaves the trust flag constant false. The trust store is read-only for the library (no store / append / mutating call reaches sp.IDPCertificateStore or what it hands out).",
   note="Not decided: x509 equality / signature mathematics and verifyCertificate's behaviour (dependency; shape-audited in thorough). " + TB, ref="DESIGN.md §3 C02"),
 "C03": dict(tech="required-fact table over all SSA paths (guard inventory) with loop generic-iteration",
   text="Every accepting path of Validate carries each of the 17 profile checks plus the expiry comparison; per-assertion checks hold at every completed iteration of a loop over the whole Assertions slice; each rejection returns the typed error naming the element; Validate(obj)==nil is the last event on every object ValidateEncodedResponse returns; each assertion Validate inspects was decoded into its own fresh target. The configuration the checks compare against (IdP issuer, ACS URL, clock, audience) is written by no library function. The verifying traversal visits every element and rejects what is not a direct child (shared with C01-R4), so every assertion reaches the checks.",
   note="Not decided: that encoding/xml fills the structs faithfully (C08 / dependency). " + TB, ref="DESIGN.md §3 C03"),
 "C04": dict(tech="typestate of trust-flag fields: who-may-write scan, path-sensitive flag<=>provenance, struct-tag table",
   text="The five trust indicators are written only by the validators; on every accepting path the returned flag is a compile-time constant that is true exactly when the object was decoded from the element returned by the successful check of the parsed root with validation on; xml:\"-\" keeps input from setting them; the summary flag mirrors the Response flag.",
   note="Field-for-field equality with the signed element follows from C01 provenance + the Validate contract, not re-proved here. " + TB, ref="DESIGN.md §3 C04"),
 "C05": dict(tech="comparison truth tables over the 3 orderings of (clock, bound), extracted from path facts",
   text="For each time decision the guard is evaluated over now<b, now=b, now>b on all paths: expiry rejects on = and >, InvalidTime from NotBefore on < only and from NotOnOrAfter on = and >; operands are sp.Clock.Now() and time.Parse(RFC3339, field) unmodified; missing/unparsable bounds are typed errors; no wall-clock call exists in library scope (positive control). Every verified assertion is decoded into a fresh object, so each assertion's bounds are its own. Every accepting path of ValidateEncodedResponse ends with sp.Validate(returned object) == nil on this call (no acceptance from an earlier call's verdict). RetrieveAssertionInfo hands back exactly the WarningInfo VerifyAssertionConditions returned without error.",
   note="Not decided: time.Parse's own handling of offsets and fractions (std contract). " + TB, ref="DESIGN.md §3 C05"),
 "C06": dict(tech="loop-to-quantifier extraction on SSA paths; exact-comparison and accumulate-loop rules",
   text="NotInAudience is stored exactly on generic outer iterations whose inner loop over that restriction's Audiences is exhausted without an exact == match, never with zero restrictions; OneTimeUse and ProxyRestriction mirror presence, Count and the audience list in order. Every verified assertion is decoded into a fresh object; no allocation while computing the warnings is sized by a signed value. A store to NotInAudience inside the loop over the restrictions stores true or the loop-carried value (restrictions are conjunctive: a later or matching restriction never clears the warning). RetrieveAssertionInfo accepts only when VerifyAssertionConditions returned no error (no partial warnings).",
   note="String equality semantics are Go's; nothing else assumed beyond the trusted base. " + TB, ref="DESIGN.md §3 C06"),
 "C07": dict(tech="value-flow and event-order analysis on SSA paths; truth tables for the certificate window",
   text="Decrypted plaintext only re-enters the tree (parseResponse -> Root -> AddChild on the processed element); decryption precedes the verifying traversal over the same root; the EncryptedAssertion handler demands a direct child and the whole-tree traversal runs before every successful return; every path to an RSA unwrap has the recipient-certificate guard on the decoded EncryptedKey struct; getDecryptCert validates the returned certificate's leaf with the closed window on the SP clock on every accepting path and returns a certificate built in that call (no memoised value). The xmlenc fields the decrypting code reads decode from the element paths it assumes, matched by local name without namespace restriction (schema table).",
   note="Not decided: confidentiality / malleability of CBC, RSA mathematics. " + TB, ref="DESIGN.md §3 C07"),
 "C09": dict(tech="per-instruction panic obligations (bounds via linear path facts, nil-ness, preconditions) over the call-graph cone",
   text="For every module function reachable from the 6 inbound entry points and 3 decrypt routines, every index, slice, pointer dereference, interface call, map update, division, explicit panic and precondition-bearing std call is discharged on every path; every return of the entry points yields exactly one of (non-nil result, non-nil error). Calls through function values (map entries, fields) need a non-nil proof (positive control nilcall).",
   note="Not decided: panics inside dependencies/std, stack exhaustion, nil-vs-empty []byte from AEAD.Open; pointer parameters of exported functions are assumed non-nil (the property quantifies over strings). " + TB, ref="DESIGN.md §3 C09"),
 "C10": dict(tech="guard inventory + provenance/flag typestate on the logout validators; XMLName tag table; sibling skeleton diff",
   text="Both logout validators carry Version, Destination-vs-SLO-URL, Issuer and (responses) Success checks with typed errors on every accepting path; fatal verification errors; decode from the verified root (or raw root on the missing-signature continuation) with flag <=> verified root and false under skip; root structs have distinct tagged XMLNames; the two validators agree path class by path class.",
   note="As C01/C02. " + TB, ref="DESIGN.md §3 C10"),
 "C11": dict(tech="table agreement (advertised vs handled constants), key-source decision tables over all valid configurations, expression-shape and rejection-whitelist rules",
   text="STRUCTURAL PART ONLY: every advertised / exported algorithm constant has a decrypting case; the key that decrypts and the certificate reported/published pick the same source in all 12 valid field/setter configurations; nonce/IV split and padding removal have the required shape; no rejection outside the safety whitelist on the symmetric layer; the symmetric key is the whole RSA plaintext of base64(CipherValue) obtained with the primitive the transport identifier names; every advertised algorithm's cipher family matches its identifier. decryptAssertions runs unconditionally on every accepting validating path (shared with C07-R2). A refused SetSPKeyStore / SetSPSigningKeyStore call changes nothing (shared setter contract).",
   note="Explicitly NOT decided: byte-exact round trip for every plaintext length and algorithm pairing, OAEP/MGF semantics (cryptographic run-time behaviour). The checked clauses are necessary conditions: breaking one breaks the round trip for some input/configuration. " + TB, ref="DESIGN.md §3 C11"),
 "C12": dict(tech="who-may-call scan + value-flow / bounds analysis of maybeDeflate on SSA paths",
   text="The only decompressor constructor in the library is in maybeDeflate, its reader flows only into io.LimitReader(r, max+1) (max = parameter, 5 MiB when 0), only the limited reader is read, the second decode is reached only with len(out) <= max proven from path facts, both attempts call the same decoder, and every entry point routes through it with the configured / default limit. DecryptBytes returns exactly the opened / unpadded plaintext, so a compressed plaintext reaches the inflater byte for byte.",
   note="Not decided: transient allocator slack of io.ReadAll ('about the limit'). " + TB, ref="DESIGN.md §3 C12"),
 "C19": dict(tech="wiring table on SSA value flow, decision-table agreement, dimensional (unit) rule for durations",
   text="Both metadata functions wire entity ID, endpoints, booleans and base64(StdEncoding) certificates from the named configuration sources; published signing/encryption keys equal the keys really used in all 12 valid configurations; ValidUntil = sp.Clock.Now().UTC().Add(d) with d a duration (hours must be multiplied by time.Hour), default 7 days. The configuration setters store their argument into their own override field and nothing else.",
   note="Not decided: XML round trip of the descriptor (encoding/xml behaviour). " + TB, ref="DESIGN.md §3 C19"),
 "C08": dict(tech="struct-tag schema table, value-flow wiring of the summary, path-shape rules for the accessors, shared provenance/freshness rules",
   text="STRUCTURAL PART ONLY: every field the property enumerates decodes from the SAML-schema element/attribute name, namespace and Go type; RetrieveAssertionInfo wires NameID, every attribute in order, the AuthnStatement fields and the whole assertion list from the validated response; Get/GetSize/GetAll have the first / count / all-in-order shape with empty results for nil map and absent key; decode targets are fresh and decoded from verified elements; decoded objects are never written afterwards; once the root signature verified no further verification narrows acceptance. etree's read / write settings are untouched in library scope (positive control).",
   note="Explicitly NOT decided: that every conforming serialisation is accepted and that text survives comments / CDATA / character references / canonicalisation (behaviour of etree, encoding/xml, goxmldsig over unbounded inputs). The checked clauses are necessary conditions. " + TB, ref="DESIGN.md §3 C08"),
 "C13": dict(tech="expression-shape and sibling-agreement rules on SSA paths, lock-ordered event rules, who-may-call scans, decision-table agreement",
   text="STRUCTURAL PART ONLY: each Sign* puts ConstructSignature(el, enveloped=true) from sp.SigningContext() at child index 1 of a copy keeping every other child once and in order (Issuer is created first, unconditionally, by every builder); builders use only the escaping tree API (no CDATA / raw sinks); SigningContext applies algorithm and canonicalizer to the new context under the write lock and embeds the signer's own certificate; all signing goes through it; signer, reported certificate and both metadata signing descriptors pick the same key source in all 12 valid configurations. The configuration setters store their argument into their own override field and nothing else.",
   note="Explicitly NOT decided: that the produced signature verifies after serialisation and re-parse (c14n + RSA at run time). " + TB, ref="DESIGN.md §3 C13"),
 "C14": dict(tech="event-order and value-flow rules on SSA paths of the two redirect builders",
   text="STRUCTURAL PART ONLY: raw DEFLATE over a fresh buffer receives exactly the document, Close() is checked before the buffer is read, base64.StdEncoding everywhere; parameters are added to the endpoint's own Query() and RawQuery is exactly qs.Encode(); RelayState is added iff non-empty; the signing string is the QueryEscape/Encode'd pairs in the order SAMLRequest,[RelayState,]SigAlg over the values sent, signed by the same context whose identifier is SigAlg. The configuration setters store their argument into their own override field and nothing else.",
   note="Explicitly NOT decided: inflate∘deflate, base64 and percent-coding round trips, that the signature verifies. Assumes the configured IdP endpoint does not itself carry SAMLRequest/RelayState/SigAlg/Signature parameters. " + TB, ref="DESIGN.md §3 C14"),
 "C15": dict(tech="document model reconstructed from the etree API event trace per SSA path; wiring and order tables",
   text="Injection-safety by construction: every element/attribute name is a compile-time constant and no raw sink is used; each attribute/child of the three messages is emitted exactly under its condition from exactly the named configuration field or argument; IssueInstant is Format(Z-literal layout) of sp.Clock.Now().UTC(); children follow the schema sequence with Issuer first; the document root is the built element or Sign*(it) exactly under the signing condition, and Sign* keeps every built child once and in order. The configuration fields the builders read are written by no library function.",
   note="Not decided: well-formedness of etree's serialiser, characters outside the XML repertoire. " + TB, ref="DESIGN.md §3 C15"),
 "C16": dict(tech="package-identity scan, constant-template parsing at analysis time (text/template/parse), value-flow wiring",
   text="The three POST bodies are produced solely by html/template Execute into the returned buffer from a compile-time-constant template with only plain string field actions inside quoted attribute values, one POST form with action={{.URL}}, the base64 document field and a RelayState input exactly on the non-empty path; fields are wired from the flow's endpoint, base64.StdEncoding(document) and relayState. The endpoint URLs are written by no library function.",
   note="Not decided: html/template's escaper itself. " + TB, ref="DESIGN.md §3 C16"),
 "C17": dict(tech="write-effect scan over the call-graph cone of all public operations, path-sensitive lockset on SigningContext, copylocks-style scan",
   text="After configuration the only provider state written by any public operation is sp.signingContext (and the context object), only inside SigningContext, loads under R/W and stores/mutations under W with every acquire released; no package-level mutable state; validators return fresh allocations; the provider is never copied by value; no exported operation writes through a pointer-carrying argument (documents, elements, decoded messages) on any path. Value-flow counterpart: on every path of every exported provider method no store, mutating or unmodelled external call receives memory derived from the provider (configured keys and certificates included); provider fields the library writes are only touched under signingContextMu in functions analysed by the lockset rule.",
   note="Not decided: data races inside dependencies or user-supplied key/certificate stores; equality of concurrent and sequential results as an observed fact (implied for module code by the effect rules). " + TB, ref="DESIGN.md §3 C17"),
 "C18": dict(tech="value-flow rule for ID attributes, SSA rules on NewV4, exhaustive evaluation of the byte transforms over 256 inputs",
   text="Every ID attribute is a constant NCName-start prefix + String() of a uuid.NewV4() called in the same builder activation, held in attribute storage the element owns; NewV4 fills all 16 bytes of a fresh array from crypto/rand with the error fatal; version/variant transforms are correct for all 256 byte values and no other byte is overwritten; String() is the 8-4-4-4-12 lower-case hex layout.",
   note="Not decided: non-repetition (a probabilistic consequence of 122 random bits, not a code shape). " + TB, ref="DESIGN.md §3 C18"),
 "C20": dict(tech="sibling struct-tag comparison, decode-target type comparison, value-flow rules on the pre-decoders",
   text="STRUCTURAL PART ONLY: every field of UnverifiedBaseResponse has the identical xml tag and type in Response; the logout pre-decoder and full validation fill the same type; both pre-decoders decode the base64-decoded input via maybeDeflate with the 5 MiB default into an object allocated inside each attempt and return the successful attempt's object; no library code writes a header field (or a field of the Issuer object) after decoding; on the unsigned-root path the header is decoded before the tree is modified; the pre-decoders' decoder input is the same normal form (etree re-serialisation) the validators decode — violated on the pinned tree, recorded as known finding F5 (two KNOWN-FINDING lines, exit 0). On every accepting path of the validating entry points the returned object is the product of exactly one xml.Unmarshal whose error is nil on the path. A pre-decoder rejects only with the base64, inflate, size-limit or XML-decoder error that validation shares (rejection parity).",
   note="Explicitly NOT decided: that encoding/xml on the pre-decoder's input and on the re-serialised (canonicalised) verified tree select the same attribute / Issuer for documents with duplicates or shadowing (parser behaviour on adversarial inputs; attribute order under canonicalisation). Three concrete disagreements caused by decoding raw octets are known (F5). " + TB, ref="DESIGN.md §3 C20"),
}

NA_REASONS = {}

props = [json.loads(l) for l in open(os.path.join(root, "properties.jsonl"))]
checks, na = [], []
for p in props:
    i = p["id"]
    if i in P:
        d = P[i]
        checks.append({
            "property_id": i,
            "quick_cmd": "./check %s quick" % i,
            "thorough_cmd": "./check %s thorough" % i,
            "evidence_file": "/verif/evidence/%s.json" % i,
            "replay_cmd_template": "./check %s quick   # re-analyses /repo; the obligations of the last run are in {path}" % i,
            "engine": "samlcheck",
            "level_claimed": {"category": "other", "text": d["text"], "design_ref": d["ref"]},
            "level_note": d["note"],
            "technique": "static analysis: " + d["tech"],
        })
    else:
        na.append({"property_id": i, "reason": NA_REASONS.get(i, "check under construction: static rules for this property are not yet registered")})

m = {
 "version": 1,
 "setup_cmd": "./setup.sh",
 "hooks": {"guard": "verif", "enable": "no hooks: the checks analyse /repo's source statically (go/packages + go/ssa); the tag is reserved and also analysed as a build configuration in the thorough tier",
           "baseline_off_cmd": "cd /repo && go test -json -vet=off -count=1 -timeout 25m ./...", "source_commits": [], "add_only": True},
 "engines": [{"name": "samlcheck", "path": "checker/", "serves_properties": sorted(P.keys()),
              "kind_free_text": "repository-specific static checker: go/packages loader, go/ssa path-sensitive simulator (pathwalk) with contract table, linear bounds, decision tables, struct-tag tables, who-may-call scans; no library code is executed"}],
 "checks": checks,
 "not_applicable": na,
 "notes": "Technique family: static analysis. Exit codes of ./check: 0 held, 1 VIOLATION (line printed), 2 analysis could not run. Known findings: known_findings.json. Seeded changes: seeded/. Development variants: variants/ (+ ./selftest).",
}
json.dump(m, open(os.path.join(root, "MANIFEST.json"), "w"), indent=1)
print("checks:", len(checks), "not_applicable:", len(na))
