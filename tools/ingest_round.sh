#!/bin/bash
# tools/ingest_round.sh <suffix> [ids...] — ingest every finished seed of a round (tools/ingest_seed.sh), print one line per
# seed with the rules that caught it, and remove the agents' scratch worktrees.
SUF="$1"; shift
IDS="${@:-C01 C02 C03 C04 C05 C06 C07 C08 C09 C10 C11 C12 C13 C14 C15 C16 C17 C18 C19 C20}"
for id in $IDS; do
  d=/tmp/seed/$id-$SUF
  [ -f $d/out/meta.json ] || { echo "PENDING $id-$SUF"; continue; }
  [ -d /verif/seeded/$id-$SUF ] && { echo "HAVE $id-$SUF"; git -C /repo worktree remove --force $d/wt 2>/dev/null; continue; }
  /verif/tools/ingest_seed.sh $d/out $id-$SUF 2>&1 | grep -E "CONFIRMED|REJECT|^OK|MISMATCH|VIOLATED|UNDECIDED" | head -4 | cut -c1-220
  git -C /repo worktree remove --force $d/wt 2>/dev/null
done
