# Development variants (seeded = must be detected, benign = must stay silent). DESIGN.md §2.11.
VARIANTS = []
def V(prop, name, expect, what, *edits, needs="-"):
    VARIANTS.append(dict(prop=prop, name=name, expect=expect, what=what, needs=needs, edits=list(edits)))

DR = "decode_response.go"; VA = "validate.go"; RA = "retrieve_assertion.go"; LQ = "decode_logout_request.go"

# ---------------- C01
V("C01", "drop-reset-assertions", "detect", "unsigned path keeps the unverified assertions decoded from the raw root",
  (DR, "	decodedResponse.Assertions = []types.Assertion{}\n", ""),
  needs="unsigned Response carrying one signed and one unsigned assertion")
V("C01", "drop-reset-encrypted", "detect", "unsigned path keeps unverified EncryptedAssertions",
  (DR, "	decodedResponse.EncryptedAssertions = []types.EncryptedAssertion{}\n", ""))
V("C01", "unmarshal-unverified-root", "detect", "signed path decodes the raw element instead of the verified one",
  (DR, "		err = xmlUnmarshalElement(signedResponseEl, decodedResponse)", "		err = xmlUnmarshalElement(doc.Root(), decodedResponse)"),
  needs="signature wrapping: signed Response plus forged sibling content")
V("C01", "unmarshal-detached", "detect", "per-assertion decode uses the detached (unverified) copy",
  (DR, "		err = xmlUnmarshalElement(signedAssertion, decodedAssertion)", "		_ = signedAssertion\n		err = xmlUnmarshalElement(detached, decodedAssertion)"))
V("C01", "any-error-continues", "detect", "every root verification error falls through to the unsigned path",
  (DR, "	if err == dsig.ErrMissingSignature {\n		// Unfortunately we just blew away our Response\n		unverifiedResponse = doc.Root()\n	} else if err != nil {\n		return nil, err\n	} else if signedResponseEl == nil {",
       "	if err != nil {\n		// Unfortunately we just blew away our Response\n		unverifiedResponse = doc.Root()\n	} else if signedResponseEl == nil {"))
V("C01", "drop-parent-check", "detect", "assertion handler no longer requires a direct child",
  (DR, "		if parent != unverifiedResponse {\n			return fmt.Errorf(\"found assertion with unexpected parent element: %s\", unverifiedAssertion.Parent().Tag)\n		}\n\n		detached, err := etreeutils.NSDetatch(ctx, unverifiedAssertion) // make a detached copy\n		if err != nil {\n			return fmt.Errorf(\"unable to detach unverified assertion: %v\", err)\n		}\n\n		// signedAssertion",
       "		detached, err := etreeutils.NSDetatch(ctx, unverifiedAssertion) // make a detached copy\n		if err != nil {\n			return fmt.Errorf(\"unable to detach unverified assertion: %v\", err)\n		}\n\n		// signedAssertion"),
  needs="signed assertion nested below another element of an unsigned Response")
V("C01", "drop-screen", "detect", "round-trip screen removed",
  (DR, "	err = rtvalidator.Validate(bytes.NewReader(rawXML))\n	if err != nil {\n		return nil, nil, err\n	}\n", "	_ = rtvalidator.Validate\n	_ = rawXML\n"))
V("C01", "screen-other-bytes", "detect", "screen runs over the compressed input, not the parsed bytes",
  (DR, "	err = rtvalidator.Validate(bytes.NewReader(rawXML))", "	_ = rawXML\n	err = rtvalidator.Validate(bytes.NewReader(xml))"),
  needs="DEFLATE-compressed hostile document")
V("C01", "unsigned-assertion-skipped", "detect", "unsigned assertions in an unsigned response are silently skipped instead of rejecting",
  (DR, "		if err != nil {\n			return err // return any errors including unsignedAssertions\n		}",
       "		if err == dsig.ErrMissingSignature {\n			return nil\n		} else if err != nil {\n			return err\n		}"))
V("C01", "benign-switch-on-error", "silent", "if/else-if chain on the verification error rewritten as a switch",
  (DR, "	if err == dsig.ErrMissingSignature {\n		// Unfortunately we just blew away our Response\n		unverifiedResponse = doc.Root()\n	} else if err != nil {\n		return nil, err\n	} else if signedResponseEl == nil {\n		return nil, fmt.Errorf(\"missing transformed response\")\n	} else {",
       "	switch {\n	case err == dsig.ErrMissingSignature:\n		// Unfortunately we just blew away our Response\n		unverifiedResponse = doc.Root()\n	case err != nil:\n		return nil, err\n	case signedResponseEl == nil:\n		return nil, fmt.Errorf(\"missing transformed response\")\n	default:"))
V("C01", "benign-reset-nil", "silent", "reset by nil instead of empty literal",
  (DR, "	decodedResponse.Assertions = []types.Assertion{}\n", "	decodedResponse.Assertions = nil\n"))

# ---------------- C02
V("C02", "forget-clock", "detect", "validation context no longer uses the SP clock",
  (DR, "	ctx.Clock = sp.Clock\n", ""),
  needs="IdP certificate expired at the SP clock but valid at wall clock (or vice versa)")
V("C02", "empty-store", "detect", "validation context over a fresh store",
  (DR, "	ctx := dsig.NewDefaultValidationContext(sp.IDPCertificateStore)", "	ctx := dsig.NewDefaultValidationContext(&dsig.MemoryX509CertificateStore{})"))
V("C02", "logout-request-swallow", "detect", "LogoutRequest: invalid signature treated like missing",
  (LQ, "		if err == dsig.ErrMissingSignature {", "		if err == dsig.ErrMissingSignature || err == dsig.ErrInvalidSignature {"),
  needs="LogoutRequest with a present but invalid signature")
V("C02", "logout-response-inline-ctx", "detect", "LogoutResponse verified with an inline context",
  (DR, "		el, err = sp.validateElementSignature(el)\n		if err == dsig.ErrMissingSignature {\n			// Unfortunately we just blew away our Response\n			el = doc.Root()\n		} else if err != nil {\n			return nil, err\n		} else if el == nil {\n			return nil, fmt.Errorf(\"missing transformed logout response\")",
       "		el, err = dsig.NewDefaultValidationContext(sp.IDPCertificateStore).Validate(el)\n		if err == dsig.ErrMissingSignature {\n			// Unfortunately we just blew away our Response\n			el = doc.Root()\n		} else if err != nil {\n			return nil, err\n		} else if el == nil {\n			return nil, fmt.Errorf(\"missing transformed logout response\")"))

# ---------------- C03
V("C03", "drop-recipient", "detect", "Recipient check removed",
  (VA, "		if subjectConfirmationData.Recipient != sp.AssertionConsumerServiceURL {\n			return ErrInvalidValue{\n				Key:      RecipientAttr,\n				Expected: sp.AssertionConsumerServiceURL,\n				Actual:   subjectConfirmationData.Recipient,\n			}\n		}\n", ""))
V("C03", "first-assertion-only", "detect", "only the first assertion is checked",
  (VA, "	for _, assertion := range response.Assertions {\n		issuer = assertion.Issuer", "	for _, assertion := range response.Assertions[:1] {\n		issuer = assertion.Issuer"),
  needs="response with two assertions, the second with a foreign Recipient")
V("C03", "continue-empty-recipient", "detect", "assertions with empty Recipient skip the remaining checks",
  (VA, "		if subjectConfirmationData.Recipient != sp.AssertionConsumerServiceURL {", "		if subjectConfirmationData.Recipient == \"\" {\n			continue\n		}\n		if subjectConfirmationData.Recipient != sp.AssertionConsumerServiceURL {"))
V("C03", "recipient-vs-slo", "detect", "Recipient compared with the SLO URL",
  (VA, "		if subjectConfirmationData.Recipient != sp.AssertionConsumerServiceURL {", "		if subjectConfirmationData.Recipient != sp.ServiceProviderSLOURL {"))
V("C03", "untyped-error", "detect", "status failure reported through fmt.Errorf",
  (VA, "	if statusCode.Value != StatusCodeSuccess {\n		return ErrInvalidValue{\n			Key:      StatusCodeTag,\n			Expected: StatusCodeSuccess,\n			Actual:   statusCode.Value,\n		}\n	}\n\n	for _, assertion",
       "	if statusCode.Value != StatusCodeSuccess {\n		return fmt.Errorf(\"bad status %s\", statusCode.Value)\n	}\n\n	for _, assertion"))
V("C03", "validate-before-append", "detect", "validation runs before the verified assertions are appended",
  (DR, "	if err := etreeutils.NSFindIterate(unverifiedResponse, SAMLAssertionNamespace, AssertionTag, addSignedAssertion); err != nil {\n		return nil, err\n	}\n\n	err = sp.Validate(decodedResponse)\n	if err != nil {\n		return nil, err\n	}\n",
       "	decodedResponse.Assertions = append(decodedResponse.Assertions, types.Assertion{})\n	err = sp.Validate(decodedResponse)\n	decodedResponse.Assertions = decodedResponse.Assertions[:0]\n	if err := etreeutils.NSFindIterate(unverifiedResponse, SAMLAssertionNamespace, AssertionTag, addSignedAssertion); err != nil {\n		return nil, err\n	}\n"))
V("C03", "issuer-prefix", "detect", "issuer compared by prefix",
  (VA, "	if sp.IdentityProviderIssuer != \"\" && response.Issuer.Value != sp.IdentityProviderIssuer {\n		return ErrInvalidValue{\n			Key:      IssuerTag,\n			Expected: sp.IdentityProviderIssuer,\n			Actual:   response.Issuer.Value,\n		}\n	}\n\n	status := response.Status\n	if status == nil {\n		return ErrMissingElement{Tag: StatusTag}\n	}\n\n	statusCode := status.StatusCode\n	if statusCode == nil {\n		return ErrMissingElement{Tag: StatusCodeTag}\n	}\n\n	if statusCode.Value != StatusCodeSuccess {\n		return ErrInvalidValue{\n			Key:      StatusCodeTag,\n			Expected: StatusCodeSuccess,\n			Actual:   statusCode.Value,\n		}\n	}\n\n	for",
       "	if sp.IdentityProviderIssuer != \"\" && !strings.HasPrefix(response.Issuer.Value, sp.IdentityProviderIssuer) {\n		return ErrInvalidValue{\n			Key:      IssuerTag,\n			Expected: sp.IdentityProviderIssuer,\n			Actual:   response.Issuer.Value,\n		}\n	}\n\n	status := response.Status\n	if status == nil {\n		return ErrMissingElement{Tag: StatusTag}\n	}\n\n	statusCode := status.StatusCode\n	if statusCode == nil {\n		return ErrMissingElement{Tag: StatusCodeTag}\n	}\n\n	if statusCode.Value != StatusCodeSuccess {\n		return ErrInvalidValue{\n			Key:      StatusCodeTag,\n			Expected: StatusCodeSuccess,\n			Actual:   statusCode.Value,\n		}\n	}\n\n	for"),
  (VA, "import (\n	\"fmt\"\n	\"time\"\n", "import (\n	\"fmt\"\n	\"strings\"\n	\"time\"\n"))
V("C03", "benign-index-loop", "silent", "range loop rewritten as an index loop",
  (VA, "	for _, assertion := range response.Assertions {\n		issuer = assertion.Issuer", "	for i := 0; i < len(response.Assertions); i++ {\n		assertion := response.Assertions[i]\n		issuer = assertion.Issuer"))
V("C03", "benign-reorder", "silent", "Status checks moved before the Issuer checks",
  (VA, "	issuer := response.Issuer\n	if issuer == nil {\n		// FIXME?: SAML Core 2.0 Section 3.2.2 has Response.Issuer as [Optional]\n		return ErrMissingElement{Tag: IssuerTag}\n	}\n\n	if sp.IdentityProviderIssuer != \"\" && response.Issuer.Value != sp.IdentityProviderIssuer {\n		return ErrInvalidValue{\n			Key:      IssuerTag,\n			Expected: sp.IdentityProviderIssuer,\n			Actual:   response.Issuer.Value,\n		}\n	}\n\n	status := response.Status\n	if status == nil {\n		return ErrMissingElement{Tag: StatusTag}\n	}\n\n	statusCode := status.StatusCode\n	if statusCode == nil {\n		return ErrMissingElement{Tag: StatusCodeTag}\n	}\n\n	if statusCode.Value != StatusCodeSuccess {\n		return ErrInvalidValue{\n			Key:      StatusCodeTag,\n			Expected: StatusCodeSuccess,\n			Actual:   statusCode.Value,\n		}\n	}\n\n	for _, assertion := range response.Assertions {",
       "	status := response.Status\n	if status == nil {\n		return ErrMissingElement{Tag: StatusTag}\n	}\n\n	statusCode := status.StatusCode\n	if statusCode == nil {\n		return ErrMissingElement{Tag: StatusCodeTag}\n	}\n\n	if statusCode.Value != StatusCodeSuccess {\n		return ErrInvalidValue{\n			Key:      StatusCodeTag,\n			Expected: StatusCodeSuccess,\n			Actual:   statusCode.Value,\n		}\n	}\n\n	issuer := response.Issuer\n	if issuer == nil {\n		return ErrMissingElement{Tag: IssuerTag}\n	}\n\n	if sp.IdentityProviderIssuer != \"\" && response.Issuer.Value != sp.IdentityProviderIssuer {\n		return ErrInvalidValue{\n			Key:      IssuerTag,\n			Expected: sp.IdentityProviderIssuer,\n			Actual:   response.Issuer.Value,\n		}\n	}\n\n	for _, assertion := range response.Assertions {"))

# ---------------- C04
V("C04", "flag-before-checks", "detect", "logout response flag set before the error checks",
  (DR, "	var responseSignatureValidated bool\n	if !sp.SkipSignatureValidation {\n		el, err = sp.validateElementSignature(el)\n		if err == dsig.ErrMissingSignature {",
       "	var responseSignatureValidated bool\n	if !sp.SkipSignatureValidation {\n		el, err = sp.validateElementSignature(el)\n		responseSignatureValidated = true\n		if err == dsig.ErrMissingSignature {"),
  needs="unsigned LogoutResponse with validation enabled")
V("C04", "flag-on-missing", "detect", "SSO unsigned-root path marks the response validated",
  (DR, "	decodedResponse.SignatureValidated = false\n	decodedResponse.Assertions = []types.Assertion{}", "	decodedResponse.SignatureValidated = true\n	decodedResponse.Assertions = []types.Assertion{}"))
V("C04", "tag-attr", "detect", "flag readable from the XML input",
  ("types/response.go", "	Issuer             *Issuer   `xml:\"Issuer\"`\n	SignatureValidated bool      `xml:\"-\"` // not read, not dumped", "	Issuer             *Issuer   `xml:\"Issuer\"`\n	SignatureValidated bool      `xml:\"SignatureValidated,attr\"`"),
  needs="LogoutResponse with a SignatureValidated=\"true\" attribute and skip / unsigned path... flag is overwritten; still a tag-table violation")
V("C04", "mirror-hardcoded", "detect", "summary flag hard-coded",
  (RA, "	assertionInfo.ResponseSignatureValidated = response.SignatureValidated", "	assertionInfo.ResponseSignatureValidated = true"))
V("C04", "skip-flag-true", "detect", "skip path reports validated",
  (DR, "		decodedResponse.SignatureValidated = false\n		err := sp.Validate(decodedResponse)", "		decodedResponse.SignatureValidated = true\n		err := sp.Validate(decodedResponse)"))
V("C04", "assertion-flag-early", "detect", "assertion flag set on the detached copy's decode",
  (DR, "		err = xmlUnmarshalElement(signedAssertion, decodedAssertion)", "		_ = signedAssertion\n		err = xmlUnmarshalElement(unverifiedAssertion, decodedAssertion)"))

# ---------------- C05
V("C05", "after-again", "detect", "hard expiry uses After (accepts at equality)",
  (VA, "		if !now.Before(notOnOrAfter) {\n			return ErrInvalidValue{", "		if now.After(notOnOrAfter) {\n			return ErrInvalidValue{"),
  needs="SP clock exactly at NotOnOrAfter")
V("C05", "notbefore-inclusive", "detect", "warning raised at now == NotBefore",
  (VA, "	if now.Before(notBefore) {", "	if !now.After(notBefore) {"),
  needs="SP clock exactly at NotBefore")
V("C05", "wall-clock", "detect", "conditions compared against time.Now",
  (VA, "	warningInfo := &WarningInfo{}\n	now := sp.Clock.Now()", "	warningInfo := &WarningInfo{}\n	now := time.Now()"))
V("C05", "skew", "detect", "one minute of grace added to the bound",
  (VA, "		if !now.Before(notOnOrAfter) {\n			return ErrInvalidValue{", "		if !now.Before(notOnOrAfter.Add(time.Minute)) {\n			return ErrInvalidValue{"))
V("C05", "empty-bound-unbounded", "detect", "missing Conditions NotOnOrAfter treated as unbounded",
  (VA, "	if conditions.NotOnOrAfter == \"\" {\n		return nil, ErrMissingElement{Tag: ConditionsTag, Attribute: NotOnOrAfterAttr}\n	}\n\n	notOnOrAfter, err := time.Parse(time.RFC3339, conditions.NotOnOrAfter)\n	if err != nil {\n		return nil, ErrParsing{Tag: NotOnOrAfterAttr, Value: conditions.NotOnOrAfter, Type: \"time.RFC3339\"}\n	}\n\n	if !now.Before(notOnOrAfter) {\n		warningInfo.InvalidTime = true\n	}",
       "	if conditions.NotOnOrAfter != \"\" {\n		notOnOrAfter, err := time.Parse(time.RFC3339, conditions.NotOnOrAfter)\n		if err != nil {\n			return nil, ErrParsing{Tag: NotOnOrAfterAttr, Value: conditions.NotOnOrAfter, Type: \"time.RFC3339\"}\n		}\n\n		if !now.Before(notOnOrAfter) {\n			warningInfo.InvalidTime = true\n		}\n	}"))
V("C05", "benign-after-or-equal", "silent", "!Before written as After || Equal",
  (VA, "		if !now.Before(notOnOrAfter) {\n			return ErrInvalidValue{", "		if now.After(notOnOrAfter) || now.Equal(notOnOrAfter) {\n			return ErrInvalidValue{"))
V("C05", "benign-swapped-operands", "silent", "bound.After(now) for now.Before(bound)",
  (VA, "	if now.Before(notBefore) {", "	if notBefore.After(now) {"))

# ---------------- C06
V("C06", "any-all-swap", "detect", "warning only when no restriction matches at all (matched starts true)",
  (VA, "		matched := false\n\n		for _, audience := range audienceRestriction.Audiences {\n			if audience.Value == sp.AudienceURI {\n				matched = true\n				break\n			}\n		}",
       "		matched := len(audienceRestriction.Audiences) == 0\n\n		for _, audience := range audienceRestriction.Audiences {\n			if audience.Value == sp.AudienceURI {\n				matched = true\n				break\n			}\n		}"),
  needs="AudienceRestriction without any Audience element")
V("C06", "equalfold", "detect", "case-insensitive audience comparison",
  (VA, "			if audience.Value == sp.AudienceURI {", "			if strings.EqualFold(audience.Value, sp.AudienceURI) {"),
  (VA, "import (\n	\"fmt\"\n	\"time\"\n", "import (\n	\"fmt\"\n	\"strings\"\n	\"time\"\n"),
  needs="audience differing only in case")
V("C06", "first-restriction-only", "detect", "only the first restriction is examined",
  (VA, "	for _, audienceRestriction := range conditions.AudienceRestrictions {", "	for _, audienceRestriction := range conditions.AudienceRestrictions[:1] {"),
  needs="two restrictions, the second without the SP audience")
V("C06", "drop-proxy-audiences", "detect", "proxy audience list not copied",
  (VA, "		for _, audience := range proxyRestriction.Audience {\n			proxyRestrictionInfo.Audience = append(proxyRestrictionInfo.Audience, audience.Value)\n		}\n", ""))
V("C06", "benign-sticky-flag", "silent", "no break after raising the warning",
  (VA, "		if !matched {\n			warningInfo.NotInAudience = true\n			break\n		}", "		if !matched {\n			warningInfo.NotInAudience = true\n		}"))

# ---------------- C10
V("C10", "logout-dest-acs", "detect", "logout Destination compared with the ACS URL",
  (LQ, "	if request.Destination != \"\" && request.Destination != sp.ServiceProviderSLOURL {", "	if request.Destination != \"\" && request.Destination != sp.AssertionConsumerServiceURL {"))
V("C10", "drop-xmlname", "detect", "LogoutRequest accepts any root element",
  ("logout_request.go", "	XMLName xml.Name `xml:\"urn:oasis:names:tc:SAML:2.0:protocol LogoutRequest\"`", "	XMLName xml.Name"),
  needs="SSO Response posted to the logout endpoint")
V("C10", "logout-status-skipped", "detect", "LogoutResponse status no longer checked",
  (VA, "	if statusCode.Value != StatusCodeSuccess {\n		return ErrInvalidValue{\n			Key:      StatusCodeTag,\n			Expected: StatusCodeSuccess,\n			Actual:   statusCode.Value,\n		}\n	}\n\n	return nil\n}\n\nfunc (sp *SAMLServiceProvider) ValidateDecodedLogoutRequest", "	return nil\n}\n\nfunc (sp *SAMLServiceProvider) ValidateDecodedLogoutRequest"))
V("C10", "logout-decode-raw", "detect", "LogoutRequest decoded from the raw root even when verified",
  (LQ, "	err = xmlUnmarshalElement(el, decodedRequest)", "	err = xmlUnmarshalElement(doc.Root(), decodedRequest)"),
  needs="wrapped logout request")
