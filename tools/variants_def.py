# Development variants (seeded = must be detected, benign = must stay silent). DESIGN.md §2.11.
VARIANTS = []
def V(prop, name, expect, what, *edits, needs="-"):
    VARIANTS.append(dict(prop=prop, name=name, expect=expect, what=what, needs=needs, edits=list(edits)))

DR = "decode_response.go"; VA = "validate.go"; RA = "retrieve_assertion.go"; LQ = "decode_logout_request.go"

# ---------------- C01
V("C01", "drop-reset-assertions", "detect", "unsigned path keeps the unverified assertions decoded from the raw root",
  (DR, "	decodedResponse.Assertions = []types.Assertion{}\n", ""),
  needs="unsigned Response carrying one signed and one unsigned assertion")
V("C01", "drop-reset-encrypted", "detect", "unsigned path keeps unverified EncryptedAssertions",
  (DR, "	decodedResponse.EncryptedAssertions = []types.EncryptedAssertion{}\n", ""))
V("C01", "unmarshal-unverified-root", "detect", "signed path decodes the raw element instead of the verified one",
  (DR, "		err = xmlUnmarshalElement(signedResponseEl, decodedResponse)", "		err = xmlUnmarshalElement(doc.Root(), decodedResponse)"),
  needs="signature wrapping: signed Response plus forged sibling content")
V("C01", "unmarshal-detached", "detect", "per-assertion decode uses the detached (unverified) copy",
  (DR, "		err = xmlUnmarshalElement(signedAssertion, decodedAssertion)", "		_ = signedAssertion\n		err = xmlUnmarshalElement(detached, decodedAssertion)"))
V("C01", "any-error-continues", "detect", "every root verification error falls through to the unsigned path",
  (DR, "	if err == dsig.ErrMissingSignature {\n		// Unfortunately we just blew away our Response\n		unverifiedResponse = doc.Root()\n	} else if err != nil {\n		return nil, err\n	} else if signedResponseEl == nil {",
       "	if err != nil {\n		// Unfortunately we just blew away our Response\n		unverifiedResponse = doc.Root()\n	} else if signedResponseEl == nil {"))
V("C01", "drop-parent-check", "detect", "assertion handler no longer requires a direct child",
  (DR, "		if parent != unverifiedResponse {\n			return fmt.Errorf(\"found assertion with unexpected parent element: %s\", unverifiedAssertion.Parent().Tag)\n		}\n\n		detached, err := etreeutils.NSDetatch(ctx, unverifiedAssertion) // make a detached copy\n		if err != nil {\n			return fmt.Errorf(\"unable to detach unverified assertion: %v\", err)\n		}\n\n		// signedAssertion",
       "		detached, err := etreeutils.NSDetatch(ctx, unverifiedAssertion) // make a detached copy\n		if err != nil {\n			return fmt.Errorf(\"unable to detach unverified assertion: %v\", err)\n		}\n\n		// signedAssertion"),
  needs="signed assertion nested below another element of an unsigned Response")
V("C01", "drop-screen", "detect", "round-trip screen removed",
  (DR, "	err = rtvalidator.Validate(bytes.NewReader(rawXML))\n	if err != nil {\n		return nil, nil, err\n	}\n", "	_ = rtvalidator.Validate\n	_ = rawXML\n"))
V("C01", "screen-other-bytes", "detect", "screen runs over the compressed input, not the parsed bytes",
  (DR, "	err = rtvalidator.Validate(bytes.NewReader(rawXML))", "	_ = rawXML\n	err = rtvalidator.Validate(bytes.NewReader(xml))"),
  needs="DEFLATE-compressed hostile document")
V("C01", "unsigned-assertion-skipped", "detect", "unsigned assertions in an unsigned response are silently skipped instead of rejecting",
  (DR, "		if err != nil {\n			return err // return any errors including unsignedAssertions\n		}",
       "		if err == dsig.ErrMissingSignature {\n			return nil\n		} else if err != nil {\n			return err\n		}"))
V("C01", "benign-switch-on-error", "silent", "if/else-if chain on the verification error rewritten as a switch",
  (DR, "	if err == dsig.ErrMissingSignature {\n		// Unfortunately we just blew away our Response\n		unverifiedResponse = doc.Root()\n	} else if err != nil {\n		return nil, err\n	} else if signedResponseEl == nil {\n		return nil, fmt.Errorf(\"missing transformed response\")\n	} else {",
       "	switch {\n	case err == dsig.ErrMissingSignature:\n		// Unfortunately we just blew away our Response\n		unverifiedResponse = doc.Root()\n	case err != nil:\n		return nil, err\n	case signedResponseEl == nil:\n		return nil, fmt.Errorf(\"missing transformed response\")\n	default:"))
V("C01", "benign-reset-nil", "silent", "reset by nil instead of empty literal",
  (DR, "	decodedResponse.Assertions = []types.Assertion{}\n", "	decodedResponse.Assertions = nil\n"))

# ---------------- C02
V("C02", "forget-clock", "detect", "validation context no longer uses the SP clock",
  (DR, "	ctx.Clock = sp.Clock\n", ""),
  needs="IdP certificate expired at the SP clock but valid at wall clock (or vice versa)")
V("C02", "empty-store", "detect", "validation context over a fresh store",
  (DR, "	ctx := dsig.NewDefaultValidationContext(sp.IDPCertificateStore)", "	ctx := dsig.NewDefaultValidationContext(&dsig.MemoryX509CertificateStore{})"))
V("C02", "logout-request-swallow", "detect", "LogoutRequest: invalid signature treated like missing",
  (LQ, "		if err == dsig.ErrMissingSignature {", "		if err == dsig.ErrMissingSignature || err == dsig.ErrInvalidSignature {"),
  needs="LogoutRequest with a present but invalid signature")
V("C02", "logout-response-inline-ctx", "detect", "LogoutResponse verified with an inline context",
  (DR, "		el, err = sp.validateElementSignature(el)\n		if err == dsig.ErrMissingSignature {\n			// Unfortunately we just blew away our Response\n			el = doc.Root()\n		} else if err != nil {\n			return nil, err\n		} else if el == nil {\n			return nil, fmt.Errorf(\"missing transformed logout response\")",
       "		el, err = dsig.NewDefaultValidationContext(sp.IDPCertificateStore).Validate(el)\n		if err == dsig.ErrMissingSignature {\n			// Unfortunately we just blew away our Response\n			el = doc.Root()\n		} else if err != nil {\n			return nil, err\n		} else if el == nil {\n			return nil, fmt.Errorf(\"missing transformed logout response\")"))

# ---------------- C03
V("C03", "drop-recipient", "detect", "Recipient check removed",
  (VA, "		if subjectConfirmationData.Recipient != sp.AssertionConsumerServiceURL {\n			return ErrInvalidValue{\n				Key:      RecipientAttr,\n				Expected: sp.AssertionConsumerServiceURL,\n				Actual:   subjectConfirmationData.Recipient,\n			}\n		}\n", ""))
V("C03", "first-assertion-only", "detect", "only the first assertion is checked",
  (VA, "	for _, assertion := range response.Assertions {\n		issuer = assertion.Issuer", "	for _, assertion := range response.Assertions[:1] {\n		issuer = assertion.Issuer"),
  needs="response with two assertions, the second with a foreign Recipient")
V("C03", "continue-empty-recipient", "detect", "assertions with empty Recipient skip the remaining checks",
  (VA, "		if subjectConfirmationData.Recipient != sp.AssertionConsumerServiceURL {", "		if subjectConfirmationData.Recipient == \"\" {\n			continue\n		}\n		if subjectConfirmationData.Recipient != sp.AssertionConsumerServiceURL {"))
V("C03", "recipient-vs-slo", "detect", "Recipient compared with the SLO URL",
  (VA, "		if subjectConfirmationData.Recipient != sp.AssertionConsumerServiceURL {", "		if subjectConfirmationData.Recipient != sp.ServiceProviderSLOURL {"))
V("C03", "untyped-error", "detect", "status failure reported through fmt.Errorf",
  (VA, "	if statusCode.Value != StatusCodeSuccess {\n		return ErrInvalidValue{\n			Key:      StatusCodeTag,\n			Expected: StatusCodeSuccess,\n			Actual:   statusCode.Value,\n		}\n	}\n\n	for _, assertion",
       "	if statusCode.Value != StatusCodeSuccess {\n		return fmt.Errorf(\"bad status %s\", statusCode.Value)\n	}\n\n	for _, assertion"))
V("C03", "validate-before-append", "detect", "validation runs before the verified assertions are appended",
  (DR, "	if err := etreeutils.NSFindIterate(unverifiedResponse, SAMLAssertionNamespace, AssertionTag, addSignedAssertion); err != nil {\n		return nil, err\n	}\n\n	err = sp.Validate(decodedResponse)\n	if err != nil {\n		return nil, err\n	}\n",
       "	decodedResponse.Assertions = append(decodedResponse.Assertions, types.Assertion{})\n	err = sp.Validate(decodedResponse)\n	decodedResponse.Assertions = decodedResponse.Assertions[:0]\n	if err := etreeutils.NSFindIterate(unverifiedResponse, SAMLAssertionNamespace, AssertionTag, addSignedAssertion); err != nil {\n		return nil, err\n	}\n"))
V("C03", "issuer-prefix", "detect", "issuer compared by prefix",
  (VA, "	if sp.IdentityProviderIssuer != \"\" && response.Issuer.Value != sp.IdentityProviderIssuer {\n		return ErrInvalidValue{\n			Key:      IssuerTag,\n			Expected: sp.IdentityProviderIssuer,\n			Actual:   response.Issuer.Value,\n		}\n	}\n\n	status := response.Status\n	if status == nil {\n		return ErrMissingElement{Tag: StatusTag}\n	}\n\n	statusCode := status.StatusCode\n	if statusCode == nil {\n		return ErrMissingElement{Tag: StatusCodeTag}\n	}\n\n	if statusCode.Value != StatusCodeSuccess {\n		return ErrInvalidValue{\n			Key:      StatusCodeTag,\n			Expected: StatusCodeSuccess,\n			Actual:   statusCode.Value,\n		}\n	}\n\n	for",
       "	if sp.IdentityProviderIssuer != \"\" && !strings.HasPrefix(response.Issuer.Value, sp.IdentityProviderIssuer) {\n		return ErrInvalidValue{\n			Key:      IssuerTag,\n			Expected: sp.IdentityProviderIssuer,\n			Actual:   response.Issuer.Value,\n		}\n	}\n\n	status := response.Status\n	if status == nil {\n		return ErrMissingElement{Tag: StatusTag}\n	}\n\n	statusCode := status.StatusCode\n	if statusCode == nil {\n		return ErrMissingElement{Tag: StatusCodeTag}\n	}\n\n	if statusCode.Value != StatusCodeSuccess {\n		return ErrInvalidValue{\n			Key:      StatusCodeTag,\n			Expected: StatusCodeSuccess,\n			Actual:   statusCode.Value,\n		}\n	}\n\n	for"),
  (VA, "import (\n	\"fmt\"\n	\"time\"\n", "import (\n	\"fmt\"\n	\"strings\"\n	\"time\"\n"))
V("C03", "benign-index-loop", "silent", "range loop rewritten as an index loop",
  (VA, "	for _, assertion := range response.Assertions {\n		issuer = assertion.Issuer", "	for i := 0; i < len(response.Assertions); i++ {\n		assertion := response.Assertions[i]\n		issuer = assertion.Issuer"))
V("C03", "benign-reorder", "silent", "Status checks moved before the Issuer checks",
  (VA, "	issuer := response.Issuer\n	if issuer == nil {\n		// FIXME?: SAML Core 2.0 Section 3.2.2 has Response.Issuer as [Optional]\n		return ErrMissingElement{Tag: IssuerTag}\n	}\n\n	if sp.IdentityProviderIssuer != \"\" && response.Issuer.Value != sp.IdentityProviderIssuer {\n		return ErrInvalidValue{\n			Key:      IssuerTag,\n			Expected: sp.IdentityProviderIssuer,\n			Actual:   response.Issuer.Value,\n		}\n	}\n\n	status := response.Status\n	if status == nil {\n		return ErrMissingElement{Tag: StatusTag}\n	}\n\n	statusCode := status.StatusCode\n	if statusCode == nil {\n		return ErrMissingElement{Tag: StatusCodeTag}\n	}\n\n	if statusCode.Value != StatusCodeSuccess {\n		return ErrInvalidValue{\n			Key:      StatusCodeTag,\n			Expected: StatusCodeSuccess,\n			Actual:   statusCode.Value,\n		}\n	}\n\n	for _, assertion := range response.Assertions {",
       "	status := response.Status\n	if status == nil {\n		return ErrMissingElement{Tag: StatusTag}\n	}\n\n	statusCode := status.StatusCode\n	if statusCode == nil {\n		return ErrMissingElement{Tag: StatusCodeTag}\n	}\n\n	if statusCode.Value != StatusCodeSuccess {\n		return ErrInvalidValue{\n			Key:      StatusCodeTag,\n			Expected: StatusCodeSuccess,\n			Actual:   statusCode.Value,\n		}\n	}\n\n	issuer := response.Issuer\n	if issuer == nil {\n		return ErrMissingElement{Tag: IssuerTag}\n	}\n\n	if sp.IdentityProviderIssuer != \"\" && response.Issuer.Value != sp.IdentityProviderIssuer {\n		return ErrInvalidValue{\n			Key:      IssuerTag,\n			Expected: sp.IdentityProviderIssuer,\n			Actual:   response.Issuer.Value,\n		}\n	}\n\n	for _, assertion := range response.Assertions {"))

# ---------------- C04
V("C04", "flag-before-checks", "detect", "logout response flag set before the error checks",
  (DR, "	var responseSignatureValidated bool\n	if !sp.SkipSignatureValidation {\n		el, err = sp.validateElementSignature(el)\n		if err == dsig.ErrMissingSignature {",
       "	var responseSignatureValidated bool\n	if !sp.SkipSignatureValidation {\n		el, err = sp.validateElementSignature(el)\n		responseSignatureValidated = true\n		if err == dsig.ErrMissingSignature {"),
  needs="unsigned LogoutResponse with validation enabled")
V("C04", "flag-on-missing", "detect", "SSO unsigned-root path marks the response validated",
  (DR, "	decodedResponse.SignatureValidated = false\n	decodedResponse.Assertions = []types.Assertion{}", "	decodedResponse.SignatureValidated = true\n	decodedResponse.Assertions = []types.Assertion{}"))
V("C04", "tag-attr", "detect", "flag readable from the XML input",
  ("types/response.go", "	Issuer             *Issuer   `xml:\"Issuer\"`\n	SignatureValidated bool      `xml:\"-\"` // not read, not dumped", "	Issuer             *Issuer   `xml:\"Issuer\"`\n	SignatureValidated bool      `xml:\"SignatureValidated,attr\"`"),
  needs="LogoutResponse with a SignatureValidated=\"true\" attribute and skip / unsigned path... flag is overwritten; still a tag-table violation")
V("C04", "mirror-hardcoded", "detect", "summary flag hard-coded",
  (RA, "	assertionInfo.ResponseSignatureValidated = response.SignatureValidated", "	assertionInfo.ResponseSignatureValidated = true"))
V("C04", "skip-flag-true", "detect", "skip path reports validated",
  (DR, "		decodedResponse.SignatureValidated = false\n		err := sp.Validate(decodedResponse)", "		decodedResponse.SignatureValidated = true\n		err := sp.Validate(decodedResponse)"))
V("C04", "assertion-flag-early", "detect", "assertion flag set on the detached copy's decode",
  (DR, "		err = xmlUnmarshalElement(signedAssertion, decodedAssertion)", "		_ = signedAssertion\n		err = xmlUnmarshalElement(unverifiedAssertion, decodedAssertion)"))

# ---------------- C05
V("C05", "after-again", "detect", "hard expiry uses After (accepts at equality)",
  (VA, "		if !now.Before(notOnOrAfter) {\n			return ErrInvalidValue{", "		if now.After(notOnOrAfter) {\n			return ErrInvalidValue{"),
  needs="SP clock exactly at NotOnOrAfter")
V("C05", "notbefore-inclusive", "detect", "warning raised at now == NotBefore",
  (VA, "	if now.Before(notBefore) {", "	if !now.After(notBefore) {"),
  needs="SP clock exactly at NotBefore")
V("C05", "wall-clock", "detect", "conditions compared against time.Now",
  (VA, "	warningInfo := &WarningInfo{}\n	now := sp.Clock.Now()", "	warningInfo := &WarningInfo{}\n	now := time.Now()"))
V("C05", "skew", "detect", "one minute of grace added to the bound",
  (VA, "		if !now.Before(notOnOrAfter) {\n			return ErrInvalidValue{", "		if !now.Before(notOnOrAfter.Add(time.Minute)) {\n			return ErrInvalidValue{"))
V("C05", "empty-bound-unbounded", "detect", "missing Conditions NotOnOrAfter treated as unbounded",
  (VA, "	if conditions.NotOnOrAfter == \"\" {\n		return nil, ErrMissingElement{Tag: ConditionsTag, Attribute: NotOnOrAfterAttr}\n	}\n\n	notOnOrAfter, err := time.Parse(time.RFC3339, conditions.NotOnOrAfter)\n	if err != nil {\n		return nil, ErrParsing{Tag: NotOnOrAfterAttr, Value: conditions.NotOnOrAfter, Type: \"time.RFC3339\"}\n	}\n\n	if !now.Before(notOnOrAfter) {\n		warningInfo.InvalidTime = true\n	}",
       "	if conditions.NotOnOrAfter != \"\" {\n		notOnOrAfter, err := time.Parse(time.RFC3339, conditions.NotOnOrAfter)\n		if err != nil {\n			return nil, ErrParsing{Tag: NotOnOrAfterAttr, Value: conditions.NotOnOrAfter, Type: \"time.RFC3339\"}\n		}\n\n		if !now.Before(notOnOrAfter) {\n			warningInfo.InvalidTime = true\n		}\n	}"))
V("C05", "benign-after-or-equal", "silent", "!Before written as After || Equal",
  (VA, "		if !now.Before(notOnOrAfter) {\n			return ErrInvalidValue{", "		if now.After(notOnOrAfter) || now.Equal(notOnOrAfter) {\n			return ErrInvalidValue{"))
V("C05", "benign-swapped-operands", "silent", "bound.After(now) for now.Before(bound)",
  (VA, "	if now.Before(notBefore) {", "	if notBefore.After(now) {"))

# ---------------- C06
V("C06", "any-all-swap", "detect", "warning only when no restriction matches at all (matched starts true)",
  (VA, "		matched := false\n\n		for _, audience := range audienceRestriction.Audiences {\n			if audience.Value == sp.AudienceURI {\n				matched = true\n				break\n			}\n		}",
       "		matched := len(audienceRestriction.Audiences) == 0\n\n		for _, audience := range audienceRestriction.Audiences {\n			if audience.Value == sp.AudienceURI {\n				matched = true\n				break\n			}\n		}"),
  needs="AudienceRestriction without any Audience element")
V("C06", "equalfold", "detect", "case-insensitive audience comparison",
  (VA, "			if audience.Value == sp.AudienceURI {", "			if strings.EqualFold(audience.Value, sp.AudienceURI) {"),
  (VA, "import (\n	\"fmt\"\n	\"time\"\n", "import (\n	\"fmt\"\n	\"strings\"\n	\"time\"\n"),
  needs="audience differing only in case")
V("C06", "first-restriction-only", "detect", "only the first restriction is examined",
  (VA, "	for _, audienceRestriction := range conditions.AudienceRestrictions {", "	for _, audienceRestriction := range conditions.AudienceRestrictions[:1] {"),
  needs="two restrictions, the second without the SP audience")
V("C06", "drop-proxy-audiences", "detect", "proxy audience list not copied",
  (VA, "		for _, audience := range proxyRestriction.Audience {\n			proxyRestrictionInfo.Audience = append(proxyRestrictionInfo.Audience, audience.Value)\n		}\n", ""))
V("C06", "benign-sticky-flag", "silent", "no break after raising the warning",
  (VA, "		if !matched {\n			warningInfo.NotInAudience = true\n			break\n		}", "		if !matched {\n			warningInfo.NotInAudience = true\n		}"))

# ---------------- C10
V("C10", "logout-dest-acs", "detect", "logout Destination compared with the ACS URL",
  (LQ, "	if request.Destination != \"\" && request.Destination != sp.ServiceProviderSLOURL {", "	if request.Destination != \"\" && request.Destination != sp.AssertionConsumerServiceURL {"))
V("C10", "drop-xmlname", "detect", "LogoutRequest accepts any root element",
  ("logout_request.go", "	XMLName xml.Name `xml:\"urn:oasis:names:tc:SAML:2.0:protocol LogoutRequest\"`", "	XMLName xml.Name"),
  needs="SSO Response posted to the logout endpoint")
V("C10", "logout-status-skipped", "detect", "LogoutResponse status no longer checked",
  (VA, "	if statusCode.Value != StatusCodeSuccess {\n		return ErrInvalidValue{\n			Key:      StatusCodeTag,\n			Expected: StatusCodeSuccess,\n			Actual:   statusCode.Value,\n		}\n	}\n\n	return nil\n}\n\nfunc (sp *SAMLServiceProvider) ValidateDecodedLogoutRequest", "	return nil\n}\n\nfunc (sp *SAMLServiceProvider) ValidateDecodedLogoutRequest"))
V("C10", "logout-decode-raw", "detect", "LogoutRequest decoded from the raw root even when verified",
  (LQ, "	err = xmlUnmarshalElement(el, decodedRequest)", "	err = xmlUnmarshalElement(doc.Root(), decodedRequest)"),
  needs="wrapped logout request")

BR = "build_request.go"; BL = "build_logout_response.go"; SA = "saml.go"; UU = "uuid/uuid.go"; EA = "types/encrypted_assertion.go"; EK = "types/encrypted_key.go"; TR = "types/response.go"

# ---------------- C07
V("C07", "decrypt-after-traversal", "detect", "decryption moved after the verifying traversal on the unsigned path",
  (DR, "	// first decrypt all assertions\n	err = sp.decryptAssertions(unverifiedResponse)\n	if err != nil {\n		return nil, err\n	}\n", ""),
  (DR, "	err = sp.Validate(decodedResponse)\n	if err != nil {\n		return nil, err\n	}\n\n	return decodedResponse, nil\n}\n\n// DecodeUnverifiedBaseResponse",
       "	err = sp.decryptAssertions(unverifiedResponse)\n	if err != nil {\n		return nil, err\n	}\n\n	err = sp.Validate(decodedResponse)\n	if err != nil {\n		return nil, err\n	}\n\n	return decodedResponse, nil\n}\n\n// DecodeUnverifiedBaseResponse"))
V("C07", "recipient-check-inverted", "detect", "recipient certificate check inverted",
  (EK, "		} else if !bytes.Equal(cert.Certificate[0], encCert) {", "		} else if bytes.Equal(cert.Certificate[0], encCert) {"))
V("C07", "recipient-skip-on-decode-error", "detect", "undecodable recipient certificate ignored",
  (EK, "		if encCert, err := base64.StdEncoding.DecodeString(ek.X509Data); err != nil {\n			return nil, fmt.Errorf(\"error decoding EncryptedKey certificate: %v\", err)\n		} else if",
       "		if encCert, err := base64.StdEncoding.DecodeString(ek.X509Data); err == nil &&"),
  (EK, "bytes.Equal(cert.Certificate[0], encCert) {\n			return nil, fmt.Errorf(\"key decryption attempted", "bytes.Equal(cert.Certificate[0], encCert) {\n			return nil, fmt.Errorf(\"key decryption attempted"))
V("C07", "drop-notafter", "detect", "expired SP certificate accepted",
  (DR, "			if now.Before(cert.NotBefore) || now.After(cert.NotAfter) {", "			if now.Before(cert.NotBefore) {"))
V("C07", "window-wallclock", "detect", "SP certificate window checked against time.Now",
  (DR, "			now := sp.Clock.Now()\n			if now.Before(cert.NotBefore)", "			now := time.Now()\n			if now.Before(cert.NotBefore)"),
  (DR, "	\"io\"\n", "	\"io\"\n	\"time\"\n"))
V("C07", "encrypted-parent-check-dropped", "detect", "EncryptedAssertion anywhere in the tree is decrypted",
  (DR, "		if encryptedElement.Parent() != el {\n			return fmt.Errorf(\"found encrypted assertion with unexpected parent element: %s\", encryptedElement.Parent().Tag)\n		}\n\n", ""))

# ---------------- C09
V("C09", "assertion-index-before-check", "detect", "Assertions[0] read before the length check",
  (RA, "	// TODO: Support multiple assertions\n	if len(response.Assertions) == 0 {\n		return nil, ErrMissingAssertion\n	}\n\n	assertion := response.Assertions[0]", "	assertion := response.Assertions[0]\n	if len(response.Assertions) == 0 {\n		return nil, ErrMissingAssertion\n	}\n"))
V("C09", "nameid-unguarded", "detect", "NameID dereferenced without the nil check",
  (RA, "	nameID := subject.NameID\n	if nameID == nil {\n		return nil, ErrMissingElement{Tag: NameIdTag}\n	}\n", "	nameID := subject.NameID\n"))
V("C09", "nil-nil-return", "detect", "missing root yields (nil, nil)",
  (DR, "	} else if signedResponseEl == nil {\n		return nil, fmt.Errorf(\"missing transformed response\")", "	} else if signedResponseEl == nil {\n		return nil, nil"))
V("C09", "cert-len-guard-dropped", "detect", "certificate slot read without length check",
  (EK, "	if len(cert.Certificate) < 1 {\n		return nil, fmt.Errorf(\"decryption tls.Certificate has no public certs attached\")\n	}\n", ""))
V("C09", "gcm-guard-off-by-one", "detect", "nonce length guard weakened",
  (EA, "		if len(data) < c.NonceSize() {", "		if len(data) < c.NonceSize()-1 {"))
V("C09", "benign-guard-rewrite", "silent", "padding guard rewritten with the operands swapped",
  (EA, "		if padLength > len(data) {", "		if len(data) < padLength {"))
V("C09", "type-assert-no-ok", "detect", "unchecked type assertion on the SP key",
  (EK, "	switch pk := cert.PrivateKey.(type) {\n	case *rsa.PrivateKey:", "	switch pk := cert.PrivateKey.(crypto.Signer).(type) {\n	case *rsa.PrivateKey:"),
  (EK, "	\"crypto/aes\"\n", "	\"crypto\"\n	\"crypto/aes\"\n"))

# ---------------- C11
V("C11", "advertise-unhandled", "detect", "metadata advertises a method DecryptBytes cannot decrypt",
  (SA, "				{Algorithm: types.MethodAES128CBC},\n				{Algorithm: types.MethodAES256CBC},\n			},", "				{Algorithm: types.MethodAES128CBC},\n				{Algorithm: \"http://www.w3.org/2001/04/xmlenc#aes192-cbc\"},\n				{Algorithm: types.MethodAES256CBC},\n			},"))
V("C11", "drop-sha512", "detect", "exported digest constant no longer accepted",
  (EK, "			case MethodSHA512:\n				h = sha512.New()\n", ""),
  (EK, "	\"crypto/sha512\"\n", ""))
V("C11", "detached-key-ignored", "detect", "detached EncryptedKey never used",
  (EA, "	if ek.CipherValue == \"\" {", "	if false && ek.CipherValue == \"\" {"))
V("C11", "pad-from-first-byte", "detect", "padding length read from the wrong byte",
  (EA, "		padLength := int(data[len(data)-1])", "		padLength := int(data[0])"))
V("C11", "decrypt-field-first", "detect", "decryption key precedence differs from the published certificate",
  (DR, "	keyStore := sp.SPKeyStore\n	if sp.spKeyStoreOverride != nil {", "	keyStore := sp.SPKeyStore\n	if keyStore == nil && sp.spKeyStoreOverride != nil {"),
  needs="both the deprecated field and the setter configured with different keys")
V("C11", "sha256-uses-sha1", "detect", "digest identifier paired with the wrong hash",
  (EK, "			case MethodSHA256:\n				h = sha256.New()", "			case MethodSHA256:\n				h = sha1.New()"),
  (EK, "	\"crypto/sha256\"\n", ""))

# ---------------- C12
V("C12", "readall-direct", "detect", "inflate without LimitReader",
  (DR, "	lr := io.LimitReader(flate.NewReader(bytes.NewReader(data)), maxSize+1)\n\n	deflated, err := io.ReadAll(lr)", "	deflated, err := io.ReadAll(flate.NewReader(bytes.NewReader(data)))"))
V("C12", "limit-times-1024", "detect", "limit multiplied",
  (DR, "maxSize+1)", "maxSize*1024)"))
V("C12", "drop-length-check", "detect", "explicit length check removed",
  (DR, "	if int64(len(deflated)) > maxSize {\n		return fmt.Errorf(\"deflated response exceeds maximum size of %d bytes\", maxSize)\n	}\n", ""))
V("C12", "predecoder-unbounded", "detect", "pre-decoder passes a huge limit",
  (DR, "	err = maybeDeflate(raw, defaultMaxDecompressedResponseSize, func(maybeXML []byte) error {\n		response = &types.UnverifiedBaseResponse{}", "	err = maybeDeflate(raw, 1<<62, func(maybeXML []byte) error {\n		response = &types.UnverifiedBaseResponse{}"))
V("C12", "default-constant", "detect", "default limit changed",
  (DR, "	defaultMaxDecompressedResponseSize = 5 * 1024 * 1024", "	defaultMaxDecompressedResponseSize = 50 * 1024 * 1024"))
V("C12", "benign-leq", "silent", "length check written as <= with early decode",
  (DR, "	if int64(len(deflated)) > maxSize {\n		return fmt.Errorf(\"deflated response exceeds maximum size of %d bytes\", maxSize)\n	}\n\n	return decoder(deflated)", "	if int64(len(deflated)) <= maxSize {\n		return decoder(deflated)\n	}\n\n	return fmt.Errorf(\"deflated response exceeds maximum size of %d bytes\", maxSize)"))

# ---------------- C13
V("C13", "sig-at-index-2", "detect", "signature inserted after the second child",
  (BL, "	children = append(children, ret.Child[0])     // issuer is always first\n	children = append(children, sig)              // next is the signature\n	children = append(children, ret.Child[1:]...) // then all other children",
       "	children = append(children, ret.Child[:2]...)\n	children = append(children, sig)\n	children = append(children, ret.Child[2:]...)"),
  needs="IdP that schema-validates LogoutResponse")
V("C13", "benign-inplace-insert", "silent", "signature spliced in with append(prefix, append(lit, rest...)...) for the AuthnRequest",
  ("build_request.go", "	var children []etree.Token\n	children = append(children, ret.Child[0])     // issuer is always first\n	children = append(children, sig)              // next is the signature\n	children = append(children, ret.Child[1:]...) // then all other children\n	ret.Child = children\n\n	return ret, nil\n}\n\n// BuildAuthRequest builds",
       "	rest := append([]etree.Token{sig}, ret.Child[1:]...)\n	ret.Child = append(ret.Child[:1], rest...)\n\n	return ret, nil\n}\n\n// BuildAuthRequest builds"))
V("C13", "not-enveloped", "detect", "enveloped flag dropped for LogoutRequest",
  (BR, "func (sp *SAMLServiceProvider) SignLogoutRequest(el *etree.Element) (*etree.Element, error) {\n	ctx := sp.SigningContext()\n\n	sig, err := ctx.ConstructSignature(el, true)", "func (sp *SAMLServiceProvider) SignLogoutRequest(el *etree.Element) (*etree.Element, error) {\n	ctx := sp.SigningContext()\n\n	sig, err := ctx.ConstructSignature(el, false)"))
V("C13", "algorithm-not-applied", "detect", "configured algorithm applied only on the default-context branch",
  (SA, "	sp.signingContext.SetSignatureMethod(sp.SignAuthnRequestsAlgorithm)\n", ""),
  (SA, "		sp.signingContext = dsig.NewDefaultSigningContext(sp.GetSigningKey())\n", "		sp.signingContext = dsig.NewDefaultSigningContext(sp.GetSigningKey())\n		sp.signingContext.SetSignatureMethod(sp.SignAuthnRequestsAlgorithm)\n"),
  needs="keys configured through the setters and a non-default signature algorithm")
V("C13", "signer-precedence", "detect", "encryption setter wins over the signing field again",
  (SA, "	if signing == nil && sp.SPSigningKeyStore == nil {", "	if signing == nil {"))
V("C13", "cert-from-other-store", "detect", "embedded certificate taken from the encryption key store",
  (SA, "		sp.signingContext, err = dsig.NewSigningContext(signing.Signer, [][]byte{signing.Cert})", "		cert := signing.Cert\n		if sp.spKeyStoreOverride != nil {\n			cert = sp.spKeyStoreOverride.Cert\n		}\n		sp.signingContext, err = dsig.NewSigningContext(signing.Signer, [][]byte{cert})"))

# ---------------- C15
V("C15", "drop-utc", "detect", "IssueInstant formatted in the clock's zone with a literal Z",
  (BL, "	logoutResponse.CreateAttr(\"IssueInstant\", sp.Clock.Now().UTC().Format(issueInstantFormat))", "	logoutResponse.CreateAttr(\"IssueInstant\", sp.Clock.Now().Format(issueInstantFormat))"),
  needs="SP clock in a non-UTC zone")
V("C15", "logout-dest-sso", "detect", "LogoutRequest addressed to the SSO URL",
  (BR, "	logoutRequest.CreateAttr(\"Destination\", sp.IdentityProviderSLOURL)", "	logoutRequest.CreateAttr(\"Destination\", sp.IdentityProviderSSOURL)"))
V("C15", "issuer-fallback-inverted", "detect", "issuer fallback inverted in LogoutResponse",
  (BL, "	if sp.ServiceProviderIssuer != \"\" {\n		logoutResponse.CreateElement(\"saml:Issuer\").SetText(sp.ServiceProviderIssuer)\n	} else {\n		logoutResponse.CreateElement(\"saml:Issuer\").SetText(sp.IdentityProviderIssuer)\n	}",
       "	if sp.IdentityProviderIssuer != \"\" {\n		logoutResponse.CreateElement(\"saml:Issuer\").SetText(sp.IdentityProviderIssuer)\n	} else {\n		logoutResponse.CreateElement(\"saml:Issuer\").SetText(sp.ServiceProviderIssuer)\n	}"))
V("C15", "name-from-config", "detect", "attribute name built from configuration",
  (BR, "		nameIdPolicy.CreateAttr(\"Format\", sp.NameIdFormat)", "		nameIdPolicy.CreateAttr(\"Format\"+sp.IdentityProviderSSOBinding, sp.NameIdFormat)"))
V("C15", "policy-before-issuer", "detect", "NameIDPolicy created before the Issuer",
  (BR, "	nameIdPolicy := authnRequest.CreateElement(\"samlp:NameIDPolicy\")\n	nameIdPolicy.CreateAttr(\"AllowCreate\", \"true\")\n	if sp.NameIdFormat != \"\" {\n		nameIdPolicy.CreateAttr(\"Format\", sp.NameIdFormat)\n	}\n", ""),
  (BR, "	// NOTE(russell_h): In earlier versions we mistakenly sent the IdentityProviderIssuer\n	// in the AuthnRequest. For backwards compatibility we will fall back to that\n	// behavior when ServiceProviderIssuer isn't set.\n	if sp.ServiceProviderIssuer != \"\" {\n		authnRequest.CreateElement(\"saml:Issuer\").SetText(sp.ServiceProviderIssuer)",
       "	nameIdPolicy := authnRequest.CreateElement(\"samlp:NameIDPolicy\")\n	nameIdPolicy.CreateAttr(\"AllowCreate\", \"true\")\n	if sp.NameIdFormat != \"\" {\n		nameIdPolicy.CreateAttr(\"Format\", sp.NameIdFormat)\n	}\n	if sp.ServiceProviderIssuer != \"\" {\n		authnRequest.CreateElement(\"saml:Issuer\").SetText(sp.ServiceProviderIssuer)"))
V("C15", "contexts-skip-first", "detect", "first requested context dropped",
  (BR, "		for _, context := range sp.RequestedAuthnContext.Contexts {", "		for _, context := range sp.RequestedAuthnContext.Contexts[1:] {"))
V("C15", "passive-from-forceauthn", "detect", "IsPassive emitted under the ForceAuthn flag",
  (BR, "	if sp.IsPassive {\n		authnRequest.CreateAttr(\"IsPassive\", \"true\")", "	if sp.ForceAuthn {\n		authnRequest.CreateAttr(\"IsPassive\", \"true\")"))

# ---------------- C16
V("C16", "typed-html-field", "detect", "relay state passed as template.HTML",
  (BL, "			URL          string\n			SAMLResponse string\n			RelayState   string\n		}{", "			URL          string\n			SAMLResponse string\n			RelayState   template.HTMLAttr\n		}{"),
  (BL, "			RelayState:   relayState,", "			RelayState:   template.HTMLAttr(relayState),"))
V("C16", "concat-relaystate", "detect", "relay state concatenated into the template text",
  (BL, "			`<input type=\"hidden\" name=\"RelayState\" value=\"{{.RelayState}}\" />` +\n			`<input id=\"SAMLSubmitButton\" type=\"submit\" value=\"Continue\" />`", "			`<input type=\"hidden\" name=\"RelayState\" value=\"` + relayState + `\" />` +\n			`<input id=\"SAMLSubmitButton\" type=\"submit\" value=\"Continue\" />`"))
V("C16", "misspelled-field", "detect", "template references a field the data lacks (run-time error on the relay-state path)",
  (BL, "			`<input type=\"hidden\" name=\"RelayState\" value=\"{{.RelayState}}\" />` +\n			`<input id=\"SAMLSubmitButton\" type=\"submit\" value=\"Continue\" />`", "			`<input type=\"hidden\" name=\"RelayState\" value=\"{{.Relaystate}}\" />` +\n			`<input id=\"SAMLSubmitButton\" type=\"submit\" value=\"Continue\" />`"))
V("C16", "logout-response-to-sso", "detect", "logout response posted to the SSO URL",
  (BL, "			URL:          sp.IdentityProviderSLOURL,\n			SAMLResponse: encodedRespBuf,\n			RelayState:   relayState,", "			URL:          sp.IdentityProviderSSOURL,\n			SAMLResponse: encodedRespBuf,\n			RelayState:   relayState,"))
V("C16", "unquoted-action", "detect", "action attribute loses its quotes",
  (BL, "		tmpl = template.Must(template.New(\"saml-post-form\").Parse(`<html>` +\n			`<form method=\"post\" action=\"{{.URL}}\" id=\"SAMLResponseForm\">` +\n			`<input type=\"hidden\" name=\"SAMLResponse\" value=\"{{.SAMLResponse}}\" />` +\n			`<input id=\"SAMLSubmitButton\" type=\"submit\" value=\"Continue\" />`",
       "		tmpl = template.Must(template.New(\"saml-post-form\").Parse(`<html>` +\n			`<form method=\"post\" action={{.URL}} id=\"SAMLResponseForm\">` +\n			`<input type=\"hidden\" name=\"SAMLResponse\" value=\"{{.SAMLResponse}}\" />` +\n			`<input id=\"SAMLSubmitButton\" type=\"submit\" value=\"Continue\" />`"))

# ---------------- C18
V("C18", "half-random", "detect", "only the first 8 bytes are random",
  (UU, "	_, err := rand.Read(u[:16])", "	_, err := rand.Read(u[:8])"))
V("C18", "ignore-read-error", "detect", "read error ignored",
  (UU, "	_, err := rand.Read(u[:16])\n	if err != nil {\n		panic(err)\n	}\n", "	rand.Read(u[:16])\n"))
V("C18", "variant-typo", "detect", "variant mask typo",
  (UU, "	u[8] = (u[8] | 0x80) & 0xBf", "	u[8] = (u[8] | 0x80) & 0x8f"))
V("C18", "upper-hex", "detect", "upper-case hex",
  (UU, "\"%x-%x-%x-%x-%x\"", "\"%X-%X-%X-%X-%X\""))
V("C18", "drop-underscore", "detect", "ID may start with a digit",
  (BL, "	logoutResponse.CreateAttr(\"ID\", \"_\"+arId.String())", "	logoutResponse.CreateAttr(\"ID\", arId.String())"))
V("C18", "math-rand", "detect", "math/rand instead of crypto/rand",
  (UU, "	\"crypto/rand\"\n", "	\"math/rand\"\n"))

# ---------------- C19
V("C19", "hours-as-ns", "detect", "hours not multiplied by time.Hour",
  (SA, "Add(time.Duration(validityHours) * time.Hour)", "Add(time.Duration(validityHours))"))
V("C19", "want-assertions-signed-inverted", "detect", "WantAssertionsSigned no longer negated",
  (SA, "func (sp *SAMLServiceProvider) MetadataWithSLO(validityHours int64) (*types.EntityDescriptor, error) {", "func (sp *SAMLServiceProvider) MetadataWithSLO(validityHours int64) (*types.EntityDescriptor, error) {\n	_ = 0"),
  (SA, "			WantAssertionsSigned:       !sp.SkipSignatureValidation,\n			ProtocolSupportEnumeration: SAMLProtocolNamespace,\n			KeyDescriptors: []types.KeyDescriptor{", "			WantAssertionsSigned:       sp.SkipSignatureValidation,\n			ProtocolSupportEnumeration: SAMLProtocolNamespace,\n			KeyDescriptors: []types.KeyDescriptor{"))
V("C19", "slo-location-acs", "detect", "SLO endpoint advertises the ACS URL",
  (SA, "				Location: sp.ServiceProviderSLOURL,", "				Location: sp.AssertionConsumerServiceURL,"))
V("C19", "validity-wallclock", "detect", "validity from time.Now",
  (SA, "		ValidUntil: sp.Clock.Now().UTC().Add(time.Hour * 24 * 7), // 7 days", "		ValidUntil: time.Now().UTC().Add(time.Hour * 24 * 7), // 7 days"))
V("C19", "metadata-signing-gate", "detect", "signing descriptor gated on the deprecated accessor only",
  (SA, "	if sp.GetSigningKey() != nil || sp.spSigningKeyStoreOverride != nil || sp.spKeyStoreOverride != nil {", "	if sp.GetSigningKey() != nil {"))

# ---------------- C20 / C08
V("C20", "predecode-tag-drift", "detect", "pre-decode reads Destination from another attribute",
  (TR, "	Destination  string   `xml:\"Destination,attr\"`\n	Version      string   `xml:\"Version,attr\"`\n	Issuer       *Issuer  `xml:\"Issuer\"`\n}", "	Destination  string   `xml:\"Recipient,attr\"`\n	Version      string   `xml:\"Version,attr\"`\n	Issuer       *Issuer  `xml:\"Issuer\"`\n}"))
V("C20", "predecode-reuses-object", "detect", "pre-decode target allocated once for both attempts",
  (DR, "	var response *types.UnverifiedBaseResponse\n\n	err = maybeDeflate(raw, defaultMaxDecompressedResponseSize, func(maybeXML []byte) error {\n		response = &types.UnverifiedBaseResponse{}\n		return xml.Unmarshal(maybeXML, response)",
       "	response := &types.UnverifiedBaseResponse{}\n\n	err = maybeDeflate(raw, defaultMaxDecompressedResponseSize, func(maybeXML []byte) error {\n		return xml.Unmarshal(maybeXML, response)"),
  needs="compressed message whose raw DEFLATE bytes partially parse")
V("C08", "friendlyname-tag", "detect", "FriendlyName decoded from another attribute",
  (TR, "	FriendlyName string           `xml:\"FriendlyName,attr\"`", "	FriendlyName string           `xml:\"friendlyName,attr\"`"))
V("C08", "getall-skips-first", "detect", "GetAll starts at index 1",
  ("attribute.go", "		for i := 0; i < len(v.Values); i++ {", "		for i := 1; i < len(v.Values); i++ {"))
V("C08", "sessionindex-from-instant", "detect", "SessionIndex not copied",
  (RA, "		assertionInfo.SessionIndex = assertion.AuthnStatement.SessionIndex\n", ""))
V("C08", "values-last-attribute-only", "detect", "attributes keyed by FriendlyName",
  (RA, "			assertionInfo.Values[attribute.Name] = attribute", "			assertionInfo.Values[attribute.FriendlyName] = attribute"))
V("C08", "benign-get-rewrite", "silent", "Get rewritten with an early return",
  ("attribute.go", "	if v, ok := vals[k]; ok && len(v.Values) > 0 {\n		return string(v.Values[0].Value)\n	}\n	return \"\"\n}\n\n//GetSize", "	v, ok := vals[k]\n	if !ok || len(v.Values) == 0 {\n		return \"\"\n	}\n	return string(v.Values[0].Value)\n}\n\n//GetSize"))

# ---------------- C14
V("C14", "sign-raw-relaystate", "detect", "raw relay state signed without escaping",
  (BR, "		buf.WriteString(url.QueryEscape(k) + \"=\" + url.QueryEscape(v))", "		if k == \"RelayState\" {\n			buf.WriteString(k + \"=\" + v)\n			continue\n		}\n		buf.WriteString(url.QueryEscape(k) + \"=\" + url.QueryEscape(v))"),
  needs="relay state containing characters that percent-encode")
V("C14", "order-swapped", "detect", "SigAlg before RelayState in the signing string",
  (BR, "		params = [][2]string{{\"SAMLRequest\", samlRequest}, {\"RelayState\", relayState}, {\"SigAlg\", sigAlg}}", "		params = [][2]string{{\"SAMLRequest\", samlRequest}, {\"SigAlg\", sigAlg}, {\"RelayState\", relayState}}"),
  needs="signed redirect with a relay state")
V("C14", "url-encoding", "detect", "URL-safe base64 for the Signature",
  (BR, "		qs.Add(\"Signature\", base64.StdEncoding.EncodeToString(rawSignature))\n	}\n\n	//Here the parameters may appear in any order.\n	parsedUrl.RawQuery = qs.Encode()\n	return parsedUrl.String(), nil\n}\n\nfunc (sp *SAMLServiceProvider) BuildAuthURLFromDocument",
       "		qs.Add(\"Signature\", base64.URLEncoding.EncodeToString(rawSignature))\n	}\n\n	//Here the parameters may appear in any order.\n	parsedUrl.RawQuery = qs.Encode()\n	return parsedUrl.String(), nil\n}\n\nfunc (sp *SAMLServiceProvider) BuildAuthURLFromDocument"))
V("C14", "close-not-checked", "detect", "DEFLATE writer only flushed, never closed",
  (BR, "	err = fw.Close()\n	if err != nil {\n		return \"\", fmt.Errorf(\"flate.Writer Close error: %v\", err)\n	}\n\n	qs := parsedUrl.Query()\n\n	qs.Add(\"SAMLRequest\", base64.StdEncoding.EncodeToString(buf.Bytes()))\n\n	if relayState != \"\" {\n		qs.Add(\"RelayState\", relayState)\n	}\n\n	if sp.SignAuthnRequests",
       "	err = fw.Flush()\n	if err != nil {\n		return \"\", fmt.Errorf(\"flate.Writer Close error: %v\", err)\n	}\n\n	qs := parsedUrl.Query()\n\n	qs.Add(\"SAMLRequest\", base64.StdEncoding.EncodeToString(buf.Bytes()))\n\n	if relayState != \"\" {\n		qs.Add(\"RelayState\", relayState)\n	}\n\n	if sp.SignAuthnRequests"),
  needs="strict inflater at the IdP")
V("C14", "logout-to-sso", "detect", "logout redirect built on the SSO endpoint",
  (BR, "	parsedUrl, err := url.Parse(sp.IdentityProviderSLOURL)", "	parsedUrl, err := url.Parse(sp.IdentityProviderSSOURL)"))
V("C14", "query-dropped", "detect", "existing IdP query parameters dropped",
  (BR, "	qs := parsedUrl.Query()\n\n	qs.Add(\"SAMLRequest\", base64.StdEncoding.EncodeToString(buf.Bytes()))\n\n	if relayState != \"\" {\n		qs.Add(\"RelayState\", relayState)\n	}\n\n	if sp.SignAuthnRequests",
       "	qs := url.Values{}\n\n	qs.Add(\"SAMLRequest\", base64.StdEncoding.EncodeToString(buf.Bytes()))\n\n	if relayState != \"\" {\n		qs.Add(\"RelayState\", relayState)\n	}\n\n	if sp.SignAuthnRequests"),
  needs="IdP endpoint with its own query parameters")
V("C14", "relaystate-always", "detect", "empty RelayState parameter emitted",
  (BR, "	if relayState != \"\" {\n		qs.Add(\"RelayState\", relayState)\n	}\n\n	if binding == BindingHttpRedirect {", "	qs.Add(\"RelayState\", relayState)\n\n	if binding == BindingHttpRedirect {"))
V("C14", "logout-sign-other-ctx", "detect", "logout SigAlg from a second SigningContext call result mixed with another signer",
  (BR, "		if rawSignature, err = ctx.SignString(ss); err != nil {", "		if rawSignature, err = sp.SigningContext().SignString(ss); err != nil {"))

# ---------------- C17
V("C17", "drop-rlock", "detect", "fast path reads the cached context without the read lock",
  (SA, "	sp.signingContextMu.RLock()\n	signingContext := sp.signingContext\n	sp.signingContextMu.RUnlock()\n", "	signingContext := sp.signingContext\n"))
V("C17", "clock-default-in-operation", "detect", "an operation installs a default clock on the provider",
  (VA, "	warningInfo := &WarningInfo{}\n	now := sp.Clock.Now()", "	warningInfo := &WarningInfo{}\n	if sp.Clock == nil {\n		sp.Clock = dsig.NewRealClock()\n	}\n	now := sp.Clock.Now()"),
  (VA, "	\"github.com/russellhaering/gosaml2/types\"\n)", "	\"github.com/russellhaering/gosaml2/types\"\n	dsig \"github.com/russellhaering/goxmldsig\"\n)"))
V("C17", "last-response-remembered", "detect", "provider remembers the last validated response in a package variable",
  (DR, "const (\n	defaultMaxDecompressedResponseSize = 5 * 1024 * 1024\n)", "const (\n	defaultMaxDecompressedResponseSize = 5 * 1024 * 1024\n)\n\nvar lastResponse *types.Response"),
  (DR, "	err = sp.Validate(decodedResponse)\n	if err != nil {\n		return nil, err\n	}\n\n	return decodedResponse, nil\n}\n\n// DecodeUnverifiedBaseResponse", "	err = sp.Validate(decodedResponse)\n	if err != nil {\n		return nil, err\n	}\n\n	lastResponse = decodedResponse\n	return decodedResponse, nil\n}\n\n// DecodeUnverifiedBaseResponse"))
V("C17", "unlock-forgotten", "detect", "write lock not released on the panic-free path",
  (SA, "	sp.signingContextMu.Lock()\n	defer sp.signingContextMu.Unlock()\n", "	sp.signingContextMu.Lock()\n"))

# ---------------- decoded objects are written by the decoder only (C01-R8 / C04-R6 / C08-R6 / C10-R6)
V("C04", "normalise-destination-after-decode", "detect", "Destination of the signed Response normalised after decoding",
  (DR, "		decodedResponse.SignatureValidated = responseSignatureValidated\n\n		err := sp.Validate(decodedResponse)", "		decodedResponse.SignatureValidated = responseSignatureValidated\n		decodedResponse.Destination = strings.TrimSuffix(decodedResponse.Destination, \"/\")\n\n		err := sp.Validate(decodedResponse)"),
  (DR, "	\"io\"\n", "	\"io\"\n	\"strings\"\n"),
  needs="signed Response whose Destination has a trailing slash the ACS URL lacks")
V("C08", "nameid-trimmed-after-decode", "detect", "NameID of the first assertion trimmed in place after validation",
  (DR, "		decodedResponse.SignatureValidated = responseSignatureValidated\n\n		err := sp.Validate(decodedResponse)\n		if err != nil {\n			return nil, err\n		}\n",
       "		decodedResponse.SignatureValidated = responseSignatureValidated\n\n		err := sp.Validate(decodedResponse)\n		if err != nil {\n			return nil, err\n		}\n		if s := decodedResponse.Assertions[0].Subject; s != nil && s.NameID != nil {\n			s.NameID.Value = strings.TrimSpace(s.NameID.Value)\n		}\n"),
  (DR, "	\"io\"\n", "	\"io\"\n	\"strings\"\n"),
  needs="signed NameID with surrounding whitespace")
V("C10", "logout-nameid-lowercased", "detect", "LogoutRequest NameID lower-cased after decoding",
  (LQ, "	decodedRequest.SignatureValidated = requestSignatureValidated\n", "	decodedRequest.SignatureValidated = requestSignatureValidated\n	if decodedRequest.NameID != nil {\n		decodedRequest.NameID.Value = strings.ToLower(decodedRequest.NameID.Value)\n	}\n"),
  (LQ, "import (\n", "import (\n	\"strings\"\n"),
  needs="signed LogoutRequest with a mixed-case NameID")
V("C01", "benign-reset-make", "silent", "assertion lists reset with make() instead of empty literals",
  (DR, "	decodedResponse.Assertions = []types.Assertion{}\n	decodedResponse.EncryptedAssertions = []types.EncryptedAssertion{}\n", "	decodedResponse.Assertions = make([]types.Assertion, 0, 2)\n	decodedResponse.EncryptedAssertions = make([]types.EncryptedAssertion, 0)\n"))

# ---------------- generalised recognisers must still detect breakage written in the new idioms
HEXIMP = (UU, "import (\n	\"crypto/rand\"\n	\"fmt\"\n)", "import (\n	\"crypto/rand\"\n	\"encoding/hex\"\n)")
V("C18", "hexbuf-groups-swapped", "detect", "String() via hex.Encode into a buffer with the 2nd and 3rd groups swapped",
  HEXIMP,
  (UU, "	return fmt.Sprintf(\"%x-%x-%x-%x-%x\", u[:4], u[4:6], u[6:8], u[8:10], u[10:])",
       "	var dst [36]byte\n	hex.Encode(dst[0:8], u[:4])\n	dst[8] = '-'\n	hex.Encode(dst[9:13], u[6:8])\n	dst[13] = '-'\n	hex.Encode(dst[14:18], u[4:6])\n	dst[18] = '-'\n	hex.Encode(dst[19:23], u[8:10])\n	dst[23] = '-'\n	hex.Encode(dst[24:36], u[10:])\n	return string(dst[:])"))
V("C18", "hexbuf-missing-dash", "detect", "String() via hex.Encode: one separator position never written",
  HEXIMP,
  (UU, "	return fmt.Sprintf(\"%x-%x-%x-%x-%x\", u[:4], u[4:6], u[6:8], u[8:10], u[10:])",
       "	var dst [36]byte\n	hex.Encode(dst[0:8], u[:4])\n	dst[8] = '-'\n	hex.Encode(dst[9:13], u[4:6])\n	dst[13] = '-'\n	hex.Encode(dst[14:18], u[6:8])\n	hex.Encode(dst[19:23], u[8:10])\n	dst[23] = '-'\n	hex.Encode(dst[24:36], u[10:])\n	return string(dst[:])"))
V("C18", "benign-hex-concat", "silent", "String() as a concatenation of hex.EncodeToString groups",
  HEXIMP,
  (UU, "	return fmt.Sprintf(\"%x-%x-%x-%x-%x\", u[:4], u[4:6], u[6:8], u[8:10], u[10:])",
       "	return hex.EncodeToString(u[:4]) + \"-\" + hex.EncodeToString(u[4:6]) + \"-\" + hex.EncodeToString(u[6:8]) + \"-\" + hex.EncodeToString(u[8:10]) + \"-\" + hex.EncodeToString(u[10:])"))
V("C14", "builder-relay-first", "detect", "signing string written straight-line into a strings.Builder with RelayState before SAMLRequest",
  (BR, "	var params [][2]string\n	if relayState == \"\" {\n		params = [][2]string{{\"SAMLRequest\", samlRequest}, {\"SigAlg\", sigAlg}}\n	} else {\n		params = [][2]string{{\"SAMLRequest\", samlRequest}, {\"RelayState\", relayState}, {\"SigAlg\", sigAlg}}\n	}\n\n	var buf bytes.Buffer\n	for _, kv := range params {\n		k, v := kv[0], kv[1]\n		if buf.Len() > 0 {\n			buf.WriteByte('&')\n		}\n		buf.WriteString(url.QueryEscape(k) + \"=\" + url.QueryEscape(v))\n	}\n	return buf.String()",
       "	var sb strings.Builder\n	if relayState != \"\" {\n		sb.WriteString(\"RelayState=\" + url.QueryEscape(relayState) + \"&\")\n	}\n	sb.WriteString(\"SAMLRequest=\" + url.QueryEscape(samlRequest))\n	sb.WriteString(\"&SigAlg=\" + url.QueryEscape(sigAlg))\n	return sb.String()"),
  (BR, "	\"net/url\"\n", "	\"net/url\"\n	\"strings\"\n"),
  needs="signed redirect with a relay state")
V("C14", "builder-unescaped-value", "detect", "straight-line strings.Builder version that forgets to escape the relay state",
  (BR, "	var params [][2]string\n	if relayState == \"\" {\n		params = [][2]string{{\"SAMLRequest\", samlRequest}, {\"SigAlg\", sigAlg}}\n	} else {\n		params = [][2]string{{\"SAMLRequest\", samlRequest}, {\"RelayState\", relayState}, {\"SigAlg\", sigAlg}}\n	}\n\n	var buf bytes.Buffer\n	for _, kv := range params {\n		k, v := kv[0], kv[1]\n		if buf.Len() > 0 {\n			buf.WriteByte('&')\n		}\n		buf.WriteString(url.QueryEscape(k) + \"=\" + url.QueryEscape(v))\n	}\n	return buf.String()",
       "	var sb strings.Builder\n	sb.WriteString(\"SAMLRequest=\" + url.QueryEscape(samlRequest))\n	if relayState != \"\" {\n		sb.WriteString(\"&RelayState=\" + relayState)\n	}\n	sb.WriteString(\"&SigAlg=\" + url.QueryEscape(sigAlg))\n	return sb.String()"),
  (BR, "	\"net/url\"\n", "	\"net/url\"\n	\"strings\"\n"),
  needs="relay state containing a reserved character")
V("C06", "collected-values-lowercased", "detect", "audiences collected into a list with ToLower, membership tested on the list",
  (VA, "		matched := false\n\n		for _, audience := range audienceRestriction.Audiences {\n			if audience.Value == sp.AudienceURI {\n				matched = true\n				break\n			}\n		}\n\n		if !matched {",
       "		values := []string{}\n		for _, audience := range audienceRestriction.Audiences {\n			values = append(values, strings.ToLower(audience.Value))\n		}\n		matched := false\n		for _, v := range values {\n			if v == sp.AudienceURI {\n				matched = true\n				break\n			}\n		}\n\n		if !matched {"),
  (VA, "import (\n	\"fmt\"\n", "import (\n	\"fmt\"\n	\"strings\"\n"),
  needs="audience differing only in case")
V("C06", "collected-values-skip-first", "detect", "audiences collected from index 1 on, membership tested on the list",
  (VA, "		matched := false\n\n		for _, audience := range audienceRestriction.Audiences {\n			if audience.Value == sp.AudienceURI {\n				matched = true\n				break\n			}\n		}\n\n		if !matched {",
       "		values := []string{}\n		for i := 1; i < len(audienceRestriction.Audiences); i++ {\n			values = append(values, audienceRestriction.Audiences[i].Value)\n		}\n		matched := false\n		for _, v := range values {\n			if v == sp.AudienceURI {\n				matched = true\n				break\n			}\n		}\n\n		if !matched {"),
  needs="matching audience in first position")

V("C06", "set-lowercased", "detect", "audiences collected into a set under ToLower keys",
  (VA, "		matched := false\n\n		for _, audience := range audienceRestriction.Audiences {\n			if audience.Value == sp.AudienceURI {\n				matched = true\n				break\n			}\n		}\n\n		if !matched {",
       "		allowed := make(map[string]struct{}, len(audienceRestriction.Audiences))\n		for _, audience := range audienceRestriction.Audiences {\n			allowed[strings.ToLower(audience.Value)] = struct{}{}\n		}\n\n		if _, matched := allowed[sp.AudienceURI]; !matched {"),
  (VA, "import (\n	\"fmt\"\n", "import (\n	\"fmt\"\n	\"strings\"\n"),
  needs="audience differing only in case")
V("C06", "containsfunc-equalfold", "detect", "slices.ContainsFunc with a case-insensitive predicate",
  (VA, "		matched := false\n\n		for _, audience := range audienceRestriction.Audiences {\n			if audience.Value == sp.AudienceURI {\n				matched = true\n				break\n			}\n		}\n\n		if !matched {",
       "		matched := slices.ContainsFunc(audienceRestriction.Audiences, func(a types.Audience) bool { return strings.EqualFold(a.Value, sp.AudienceURI) })\n\n		if !matched {"),
  (VA, "import (\n	\"fmt\"\n", "import (\n	\"fmt\"\n	\"slices\"\n	\"strings\"\n"),
  needs="audience differing only in case")
V("C11", "digest-table-sha256-wrong", "detect", "OAEP digest lookup table maps the SHA-256 identifier to sha1.New",
  (EK, "			switch ek.EncryptionMethod.DigestMethod.Algorithm {\n			case \"\", MethodSHA1:\n				h = sha1.New() // default\n			case MethodSHA256:\n				h = sha256.New()\n			case MethodSHA512:\n				h = sha512.New()\n			default:\n				return nil, fmt.Errorf(\"unsupported digest algorithm: %v\",\n					ek.EncryptionMethod.DigestMethod.Algorithm)\n			}",
       "			newHash, ok := oaepDigests[ek.EncryptionMethod.DigestMethod.Algorithm]\n			if !ok {\n				return nil, fmt.Errorf(\"unsupported digest algorithm: %v\",\n					ek.EncryptionMethod.DigestMethod.Algorithm)\n			}\n			h = newHash()"),
  (EK, "//SHA-1 is commonly used for certificate fingerprints", "var oaepDigests = map[string]func() hash.Hash{\n	\"\":           sha1.New,\n	MethodSHA1:   sha1.New,\n	MethodSHA256: sha1.New,\n	MethodSHA512: sha512.New,\n}\n\nvar _ = sha256.New\n\n//SHA-1 is commonly used for certificate fingerprints"),
  needs="RSA-OAEP key transport with the SHA-256 digest")
