#!/usr/bin/env python3
"""tools/mkround.py <round-suffix> [ids...] — prepare one seeding round: for every property a scratch worktree of /repo
HEAD under /tmp/seed/<id>-<suffix>/wt and a prompt.txt holding ONLY the property text (title, statement, quantifier)
plus one-sentence summaries of earlier kept seeds for variety. Nothing from /verif's checks goes to the agent."""
import json, os, subprocess, sys, glob
suffix = sys.argv[1]
props = {}
for line in open('/verif/properties.jsonl'):
    p = json.loads(line); props[p['id']] = p
ids = sys.argv[2:] or sorted(props)
tmpl = open('/verif/tools/agents/SEED.tmpl').read()
for pid in ids:
    p = props[pid]
    base = f'/tmp/seed/{pid}-{suffix}'
    os.makedirs(base + '/out', exist_ok=True)
    if not os.path.isdir(base + '/wt'):
        subprocess.check_call(['git', '-C', '/repo', 'worktree', 'add', '-q', '--detach', base + '/wt', 'HEAD'])
    text = f"{pid} — {p.get('title','')}\n\n{p.get('statement') or p.get('description','')}\n"
    q = p.get('quantifier') or p.get('quantified_over')
    if isinstance(q, dict): q = q.get('text')
    if q: text += f"\nQuantified over: {q}\n"
    prompt = tmpl.replace('@WT@', base + '/wt').replace('@OUT@', base + '/out').replace('@PROP@', text).replace('@ID@', pid)
    earlier = []
    for d in sorted(glob.glob(f'/verif/seeded/{pid}-*/meta.json')):
        earlier.append(json.load(open(d))['summary'])
    if earlier:
        prompt += ("\n\nIMPORTANT — variety: earlier rounds already produced the following change(s) for this property; do something DIFFERENT in kind "
                   "(a different clause of the property, a different file or function, a different mechanism — e.g. if the earlier one removed a check, "
                   "yours could mis-route data, reuse state, change an ordering, alter a boundary, confuse two similar fields, or introduce an interaction between two sites):\n")
        for s in earlier: prompt += f"  - {s}\n"
    extra = f'/verif/tools/agents/SEED_EXTRA_{suffix}.txt'
    if os.path.exists(extra):
        prompt += open(extra).read()
    open(base + '/prompt.txt', 'w').write(prompt)
    print(base)
