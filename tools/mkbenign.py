#!/usr/bin/env python3
"""tools/mkbenign.py <suffix> [ids...] — prepare a benign-refactoring round: per property a scratch worktree of /repo HEAD
under /tmp/seed/<id>-<suffix>/wt and a prompt.txt with ONLY the property text and the one-line descriptions of
refactorings already collected for that property (for variety). Nothing about /verif's checks goes to the agent."""
import json, os, subprocess, sys, glob, re
suffix = sys.argv[1]
props = {}
for line in open('/verif/properties.jsonl'):
    p = json.loads(line); props[p['id']] = p
ids = sys.argv[2:] or sorted(props)
tmpl = open('/verif/tools/agents/BENIGN.tmpl').read()
for pid in ids:
    p = props[pid]
    base = f'/tmp/seed/{pid}-{suffix}'
    os.makedirs(base + '/out', exist_ok=True)
    if not os.path.isdir(base + '/wt'):
        subprocess.check_call(['git', '-C', '/repo', 'worktree', 'add', '-q', '--detach', base + '/wt', 'HEAD'])
    q = p.get('quantifier'); q = q.get('text') if isinstance(q, dict) else q
    text = f"{pid} — {p.get('title','')}\n\n{p.get('statement','')}\n" + (f"\nQuantified over: {q}\n" if q else "")
    prompt = tmpl.replace('@WT@', base + '/wt').replace('@OUT@', base + '/out').replace('@PROP@', text)
    earlier = []
    for f in sorted(glob.glob(f'/verif/benign/{pid}-ben*-*.patch')):
        for line in open(f):
            if line.startswith('# what:'):
                earlier.append(line[7:].strip()[:220]); break
    extra = f'/verif/tools/agents/BENIGN_EXTRA_{suffix}.txt'
    if os.path.exists(extra):
        prompt += open(extra).read()
        for s in earlier: prompt += f"  - {s}\n"
        earlier = []
    if earlier:
        prompt += ("\n\nVARIETY — the following refactorings were already collected for this property; produce five that are DIFFERENT in kind and, "
                   "where you can, larger in scope (e.g. move logic into a new unexported type with methods, replace a closure-based traversal callback by a named method value, "
                   "introduce a small struct to carry several results, convert repeated error construction into a helper returning the same typed error values, "
                   "hoist invariant computations, change a value receiver helper to a pointer receiver or vice versa, use `errors.Is`-free equivalent comparisons, "
                   "split a function into two phases, merge two sibling functions through a shared parameterised helper, replace `if err != nil { return nil, err }; return x, nil` chains by equivalent forms, "
                   "use named results, use `defer` for unlock where a manual unlock existed only if all paths are equivalent):\n")
        for s in earlier: prompt += f"  - {s}\n"
    open(base + '/prompt.txt', 'w').write(prompt)
    print(base)
