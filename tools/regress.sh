#!/bin/bash
# Full development regression: every development variant, every seeded change (own property, must be detected) and
# every benign refactoring (all properties, must stay silent). Prints only mismatches and a summary.
D="$(cd "$(dirname "$0")/.." && pwd)"
T=$(mktemp -d /tmp/verif-regress.XXXXXX)
for d in "$D"/seeded/*/; do n=$(basename "$d"); p=$(python3 -c "import json;print(json.load(open('$d/meta.json'))['property'])"); (printf '# property: %s\n# expect: detect\n' "$p"; cat "$d/patch.diff") > "$T/seeded-$n.patch"; done
"$D/selftest" "$D"/variants/*/*.patch "$T"/seeded-*.patch "$D"/benign/*.patch > "$T/out.txt" 2>&1
grep -vE '^OK ' "$T/out.txt" | cut -c1-260
echo "regress: $(grep -c '^OK ' "$T/out.txt") ok, $(grep -c '^MISMATCH ' "$T/out.txt") mismatch, $(grep -c '^SKIP ' "$T/out.txt") skipped"
rm -rf "$T"
