#!/usr/bin/env python3
"""Regenerate /verif/variants/<prop>/<name>.patch from tools/variants_def.py against /repo HEAD.
Each variant is a list of exact textual edits; a patch is produced with `git diff` in a scratch worktree."""
import os, subprocess, sys, tempfile, shutil, importlib.util
here = os.path.dirname(os.path.abspath(__file__))
spec = importlib.util.spec_from_file_location("vd", os.path.join(here, "variants_def.py"))
vd = importlib.util.module_from_spec(spec); spec.loader.exec_module(vd)
only = set(sys.argv[1:])
tmp = tempfile.mkdtemp(prefix="verif-mkvar.")
wt = os.path.join(tmp, "wt")
subprocess.check_call(["git", "-C", "/repo", "worktree", "add", "-q", "--detach", wt, "HEAD"])
try:
    for v in vd.VARIANTS:
        tag = v["prop"] + "/" + v["name"]
        if only and tag not in only and v["prop"] not in only:
            continue
        ok = True
        for (f, old, new) in v["edits"]:
            p = os.path.join(wt, f)
            s = open(p).read()
            if s.count(old) != 1:
                print("SKIP %s: edit anchor occurs %d times in %s" % (tag, s.count(old), f)); ok = False; break
            open(p, "w").write(s.replace(old, new))
        if ok:
            diff = subprocess.check_output(["git", "-C", wt, "diff"]).decode()
            d = os.path.join(os.path.dirname(here), "variants", v["prop"])
            os.makedirs(d, exist_ok=True)
            hdr = "# property: %s\n# expect: %s\n# needs: %s\n# what: %s\n" % (v["prop"], v["expect"], v.get("needs", "-"), v.get("what", "-"))
            open(os.path.join(d, v["name"] + ".patch"), "w").write(hdr + diff)
            print("wrote", tag)
        subprocess.check_call(["git", "-C", wt, "checkout", "-q", "--", "."])
finally:
    subprocess.call(["git", "-C", "/repo", "worktree", "remove", "--force", wt])
    shutil.rmtree(tmp, ignore_errors=True)
