package saml2

// Demonstrations for findings F3 (C19), F4a (C11/C19), F4b (C13/C19), F4c (C13/C19).
// Copy into the repository root of a scratch copy: `go test -run 'TestF3|TestF4' .`

import (
	"bytes"
	"crypto/rand"
	"crypto/rsa"
	"crypto/x509"
	"testing"
	"time"

	"github.com/jonboulle/clockwork"
	dsig "github.com/russellhaering/goxmldsig"
)

func fKeyStore(t *testing.T, tag byte) *KeyStore {
	k, err := rsa.GenerateKey(rand.Reader, 1024)
	if err != nil {
		t.Fatal(err)
	}
	return &KeyStore{Signer: k, Cert: []byte{0x30, tag, tag, tag}}
}

func TestF3MetadataWithSLOValidity(t *testing.T) {
	at := time.Date(2030, 1, 2, 3, 4, 5, 0, time.UTC)
	sp := &SAMLServiceProvider{Clock: dsig.NewFakeClock(clockwork.NewFakeClockAt(at)), SPKeyStore: dsig.RandomKeyStoreForTest()}
	md, err := sp.MetadataWithSLO(48)
	if err != nil {
		t.Fatal(err)
	}
	if got := md.ValidUntil.Sub(at); got != 48*time.Hour {
		t.Errorf("MetadataWithSLO(48): valid for %v, want 48h", got)
	}
	md, _ = sp.MetadataWithSLO(0)
	if got := md.ValidUntil.Sub(at); got != 7*24*time.Hour {
		t.Errorf("MetadataWithSLO(0): valid for %v, want 168h", got)
	}
}

func TestF4aSetterOnlyCanDecrypt(t *testing.T) {
	sp := &SAMLServiceProvider{}
	ks := fKeyStore(t, 1)
	if err := sp.SetSPKeyStore(ks); err != nil {
		t.Fatal(err)
	}
	pub, err := sp.GetEncryptionCertBytes()
	if err != nil || !bytes.Equal(pub, ks.Cert) {
		t.Fatalf("published encryption cert: %v %v", pub, err)
	}
	crt, err := sp.getDecryptCert()
	if err != nil {
		t.Fatalf("SetSPKeyStore only: metadata publishes the certificate but decryption is impossible: %v", err)
	}
	if !bytes.Equal(crt.Certificate[0], ks.Cert) || crt.PrivateKey != ks.Signer {
		t.Errorf("decryption uses a different key than the published certificate")
	}
}

func TestF4bSignerMatchesReportedCert(t *testing.T) {
	field := dsig.RandomKeyStoreForTest()
	_, fieldCert, _ := field.GetKeyPair()
	sp := &SAMLServiceProvider{SPSigningKeyStore: field}
	enc := fKeyStore(t, 2)
	sp.SetSPKeyStore(enc)
	reported, err := sp.GetSigningCertBytes()
	if err != nil || !bytes.Equal(reported, fieldCert) {
		t.Fatalf("reported signing cert is not the signing field's: %v", err)
	}
	sig, err := sp.SigningContext().SignString("signed octets")
	if err != nil {
		t.Fatal(err)
	}
	crt, err := x509.ParseCertificate(reported)
	if err != nil {
		t.Fatal(err)
	}
	if err := crt.CheckSignature(x509.SHA256WithRSA, []byte("signed octets"), sig); err != nil {
		t.Errorf("SPSigningKeyStore field + SetSPKeyStore: messages are signed with another key than the reported signing certificate: %v", err)
	}
}

func TestF4cMetadataPublishesSetterSigningKey(t *testing.T) {
	at := time.Date(2030, 1, 2, 3, 4, 5, 0, time.UTC)
	sp := &SAMLServiceProvider{Clock: dsig.NewFakeClock(clockwork.NewFakeClockAt(at)), SignAuthnRequests: true}
	sp.SetSPKeyStore(fKeyStore(t, 3))
	md, err := sp.Metadata()
	if err != nil {
		t.Fatal(err)
	}
	found := false
	for _, kd := range md.SPSSODescriptor.KeyDescriptors {
		if kd.Use == "signing" {
			found = true
		}
	}
	if !found {
		t.Errorf("setters only: requests are signed but Metadata() publishes no signing key")
	}
}
