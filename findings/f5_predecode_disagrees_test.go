// Demonstration for known finding F5 (property C20, rule C20-R6): copy into /repo's root package and run
//   go test -count=1 -vet=off -run TestF5PreDecodeDisagrees .
// It FAILS on the pinned tree: the unverified pre-decode and full validation report different InResponseTo values
// (or different outcomes) for three attacker-shaped but accepted LogoutResponses.
package saml2

import (
	"encoding/base64"
	"testing"

	dsig "github.com/russellhaering/goxmldsig"
)

func probeResp(attrs string, decl string) string {
	return decl + `<samlp:LogoutResponse xmlns:samlp="urn:oasis:names:tc:SAML:2.0:protocol" xmlns:saml="urn:oasis:names:tc:SAML:2.0:assertion" xmlns:x="urn:x" ID="_r1" Version="2.0" Destination="https://sp/slo" ` + attrs + `><saml:Issuer>https://idp</saml:Issuer><samlp:Status><samlp:StatusCode Value="urn:oasis:names:tc:SAML:2.0:status:Success"/></samlp:Status></samlp:LogoutResponse>`
}

func TestF5PreDecodeDisagrees(t *testing.T) {
	sp := &SAMLServiceProvider{SkipSignatureValidation: true, IDPCertificateStore: &dsig.MemoryX509CertificateStore{}, ServiceProviderSLOURL: "https://sp/slo", IdentityProviderIssuer: "https://idp"}
	for name, doc := range map[string]string{
		"cr":      probeResp(`InResponseTo="x&#13;"`, ""),
		"dup":     probeResp(`InResponseTo="a" x:InResponseTo="b" InResponseTo="c"`, ""),
		"dup2":    probeResp(`InResponseTo="a" x:InResponseTo="b"`, ""),
		"charset": probeResp(`InResponseTo="a"`, `<?xml version="1.0" encoding="ISO-8859-1"?>`),
	} {
		enc := base64.StdEncoding.EncodeToString([]byte(doc))
		pre, perr := DecodeUnverifiedLogoutResponse(enc)
		full, ferr := sp.ValidateEncodedLogoutResponsePOST(enc)
		pv, fv := "<nil>", "<nil>"
		if pre != nil {
			pv = pre.InResponseTo
		}
		if full != nil {
			fv = full.InResponseTo
		}
		if ferr == nil && (perr != nil || pv != fv) {
			t.Errorf("%s: validation accepts and reports InResponseTo=%q, pre-decode reports %q (err=%v)", name, fv, pv, perr)
		}
	}
}
