package types

// Demonstration for finding F1 (property C09): DecryptBytes panics on ciphertexts anyone can build
// from the SP's public certificate. Copy into types/ of a scratch copy and run
// `go test -run TestF1 ./types` — panics (test fails) before the fix, passes after.

import (
	"crypto/aes"
	"crypto/cipher"
	"crypto/rand"
	"crypto/rsa"
	"crypto/sha1"
	"crypto/tls"
	"encoding/base64"
	"testing"
)

func f1Setup(t *testing.T) (*tls.Certificate, []byte, string) {
	key, err := rsa.GenerateKey(rand.Reader, 2048)
	if err != nil {
		t.Fatal(err)
	}
	sym := make([]byte, 16)
	rand.Read(sym)
	wrapped, err := rsa.EncryptOAEP(sha1.New(), rand.Reader, &key.PublicKey, sym, nil)
	if err != nil {
		t.Fatal(err)
	}
	return &tls.Certificate{Certificate: [][]byte{{1}}, PrivateKey: key}, sym, base64.StdEncoding.EncodeToString(wrapped)
}

func f1Try(t *testing.T, name string, cert *tls.Certificate, wrapped, alg string, body []byte) {
	t.Run(name, func(t *testing.T) {
		defer func() {
			if r := recover(); r != nil {
				t.Errorf("DecryptBytes panicked: %v", r)
			}
		}()
		ea := &EncryptedAssertion{
			EncryptionMethod: EncryptionMethod{Algorithm: alg},
			EncryptedKey:     EncryptedKey{CipherValue: wrapped, EncryptionMethod: EncryptionMethod{Algorithm: MethodRSAOAEP}},
			CipherValue:      base64.StdEncoding.EncodeToString(body),
		}
		out, err := ea.DecryptBytes(cert)
		if err == nil && out == nil {
			t.Logf("nil plaintext without error")
		}
	})
}

func TestF1DecryptBytesTotal(t *testing.T) {
	cert, sym, wrapped := f1Setup(t)
	blk, _ := aes.NewCipher(sym)
	enc := func(pt []byte) []byte { // CBC with zero IV, returns IV||CT
		iv := make([]byte, 16)
		ct := make([]byte, len(pt))
		cipher.NewCBCEncrypter(blk, iv).CryptBlocks(ct, pt)
		return append(iv, ct...)
	}
	f1Try(t, "gcm-3-bytes", cert, wrapped, MethodAES128GCM, []byte{1, 2, 3})
	f1Try(t, "gcm-empty", cert, wrapped, MethodAES128GCM, nil)
	f1Try(t, "cbc-empty", cert, wrapped, MethodAES128CBC, nil)
	f1Try(t, "cbc-iv-only", cert, wrapped, MethodAES128CBC, make([]byte, 16))
	f1Try(t, "cbc-all-zero-plaintext", cert, wrapped, MethodAES128CBC, enc(make([]byte, 16)))
	bad := make([]byte, 16)
	bad[15] = 200
	f1Try(t, "cbc-pad-200", cert, wrapped, MethodAES128CBC, enc(bad))
}
