package saml2

// Demonstration for finding F2 (property C05): with the SP clock exactly at NotOnOrAfter the
// response must be rejected / the time warning raised. Copy into a scratch copy of the repository
// root and run `go test -run TestF2 .` — fails before the fix, passes after.

import (
	"testing"
	"time"

	"github.com/jonboulle/clockwork"
	"github.com/russellhaering/gosaml2/types"
	dsig "github.com/russellhaering/goxmldsig"
)

func TestF2ExpiryAtEquality(t *testing.T) {
	at := time.Date(2030, 1, 2, 3, 4, 5, 0, time.UTC)
	sp := &SAMLServiceProvider{
		AssertionConsumerServiceURL: "https://sp/acs",
		Clock:                       dsig.NewFakeClock(clockwork.NewFakeClockAt(at)),
	}
	noa := at.Format(time.RFC3339)
	resp := &types.Response{
		Version: "2.0",
		Issuer:  &types.Issuer{Value: "idp"},
		Status:  &types.Status{StatusCode: &types.StatusCode{Value: StatusCodeSuccess}},
		Assertions: []types.Assertion{{
			Issuer: &types.Issuer{Value: "idp"},
			Subject: &types.Subject{SubjectConfirmation: &types.SubjectConfirmation{
				Method:                  SubjMethodBearer,
				SubjectConfirmationData: &types.SubjectConfirmationData{Recipient: "https://sp/acs", NotOnOrAfter: noa},
			}},
			Conditions: &types.Conditions{NotBefore: at.Add(-time.Hour).Format(time.RFC3339), NotOnOrAfter: noa},
		}},
	}
	if err := sp.Validate(resp); err == nil {
		t.Errorf("clock == SubjectConfirmationData NotOnOrAfter: response accepted, want expiry rejection")
	}
	wi, err := sp.VerifyAssertionConditions(&resp.Assertions[0])
	if err != nil {
		t.Fatal(err)
	}
	if !wi.InvalidTime {
		t.Errorf("clock == Conditions NotOnOrAfter: InvalidTime not raised")
	}
}
