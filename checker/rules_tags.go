package main

// C08 (faithful reproduction: decode tables, summary wiring, accessors) and C20 (pre-decode agrees with validation).

import (
	"go/token"
	"fmt"
	"go/types"
	"reflect"
	"strings"

	"golang.org/x/tools/go/ssa"
)

type xmlTag struct {
	NS, Local string
	Kind      string // elem | attr | chardata | innerxml | skip
	Omit      bool
}

// parseXMLTag follows encoding/xml's rules for a struct field tag.
func parseXMLTag(fieldName, tag string) xmlTag {
	t := xmlTag{Kind: "elem", Local: fieldName}
	if tag == "-" {
		return xmlTag{Kind: "skip"}
	}
	parts := strings.Split(tag, ",")
	name := parts[0]
	for _, f := range parts[1:] {
		switch f {
		case "attr":
			t.Kind = "attr"
		case "chardata":
			t.Kind = "chardata"
		case "innerxml":
			t.Kind = "innerxml"
		case "omitempty":
			t.Omit = true
		case "any":
			t.Kind = "any"
		case "cdata":
			t.Kind = "chardata"
		case "comment":
			t.Kind = "comment"
		}
	}
	if name != "" {
		if i := strings.LastIndex(name, " "); i >= 0 {
			t.NS, t.Local = name[:i], name[i+1:]
		} else {
			t.Local = name
		}
	}
	if t.Kind == "chardata" || t.Kind == "innerxml" {
		t.Local = ""
	}
	return t
}

func (t xmlTag) String() string {
	s := t.Kind
	if t.Local != "" {
		s += " " + t.Local
	}
	if t.NS != "" {
		s += " {" + t.NS + "}"
	}
	return s
}

const (
	nsP = "urn:oasis:names:tc:SAML:2.0:protocol"
	nsA = "urn:oasis:names:tc:SAML:2.0:assertion"
)

type fieldSpec struct {
	Field, Kind, Local, GoType string
}

type typeSpec struct {
	Type, NS, Local string
	Fields          []fieldSpec
}

// schemaTable: SAML core schema names for the fields property C08 enumerates.
var schemaTable = []typeSpec{
	{"types.Response", nsP, "Response", []fieldSpec{
		{"ID", "attr", "ID", "string"}, {"InResponseTo", "attr", "InResponseTo", "string"}, {"Destination", "attr", "Destination", "string"}, {"Version", "attr", "Version", "string"},
		{"Status", "elem", "Status", "*types.Status"}, {"Issuer", "elem", "Issuer", "*types.Issuer"}, {"Assertions", "elem", "Assertion", "[]types.Assertion"}, {"EncryptedAssertions", "elem", "EncryptedAssertion", "[]types.EncryptedAssertion"}}},
	{"types.Assertion", nsA, "Assertion", []fieldSpec{
		{"Version", "attr", "Version", "string"}, {"ID", "attr", "ID", "string"}, {"IssueInstant", "attr", "IssueInstant", "time.Time"},
		{"Issuer", "elem", "Issuer", "*types.Issuer"}, {"Subject", "elem", "Subject", "*types.Subject"}, {"Conditions", "elem", "Conditions", "*types.Conditions"},
		{"AttributeStatement", "elem", "AttributeStatement", "*types.AttributeStatement"}, {"AuthnStatement", "elem", "AuthnStatement", "*types.AuthnStatement"}}},
	{"types.Issuer", nsA, "Issuer", []fieldSpec{{"Value", "chardata", "", "string"}}},
	{"types.Status", nsP, "Status", []fieldSpec{{"StatusCode", "elem", "StatusCode", "*types.StatusCode"}}},
	{"types.StatusCode", nsP, "StatusCode", []fieldSpec{{"Value", "attr", "Value", "string"}}},
	{"types.Subject", nsA, "Subject", []fieldSpec{{"NameID", "elem", "NameID", "*types.NameID"}, {"SubjectConfirmation", "elem", "SubjectConfirmation", "*types.SubjectConfirmation"}}},
	{"types.NameID", nsA, "NameID", []fieldSpec{{"Value", "chardata", "", "string"}}},
	{"types.SubjectConfirmation", nsA, "SubjectConfirmation", []fieldSpec{{"Method", "attr", "Method", "string"}, {"SubjectConfirmationData", "elem", "SubjectConfirmationData", "*types.SubjectConfirmationData"}}},
	{"types.SubjectConfirmationData", nsA, "SubjectConfirmationData", []fieldSpec{{"NotOnOrAfter", "attr", "NotOnOrAfter", "string"}, {"Recipient", "attr", "Recipient", "string"}, {"InResponseTo", "attr", "InResponseTo", "string"}}},
	{"types.Conditions", nsA, "Conditions", []fieldSpec{{"NotBefore", "attr", "NotBefore", "string"}, {"NotOnOrAfter", "attr", "NotOnOrAfter", "string"},
		{"AudienceRestrictions", "elem", "AudienceRestriction", "[]types.AudienceRestriction"}, {"OneTimeUse", "elem", "OneTimeUse", "*types.OneTimeUse"}, {"ProxyRestriction", "elem", "ProxyRestriction", "*types.ProxyRestriction"}}},
	{"types.AudienceRestriction", nsA, "AudienceRestriction", []fieldSpec{{"Audiences", "elem", "Audience", "[]types.Audience"}}},
	{"types.Audience", nsA, "Audience", []fieldSpec{{"Value", "chardata", "", "string"}}},
	{"types.OneTimeUse", nsA, "OneTimeUse", nil},
	{"types.ProxyRestriction", nsA, "ProxyRestriction", []fieldSpec{{"Count", "attr", "Count", "int"}, {"Audience", "elem", "Audience", "[]types.Audience"}}},
	{"types.AttributeStatement", nsA, "AttributeStatement", []fieldSpec{{"Attributes", "elem", "Attribute", "[]types.Attribute"}}},
	{"types.Attribute", nsA, "Attribute", []fieldSpec{{"FriendlyName", "attr", "FriendlyName", "string"}, {"Name", "attr", "Name", "string"}, {"NameFormat", "attr", "NameFormat", "string"}, {"Values", "elem", "AttributeValue", "[]types.AttributeValue"}}},
	{"types.AttributeValue", nsA, "AttributeValue", []fieldSpec{{"Value", "chardata", "", "string"}}},
	{"types.AuthnStatement", nsA, "AuthnStatement", []fieldSpec{{"SessionIndex", "attr", "SessionIndex", "string"}, {"AuthnInstant", "attr", "AuthnInstant", "*time.Time"}, {"SessionNotOnOrAfter", "attr", "SessionNotOnOrAfter", "*time.Time"}}},
	{"types.LogoutResponse", nsP, "LogoutResponse", []fieldSpec{
		{"ID", "attr", "ID", "string"}, {"InResponseTo", "attr", "InResponseTo", "string"}, {"Destination", "attr", "Destination", "string"}, {"Version", "attr", "Version", "string"},
		{"Status", "elem", "Status", "*types.Status"}, {"Issuer", "elem", "Issuer", "*types.Issuer"}}},
	{"LogoutRequest", nsP, "LogoutRequest", []fieldSpec{
		{"ID", "attr", "ID", "string"}, {"Version", "attr", "Version", "string"}, {"Destination", "attr", "Destination", "string"},
		{"Issuer", "elem", "Issuer", "*types.Issuer"}, {"NameID", "elem", "NameID", "*types.NameID"}}},
}

func structOf(c *Ctx, name string) (*types.Named, *types.Struct) {
	nt := c.P.Named(name)
	if nt == nil {
		return nil, nil
	}
	st, _ := nt.Underlying().(*types.Struct)
	return nt, st
}

func fieldTag(st *types.Struct, name string) (xmlTag, *types.Var, bool) {
	for i := 0; i < st.NumFields(); i++ {
		if st.Field(i).Name() == name {
			return parseXMLTag(name, reflect.StructTag(st.Tag(i)).Get("xml")), st.Field(i), true
		}
	}
	return xmlTag{}, nil, false
}

// encSchemaTable: xmlenc names the decrypting code relies on (C07-R7). Field tags carry no namespace: the elements are
// matched by local name whatever prefix / default-namespace style the sender uses.
var encSchemaTable = []typeSpec{
	{"types.EncryptedAssertion", nsA, "EncryptedAssertion", []fieldSpec{
		{"EncryptionMethod", "elem", "EncryptedData>EncryptionMethod", "types.EncryptionMethod"},
		{"EncryptedKey", "elem", "EncryptedData>KeyInfo>EncryptedKey", "types.EncryptedKey"},
		{"DetEncryptedKey", "elem", "EncryptedKey", "types.EncryptedKey"},
		{"CipherValue", "elem", "EncryptedData>CipherData>CipherValue", "string"}}},
	{"types.EncryptedKey", "", "", []fieldSpec{
		{"EncryptionMethod", "elem", "EncryptionMethod", "types.EncryptionMethod"},
		{"X509Data", "elem", "KeyInfo>X509Data>X509Certificate", "string"},
		{"CipherValue", "elem", "CipherData>CipherValue", "string"}}},
	{"types.EncryptionMethod", "", "", []fieldSpec{{"Algorithm", "attr", "Algorithm", "string"}, {"DigestMethod", "elem", "DigestMethod", "*types.DigestMethod"}}},
	{"types.DigestMethod", "", "", []fieldSpec{{"Algorithm", "attr", "Algorithm", "string"}}},
}

func checkSchemaTable(c *Ctx, rule string, table []typeSpec) {
	checkSchemaTableF(c, rule, table, false, 76)
}

func checkSchemaTableF(c *Ctx, rule string, table []typeSpec, strictNS bool, floor int) {
	n := 0
	for _, ts := range table {
		nt, st := structOf(c, ts.Type)
		if st == nil {
			c.bad(rule, ts.Type, "type resolves", "-", "UNRESOLVED-ANCHOR struct "+ts.Type)
			continue
		}
		pos := c.P.Pos(nt.Obj().Pos())
		xn, _, ok := fieldTag(st, "XMLName")
		if ts.Local != "" || ok {
			n++
			c.check((ok && xn.NS == ts.NS && xn.Local == ts.Local) || (!ok && ts.Local == ""), rule, ts.Type, "XMLName", pos, "{"+ts.NS+"}"+ts.Local, fmt.Sprintf("element name of %s is %s, want {%s}%s", ts.Type, xn, ts.NS, ts.Local))
		}
		for _, fs := range ts.Fields {
			tg, fv, ok := fieldTag(st, fs.Field)
			n++
			if !ok {
				c.bad(rule, ts.Type, "field "+fs.Field, pos, "field "+fs.Field+" (schema name "+fs.Local+") no longer exists")
				continue
			}
			good := tg.Kind == fs.Kind && tg.Local == fs.Local && (tg.NS == "" || tg.NS == ts.NS || fs.Kind == "elem")
			if strictNS && tg.NS != "" {
				good = false
			}
			gt := typeStr(fv.Type())
			gt = strings.ReplaceAll(gt, "saml2.", "")
			c.check(good && gt == fs.GoType, rule, ts.Type, "field "+fs.Field, c.P.Pos(fv.Pos()), fs.Kind+" "+fs.Local+" : "+fs.GoType,
				fmt.Sprintf("%s.%s decodes as [%s : %s], want [%s %s : %s]", ts.Type, fs.Field, tg, gt, fs.Kind, fs.Local, fs.GoType))
		}
	}
	c.count(rule+"/tags", n)
	c.floor(rule+"/tags", floor)
}

func ruleC08(c *Ctx) {
	c.rule("C08-R10", "the parsed message reaches signature verification as parsed: no tree-changing operation outside the frozen table in the inbound cone (shared treeHygiene) — a canonicaliser run over the live Response for a log line strips what inclusive / with-comments signatures cover")
	treeHygiene(c, "C08-R10", c09Roots[:6])
	c.rule("C08-R1", "schema table: for every field the property enumerates, the parsed xml tag (kind, local name, namespace of the element type's XMLName) and Go type equal the SAML core schema entry")
	c.rule("C08-R2", "summary wiring in RetrieveAssertionInfo: NameID, Values[attribute.Name] = attribute for all attributes in order, SessionIndex / AuthnInstant / SessionNotOnOrAfter from the AuthnStatement, Assertions = the whole validated list")
	c.rule("C08-R3", "accessor idioms: Get = first value or \"\", GetSize = len or 0, GetAll = all values in index order; nil map and absent key give empty results")
	c.rule("C08-R8", "parser and serialiser run with etree's default settings: no library function touches Document.ReadSettings / WriteSettings (the contracts for parse, copy, canonicalise and re-serialise — text recovered across CDATA, comments, character references — are those of the defaults); positive control must fire")
	parserDefaults(c, "C08-R8")
	c.rule("C08-R9", "compressed and raw presentation are treated alike up to the limit: maybeDeflate's bounded-read / explicit-check / same-decoder rules (shared with C12-R2..R4) — a limit that is off by one refuses the compressed form of a message whose raw form is accepted")
	nDefl := shareFrom(c, "C08-R9", ruleC12, func(o *Obligation) bool {
		return o.Rule == "C12-R2" || o.Rule == "C12-R3" || o.Rule == "C12-R4"
	})
	c.count("C08-R9", nDefl)
	c.floor("C08-R9", 8)
	c.rule("C08-R4", "decode targets are fresh and decoded from the verified element (shared with C01-R1/R2): the assertion list returned is exactly what was decoded from signed bytes")
	checkSchemaTable(c, "C08-R1", schemaTable)
	decodedImmutable(c, "C08-R6")
	singleVerification(c, "C08-R7")

	// R2
	ri := c.kernel("(*SAMLServiceProvider).RetrieveAssertionInfo", retrieveInline...)
	if ri != nil {
		fname := shortFn(ri.Root)
		resp := "(*SAMLServiceProvider).ValidateEncodedResponse(SP, $encodedResponse)#0"
		a0 := resp + ".Assertions[0]"
		n := 0
		for _, t := range ri.Terms {
			if !t.accepting(ri.Root) {
				continue
			}
			n++
			pos := c.P.InstrPos(t.Instr)
			ai := t.Vals[0]
			want := map[string]string{"NameID": a0 + ".Subject.NameID.Value", "Assertions": resp + ".Assertions"}
			atoms := t.atoms()
			// every accepting path looks at the AuthnStatement: a summary returned without deciding whether there is one
			// silently drops SessionIndex / AuthnInstant / SessionNotOnOrAfter for some inputs
			hasAS, noAS := atoms["!("+a0+".AuthnStatement == nil)"], atoms[a0+".AuthnStatement == nil"]
			if !hasAS && !noAS {
				c.bad("C08-R2", fname, "AuthnStatement considered on every accepting path", pos, "an accepting path returns the summary without testing whether the first assertion has an AuthnStatement: its session fields are dropped on this path")
			}
			if hasAS {
				want["SessionIndex"] = a0 + ".AuthnStatement.SessionIndex"
				for _, f := range []string{"AuthnInstant", "SessionNotOnOrAfter"} {
					src := a0 + ".AuthnStatement." + f
					switch {
					case atoms["!("+src+" == nil)"]:
						want[f] = src
					case atoms[src+" == nil"]:
						// absent in the signed statement: nothing to copy
					default:
						want[f] = src // copied without a nil test
					}
				}
			}
			for f, w := range want {
				v, ok := t.finalField(ai, f)
				c.check(ok && ap(v) == w, "C08-R2", fname, "AssertionInfo."+f, pos, w, fmt.Sprintf("AssertionInfo.%s <- %s, want %s", f, ap(v), w))
			}
			// attributes
			coll := a0 + ".AttributeStatement.Attributes"
			als := loopShapeOf(atoms, coll)
			through := als.Gen
			if atoms["!("+a0+".AttributeStatement == nil)"] {
				if through {
					var ups []string
					valsMap, _ := t.finalField(ai, "Values")
					for _, e := range t.St.events {
						// updates of the map that ends up as AssertionInfo.Values (other maps are somebody's local business)
						if e.Kind == EvMapUpdate && e.Val != nil && valsMap != nil && e.X != nil && e.X.Key() == valsMap.Key() {
							ups = append(ups, ap(e.I)+" => "+ap(e.Val))
						}
					}
					exhausted := als.Exhausted
					wantUp := coll + "[*].Name => " + coll + "[*]"
					c.check(len(ups) == 1 && ups[0] == wantUp && exhausted && loopStartsAtZero(t, coll), "C08-R2", fname, "Values[attribute.Name] = attribute for every attribute", pos, wantUp,
						fmt.Sprintf("attribute map filled by %v (exhausted=%v), want one update %s per attribute over the whole list", ups, exhausted, wantUp))
				} else if !als.Zero {
					c.bad("C08-R2", fname, "Values filled from all attributes", pos, "path with an AttributeStatement does not iterate its Attributes")
				}
			}
			vv, ok := t.finalField(ai, "Values")
			c.check(ok && strings.HasPrefix(ap(vv), "new<makemap>"), "C08-R2", fname, "Values is a fresh map", pos, "make(Values)", "Values is "+ap(vv))
		}
		c.count("C08-R2/accepting", n)
		c.floor("C08-R2/accepting", 4)
	}

	// R3 accessors
	accessors(c, "C08-R3")
	c.rule("C08-R5", "a genuine response is judged against the CURRENT configuration: the validation context is built per call from sp.IDPCertificateStore and sp.Clock (shared with C02-R1) — a cached context rejects responses signed with a newly configured certificate")
	ctxWiring(c, "C08-R5")

	// R4 shared provenance / freshness
	res := c.kernel(ssoSpec.Entry, inboundInline...)
	if res != nil {
		fname := shortFn(res.Root)
		n := 0
		for _, t := range res.Terms {
			if !t.accepting(res.Root) {
				continue
			}
			skip, known := skipFact(t)
			if !known || skip {
				continue
			}
			label := labelReturn(c, t)
			obj := t.Vals[0]
			var hdr decode
			for _, d := range decodes(t) {
				if d.Obj.Key() == obj.Key() {
					hdr = d
				}
			}
			apps, _, _ := assertionListStores(t, obj, 0)
			for _, e := range apps {
				n++
				checkAppendFor(c, "C08-R4", t, fname, label, obj, e, hdr)
			}
			if hdr.Prov == "verified(raw)" {
				n++
				c.ok("C08-R4", fname, "signed root decoded whole from the verified element ["+label+"]", c.P.InstrPos(t.Instr), hdr.Prov)
			}
		}
		c.count("C08-R4", n)
		c.floor("C08-R4", 2)
	}
}

func checkAppendFor(c *Ctx, rule string, t *Terminal, fname, label string, obj Val, ae *Event, hdr decode) {
	// reuse C01's append analysis under this property's rule id
	sub := NewCtx(c.P, c.Prop, c.Tier)
	checkAppend(sub, t, fname, label, obj, ae, hdr)
	for _, o := range sub.Obs {
		c.ob(rule, o.Fn, strings.TrimPrefix(o.Key, o.Rule+" | "+o.Fn+" | "), o.Pos, o.Status, o.Detail, true)
	}
}

func accessors(c *Ctx, rule string) {
	// Go semantics: indexing a nil map or an absent key yields the zero Attribute, whose Values has length 0 — so the
	// cases "nil map", "absent key" and "present without values" are all instances of len(vals[k].Values) == 0.
	const L = "len($vals[$k].Values)"
	lenPos := func(a map[string]bool) bool { return a["0 < "+L] || a["!("+L+" < 1)"] || a["!("+L+" == 0)"] }
	lenZero := func(a map[string]bool) bool {
		if a["len($vals) == 0"] || a["!(0 < len($vals))"] || a["len($vals) < 1"] {
			return true // an empty map has no entry for k
		}
		return a["$vals == nil"] || a["!(maphas($vals, $k))"] || a["!(0 < "+L+")"] || a[L+" < 1"] || a[L+" == 0"]
	}
	get := c.kernel("(Values).Get", "*")
	if get != nil {
		fname := shortFn(get.Root)
		for _, t := range get.Terms {
			a := t.atoms()
			pos := c.P.InstrPos(t.Instr)
			v := ap(t.Vals[0])
			switch {
			case a["$vals == nil"]:
				c.check(v == `""`, rule, fname, "nil map => \"\"", pos, v, "nil map returns "+v)
			case a["!(maphas($vals, $k))"]:
				c.check(v == `""`, rule, fname, "absent key => \"\"", pos, v, "absent key returns "+v)
			case lenPos(a):
				c.check(v == "$vals[$k].Values[0].Value", rule, fname, "present => first value", pos, v, "present key returns "+v+", want the first value")
			case lenZero(a):
				c.check(v == `""`, rule, fname, "present without values => \"\"", pos, v, "attribute without values returns "+v)
			default:
				c.undecided(rule, fname, "Get path shape", pos, "unrecognised path: "+strings.Join(t.atomList(), " ∧ "))
			}
		}
	}
	gs := c.kernel("(Values).GetSize", "*")
	if gs != nil {
		fname := shortFn(gs.Root)
		for _, t := range gs.Terms {
			a := t.atoms()
			pos := c.P.InstrPos(t.Instr)
			v := ap(t.Vals[0])
			switch {
			case lenZero(a):
				c.check(v == "0" || v == L, rule, fname, "nil map / absent key / no values => 0", pos, v, "returns "+v)
			default:
				c.check(v == L, rule, fname, "present => value count", pos, v, "present key returns "+v+", want len(values)")
			}
		}
	}
	ga := c.kernel("(Values).GetAll", "*")
	if ga != nil {
		fname := shortFn(ga.Root)
		nLoop := 0
		for _, t := range ga.Terms {
			a := t.atoms()
			pos := c.P.InstrPos(t.Instr)
			v := t.Vals[0]
			coll := "$vals[$k].Values"
			switch {
			case a["$vals == nil"], a["!(maphas($vals, $k))"]:
				c.check(isNilConst(v) || isEmptySliceVal(v), rule, fname, "nil map / absent key => empty", pos, ap(v), "returns "+ap(v))
			case hasLoopBack(t):
				nLoop++
				good, _, _ := accumulated(t, a, v, coll, coll+"[*].Value")
				if _, isApp := v.(*AppendV); isApp {
					good = good && loopStartsAtZero(t, coll)
				}
				c.check(good, rule, fname, "present => all values in index order", pos, ap(v), "GetAll does not accumulate every value in order: "+ap(v))
			default:
				c.check(isNilConst(v) || isEmptySliceVal(v), rule, fname, "present without values => empty", pos, ap(v), "returns "+ap(v))
			}
		}
		c.count(rule+"/getall-loop-paths", nLoop)
		c.floor(rule+"/getall-loop-paths", 1)
	}
}

// ---------------------------------------------------------------- C20

func ruleC20(c *Ctx) {
	c.rule("C20-R9", "full validation decodes the root as the IdP sent it: no tree-changing operation outside the frozen table in the inbound cone (shared treeHygiene) — sorting the live root's attributes changes which duplicate encoding/xml keeps")
	treeHygiene(c, "C20-R9", c09Roots[:6])
	c.rule("C20-R1", "sibling tags: every field of UnverifiedBaseResponse has a same-named field in Response with identical parsed xml tag and Go type; the two XMLName tags are equal")
	c.rule("C20-R2", "the logout pre-decoder fills the same named type (types.LogoutResponse) that full validation fills")
	c.rule("C20-R6", "same normal form: the pre-decoders feed encoding/xml the etree re-serialisation of the parsed message, like every validated decode, not the raw octets (necessary for agreement on character references, repeated attributes and encoding declarations; it does not by itself establish agreement on attribute order under canonicalisation)")
	c.rule("C20-R3", "both pre-decoders: base64.StdEncoding -> maybeDeflate(raw, 5 MiB, decoder) -> xml.Unmarshal(bytes given to the decoder) into an object allocated inside that attempt; the object returned is the one of the successful attempt")
	_, ub := structOf(c, "types.UnverifiedBaseResponse")
	_, rs := structOf(c, "types.Response")
	if ub == nil || rs == nil {
		c.bad("C20-R1", "types", "types resolve", "-", "UNRESOLVED-ANCHOR UnverifiedBaseResponse / Response")
	} else {
		n := 0
		for i := 0; i < ub.NumFields(); i++ {
			f := ub.Field(i)
			n++
			ut := parseXMLTag(f.Name(), reflect.StructTag(ub.Tag(i)).Get("xml"))
			rt, rf, ok := fieldTag(rs, f.Name())
			if !ok {
				c.bad("C20-R1", "types.UnverifiedBaseResponse", "field "+f.Name(), c.P.Pos(f.Pos()), "pre-decode field "+f.Name()+" has no counterpart in types.Response")
				continue
			}
			c.check(ut == rt && types.Identical(f.Type(), rf.Type()), "C20-R1", "types.UnverifiedBaseResponse", "field "+f.Name(), c.P.Pos(f.Pos()), ut.String(),
				fmt.Sprintf("pre-decode reads %s as [%s : %s] but validation reads it as [%s : %s]", f.Name(), ut, typeStr(f.Type()), rt, typeStr(rf.Type())))
		}
		c.count("C20-R1/fields", n)
		c.floor("C20-R1/fields", 6)
	}
	// R4: the compared fields of the result are exactly what was decoded — nobody assigns them afterwards
	c.rule("C20-R4", "header fields (ID, InResponseTo, Destination, Version, Issuer) of Response / LogoutResponse / UnverifiedBaseResponse, and the fields of the types.Issuer object they point to, are written by the XML decoder only: no store to them anywhere in library scope (positive control must fire)")
	hdr := map[string]bool{"ID": true, "InResponseTo": true, "Destination": true, "Version": true, "Issuer": true}
	scanHdr := func(fns []*ssa.Function, report bool) int {
		n := 0
		for _, f := range fns {
			for _, b := range f.Blocks {
				for _, in := range b.Instrs {
					st, ok := in.(*ssa.Store)
					if !ok {
						continue
					}
					fa, ok := st.Addr.(*ssa.FieldAddr)
					if !ok {
						continue
					}
					owner, _ := derefStruct(fa.X.Type())
					if owner == nil {
						continue
					}
					on := typeStr(owner)
					fn := owner.Underlying().(*types.Struct).Field(fa.Field).Name()
					if on == "types.Issuer" {
						// the Issuer object hanging off a decoded header: every field counts, except while a fresh
						// composite literal is being filled (assigning that literal to a header is caught above)
						if a, isAlloc := fa.X.(*ssa.Alloc); isAlloc && a.Comment == "complit" {
							continue
						}
					} else {
						if on != "types.Response" && on != "types.LogoutResponse" && on != "types.UnverifiedBaseResponse" {
							continue
						}
						if !hdr[fn] {
							continue
						}
					}
					if constructionOnly(st) {
						continue // a fresh value built field by field and never handed to a decoder
					}
					n++
					if report {
						c.bad("C20-R4", shortFn(f), "store "+on+"."+fn, c.P.InstrPos(st), "library code assigns "+on+"."+fn+" after decoding: full validation can return a value the pre-decode never saw")
					}
				}
			}
		}
		return n
	}
	if scanHdr(c.P.LibFns, true) == 0 {
		c.ok("C20-R4", "library", "no store to decoded header fields", "-", fmt.Sprintf("%d library functions scanned", len(c.P.LibFns)))
	}
	fired := scanHdr(controlFns(c, "hdrwrite"), false)
	c.Controls["C20-R4 hdrwrite"] = fired > 0
	if fired == 0 {
		c.bad("C20-R4", "controls/hdrwrite", "positive control", "-", "matcher did not flag the control that rewrites Response.Issuer")
	}

	// R5: the validated header is decoded from the parsed root before anything is added to it
	c.rule("C20-R5", "on the unsigned-Response path the header (ID, Destination, Issuer, ...) is decoded from the parsed root before decryptAssertions adds decrypted plaintext to that tree (shared with C01-R1)")
	if sso0 := c.kernel(ssoSpec.Entry, inboundInline...); sso0 != nil {
		n := 0
		for _, t := range sso0.Terms {
			if !t.accepting(sso0.Root) || !strings.Contains(labelReturn(c, t), "unsigned-root") {
				continue
			}
			for _, d := range decodes(t) {
				if d.Obj.Key() == t.Vals[0].Key() {
					n++
					headerBeforeMutation(c, "C20-R5", t, shortFn(sso0.Root), labelReturn(c, t), d)
				}
			}
		}
		c.count("C20-R5", n)
		c.floor("C20-R5", 1)
	}

	c.rule("C20-R7", "the validated side is a complete decode: on every accepting path of ValidateEncodedResponse / ValidateEncodedLogoutResponsePOST the returned object is the target of exactly one xml.Unmarshal whose error is nil on that path (otherwise the validated header is a partial decode the pre-decoder cannot agree with)")
	decodedComplete(c, "C20-R7", ssoSpec, loRespSpec)

	c.rule("C20-R8", "rejection parity: a pre-decoder fails only for reasons full validation shares — the base64 decoder's error, the inflate reader's error, the decompressed-size limit (a path fact len(inflated) > limit) or the XML decoder's error, possibly wrapped; any other rejection (an extra size / shape / content pre-check) refuses messages that validation accepts")
	for _, fn := range []string{"DecodeUnverifiedBaseResponse", "DecodeUnverifiedLogoutResponse"} {
		r := c.kernel(fn, "*")
		if r == nil {
			continue
		}
		fname := shortFn(r.Root)
		n := 0
		ei := errIdx(r.Root)
		for _, t := range r.Terms {
			if t.Kind != "return" || ei < 0 || t.accepting(r.Root) {
				continue
			}
			n++
			ev := t.Vals[ei]
			why, ok := sharedRejection(t, ev, 0)
			what := "rejection is one that full validation shares [" + why + "]"
			if ok {
				c.ok("C20-R8", fname, what, c.P.InstrPos(t.Instr), why)
			} else {
				o := c.bad("C20-R8", fname, "rejection is one that full validation shares", c.P.InstrPos(t.Instr), "the pre-decoder fails with "+ap(ev)+" ("+why+"): full validation has no such rejection, so a message it accepts gets no pre-decode")
				o.Path = t.pathDesc(c.P)
			}
		}
		c.count("C20-R8/"+fn, n)
		c.floor("C20-R8/"+fn, 3)
	}

	// R2 + R3
	type pd struct{ fn, typ string }
	for _, p := range []pd{{"DecodeUnverifiedBaseResponse", "*types.UnverifiedBaseResponse"}, {"DecodeUnverifiedLogoutResponse", "*types.LogoutResponse"}} {
		r := c.kernel(p.fn, "*")
		if r == nil {
			continue
		}
		fname := shortFn(r.Root)
		n := 0
		for _, t := range r.Terms {
			if !t.accepting(r.Root) {
				continue
			}
			n++
			pos := c.P.InstrPos(t.Instr)
			ds := decodes(t)
			if len(ds) == 0 {
				c.bad("C20-R3", fname, "accepting path decodes", pos, "accepting path without xml.Unmarshal")
				continue
			}
			last := ds[len(ds)-1]
			okNil, k := t.eqFact(last.Ev.Res[0], nilOf(nil))
			c.check(k && okNil, "C20-R3", fname, "last decode succeeded", pos, "err == nil", "returns although the last decode is not known to have succeeded")
			c.check(last.Obj.Key() == t.Vals[0].Key(), "C20-R3", fname, "returned object is the one of the successful attempt", pos, ap(last.Obj), "returns "+ap(t.Vals[0])+" but the successful decode filled "+ap(last.Obj))
			c.check(typeStr(last.Obj.Type()) == p.typ, "C20-R2", fname, "pre-decode target type", pos, p.typ, "decodes into "+typeStr(last.Obj.Type())+", want "+p.typ+" (the type full validation uses)")
			// each decode starts from the zero state: a target allocated since the previous attempt and not written yet,
			// or a target reset to its zero value (x = T{}) since the previous attempt
			for i, d := range ds {
				prev := -1
				if i > 0 {
					prev = ds[i-1].Ev.Seq
				}
				fresh, why := zeroStateAt(t, d.Obj, prev, d.Ev.Seq)
				if fresh {
					// an object allocated before the previous attempt carries that attempt's partial state
					for j := 0; j < i; j++ {
						if ds[j].Obj.Key() == d.Obj.Key() && !resetBetween(t, d.Obj, ds[j].Ev.Seq, d.Ev.Seq) {
							fresh, why = false, "is reused across attempts (a failed first attempt leaves partial state)"
						}
					}
				}
				c.check(fresh, "C20-R3", fname, "fresh object per attempt", c.P.InstrPos(d.Ev.Instr), ap(d.Obj), "decode target "+ap(d.Obj)+" "+why)
			}
			// R6: same normal form as the validated decode. Every validated decode consumes the etree re-serialisation
			// of a parsed (and, when signed, canonicalised) element; a pre-decoder that hands the raw octets to
			// encoding/xml sees what etree normalises away: a character reference &#13; (raw: CR, re-serialised: LF),
			// a repeated attribute (raw: last one wins, etree: one slot per name), an encoding declaration other
			// than UTF-8 (raw: error, etree: accepted).
			c.check(last.El != nil, "C20-R6", fname, "decoder input is the normal form the validators decode", c.P.InstrPos(last.Ev.Instr), "xml.Unmarshal(WriteToBytes(doc{root: parsed element}))",
				"the pre-decoder hands "+ap(last.Data)+" (raw octets) to encoding/xml while full validation decodes the etree re-serialisation of the parsed message: for InResponseTo=\"x&#13;\", for a repeated InResponseTo attribute and for a non-UTF-8 encoding declaration the two report different values / outcomes")
			// inputs: first attempt raw = base64 decode of the argument, second = inflated
			raw := "(*encoding/base64.Encoding).DecodeString(encoding/base64.StdEncoding, $encodedResponse)#0"
			c.check(ap(ds[0].Data) == raw, "C20-R3", fname, "first attempt decodes the base64-decoded input", pos, raw, "first attempt decodes "+ap(ds[0].Data))
			secondAttemptInput(c, "C20-R3", t, fname, ds)
			// limit
			// the bound that is actually in force when this path inflated: the limited reader's N is 5 MiB + 1 (however
			// the helper is told about it)
			for _, e := range t.St.events {
				if e.Kind == EvCall && e.Callee == "io.LimitReader" && len(e.Args) == 2 {
					c.check(ap(e.Args[1]) == fmt.Sprint(defaultMax+1), "C20-R3", fname, "default 5 MiB limit", c.P.InstrPos(e.Instr), ap(e.Args[1]), "pre-decoder inflates with a reader limited to "+ap(e.Args[1])+" bytes, want 5 MiB + 1")
				}
			}
		}
		c.count("C20-R3/accepting "+fname, n)
		c.floor("C20-R3/accepting "+fname, 2)
	}
	// the validated decode of the logout response uses types.LogoutResponse too (C10 checks its provenance)
	lr := c.kernel(loRespSpec.Entry, inboundInline...)
	if lr != nil {
		for _, t := range lr.Terms {
			if t.accepting(lr.Root) {
				c.check(typeStr(t.Vals[0].Type()) == "*types.LogoutResponse", "C20-R2", shortFn(lr.Root), "validated decode target type", c.P.InstrPos(t.Instr), "*types.LogoutResponse", "validation returns "+typeStr(t.Vals[0].Type()))
			}
		}
	}
	// and the SSO pair: Response vs UnverifiedBaseResponse (R1) with ValidateEncodedResponse returning *types.Response
	sso := c.kernel(ssoSpec.Entry, inboundInline...)
	if sso != nil {
		for _, t := range sso.Terms {
			if t.accepting(sso.Root) {
				c.check(typeStr(t.Vals[0].Type()) == "*types.Response", "C20-R2", shortFn(sso.Root), "validated decode target type", c.P.InstrPos(t.Instr), "*types.Response", "validation returns "+typeStr(t.Vals[0].Type()))
			}
		}
	}
}

// singleVerification: acceptance is not narrowed by extra signature checks. On every path of the three inbound validators
// on which the root's own signature verified, that is the only dsig Validate call and no per-assertion traversal runs
// (a second verification of content that the root signature already covers rejects genuine messages, e.g. an assertion
// signed with inclusive c14n inside an exc-c14n Response once it has been re-serialised); on the unsigned-root path the
// only further verifications are the ones inside the assertion traversal handler.
func singleVerification(c *Ctx, rule string) {
	c.rule(rule, "acceptance is not narrowed: once the root signature has verified, no further signature verification or assertion traversal runs on that path (all terminals, accepting or rejecting, of the three inbound validators)")
	n := 0
	for _, spec := range []inboundSpec{ssoSpec, loRespSpec, loReqSpec} {
		res := c.kernel(spec.Entry, inboundInline...)
		if res == nil {
			continue
		}
		fname := shortFn(res.Root)
		for _, t := range res.Terms {
			var vals []*Event
			for _, e := range t.St.events {
				if e.Kind == EvCall && shortName(e.Callee) == dsigValidate {
					vals = append(vals, e)
				}
			}
			if len(vals) == 0 {
				continue
			}
			// did the first (root) verification succeed on this path?
			root := vals[0]
			if len(root.Res) < 2 {
				continue
			}
			isNil, known := t.eqFact(root.Res[1], nilOf(root.Res[1].Type()))
			if !known || !isNil {
				continue
			}
			n++
			extra := len(vals) - 1
			trav := 0
			for _, e := range t.St.events {
				if e.Kind == EvIterEnter && e.Seq > root.Seq {
					trav++
				}
			}
			if extra == 0 && trav == 0 {
				c.ok(rule, fname, "root signature verified => no further verification on the path", c.P.InstrPos(root.Instr), "one dsig Validate, no assertion traversal")
			} else {
				o := c.bad(rule, fname, "root signature verified => no further verification on the path", c.P.InstrPos(vals[len(vals)-1].Instr),
					fmt.Sprintf("after the root signature verified, the path runs %d more signature verification(s) / %d traversal(s): content already covered by the root signature is re-verified after re-serialisation and genuine messages can be rejected", extra, trav))
				o.Path = t.pathDesc(c.P)
			}
		}
	}
	c.count(rule+"/signed-root-paths", n)
	c.floor(rule+"/signed-root-paths", 6)
}

// isZeroVal: the zero value of its type (T{} / nil / "" / 0 / false).
func isZeroVal(v Val) bool {
	switch x := v.(type) {
	case *ConstV:
		if x.C == nil {
			return true
		}
		k := x.Key()
		return k == `""` || k == "0" || k == "false"
	case *StructLitV:
		for _, f := range x.Fields {
			if !isZeroVal(f) {
				return false
			}
		}
		return true
	}
	return false
}

// resetBetween: a whole-object store of the zero value into *obj strictly between two event sequence numbers.
func resetBetween(t *Terminal, obj Val, lo, hi int) bool {
	for _, e := range t.St.events {
		if e.Kind == EvStore && e.Seq > lo && e.Seq < hi && e.Addr.Key() == obj.Key() && isZeroVal(e.Val) {
			return true
		}
	}
	return false
}

// zeroStateAt: is *obj in its zero state at event hi? Either obj is an allocation of this path that nothing has written
// since (lo = the previous decode, -1 for none), or the last write to it before hi is a whole-object zero store.
func zeroStateAt(t *Terminal, obj Val, lo, hi int) (bool, string) {
	root, isAlloc := rootOf(obj).(*AllocV)
	if !isAlloc {
		return false, "is not an object created by this operation"
	}
	zero := true
	why := ""
	base := lvalKey(obj)
	for _, e := range t.St.events {
		if e.Kind != EvStore || e.Seq >= hi || rootOf(e.Addr).Key() != root.Key() {
			continue
		}
		ek := lvalKey(e.Addr)
		switch {
		case e.Addr.Key() == obj.Key():
			zero = isZeroVal(e.Val)
			if !zero {
				why = "is assigned " + ap(e.Val) + " before the decode"
			}
		case strings.HasPrefix(ek, base+".") || strings.HasPrefix(ek, base+"["):
			// a part of the object
			zero = false
			why = "has " + apLval(e.Addr) + " written before the decode"
		case strings.HasPrefix(base, ek+".") || strings.HasPrefix(base, ek+"["):
			// an aggregate containing the object is assigned as a whole
			zero = isZeroVal(e.Val)
			if !zero {
				why = "lies inside " + apLval(e.Addr) + ", which is assigned " + ap(e.Val) + " before the decode"
			}
		}
	}
	return zero, why
}

// parserDefaults: references to etree.Document's ReadSettings / WriteSettings fields in library scope (expected: none).
func parserDefaults(c *Ctx, rule string) {
	scan := func(fns []*ssa.Function, visit func(fn *ssa.Function, in ssa.Instruction, what string)) int {
		n := 0
		for _, fn := range fns {
			for _, b := range fn.Blocks {
				for _, in := range b.Instrs {
					var owner types.Type
					field := -1
					switch x := in.(type) {
					case *ssa.FieldAddr:
						owner, field = x.X.Type(), x.Field
					case *ssa.Field:
						owner, field = x.X.Type(), x.Field
					default:
						continue
					}
					st, ok := derefStruct(owner)
					if !ok {
						continue
					}
					ts := typeStr(st)
					if ts != "etree.Document" {
						continue
					}
					name := st.Underlying().(*types.Struct).Field(field).Name()
					if name == "ReadSettings" || name == "WriteSettings" {
						n++
						visit(fn, in, name)
					}
				}
			}
		}
		return n
	}
	n := scan(c.P.LibFns, func(fn *ssa.Function, in ssa.Instruction, what string) {
		c.bad(rule, shortFn(fn), "etree.Document."+what+" touched", c.P.InstrPos(in), "the library changes etree's "+what+": parsing / serialisation of inbound messages no longer follows the defaults the signature and decode pipeline relies on (e.g. PreserveCData keeps CDATA sections verbatim, so the canonical form and the digest change)")
	})
	if n == 0 {
		c.ok(rule, "library", "etree settings untouched", "-", "no reference to Document.ReadSettings / WriteSettings in library scope")
	}
	fired := scan(controlFns(c, "etreesettings"), func(*ssa.Function, ssa.Instruction, string) {})
	c.Controls[rule+" etreesettings"] = fired > 0
	if fired == 0 {
		c.bad(rule, "controls/etreesettings", "positive control", "-", "matcher did not flag the control that sets ReadSettings")
	}
}

// sharedRejection: the error value is the base64 decoder's, the (limited) inflate read's, the XML decoder's, a fresh
// error on a path that has established len(inflated) > limit, or an fmt.Errorf wrapping one of those.
func sharedRejection(t *Terminal, ev Val, depth int) (string, bool) {
	cv, ok := stripIface(ev).(*CallV)
	if !ok || depth > 2 {
		return "not the result of a decoding step", false
	}
	switch sn := shortName(cv.Callee); {
	case sn == "(*encoding/base64.Encoding).DecodeString" && cv.Idx == 1:
		return "base64 error", true
	case sn == "encoding/xml.Unmarshal":
		return "XML decoder error", true
	case sn == "io.ReadAll" && cv.Idx == 1:
		return "inflate read error", true
	case sn == "fmt.Errorf" || sn == "errors.New":
		// the size limit: the path knows limit < len(what io.ReadAll returned)
		for _, f := range t.St.facts {
			b, isB := f.Cond.(*BinV)
			if !isB || b.Op != token.LSS {
				continue
			}
			over := b.Y
			if !f.Pol {
				over = b.X // !(len < k): len >= k
			}
			for {
				cv2, isConv := over.(*ConvV)
				if !isConv {
					break
				}
				over = cv2.X
			}
			if l, isL := over.(*CallV); isL && l.Callee == "len" && len(l.Args) == 1 {
				if ra, isRA := l.Args[0].(*CallV); isRA && shortName(ra.Callee) == "io.ReadAll" {
					return "decompressed size over the limit", true
				}
			}
		}
		// a wrapped shared error
		if sn == "fmt.Errorf" && len(cv.Args) == 2 {
			if sl, isS := cv.Args[1].(*SliceV); isS {
				if arr, isA := sl.X.(*AllocV); isA {
					for i := 0; i < 8; i++ {
						cl, has := t.St.heap[mkIndexAddr(arr, intV(int64(i)), nil).Key()]
						if !has {
							break
						}
						if w, ok := sharedRejection(t, cl.val, depth+1); ok {
							return "wraps " + w, true
						}
					}
				}
			}
		}
		return "a fresh error outside the size-limit path", false
	}
	return "error of " + shortName(cv.Callee), false
}

// secondAttemptInput: when a path decodes twice (raw attempt failed, inflate, decode again) the second decode consumes
// what the limited inflate produced — not the still-compressed input again.
func secondAttemptInput(c *Ctx, rule string, t *Terminal, fname string, ds []decode) {
	if len(ds) < 2 {
		return
	}
	d := ds[len(ds)-1]
	data := d.Data
	if d.El != nil {
		return // decoded from a parsed element: where that came from is another rule's business
	}
	cv, ok := data.(*CallV)
	good := ok && cv.Callee == "io.ReadAll" && cv.Idx == 0
	c.check(good, rule, fname, "second attempt decodes the inflated bytes", c.P.InstrPos(d.Ev.Instr), "xml.Unmarshal(io.ReadAll(limited inflate))",
		"after inflating, the decoder is run over "+ap(data)+" instead of the inflated bytes: a compressed message is not treated like its uncompressed twin")
}
