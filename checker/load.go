package main

// Loading /repo (type-checked, lowered to SSA) and resolving anchors by identity.

import (
	"fmt"
	"go/ast"
	"go/token"
	"go/types"
	"os"
	"path/filepath"
	"sort"
	"strings"

	"golang.org/x/tools/go/ast/astutil"
	"golang.org/x/tools/go/packages"
	"golang.org/x/tools/go/ssa"
	"golang.org/x/tools/go/ssa/ssautil"
)

const modPath = "github.com/russellhaering/gosaml2"

// controlsDir: virtual directory (overlay only) that holds the positive controls inside the analysed module.
const controlsDir = "zz_verif_controls"

type Prog struct {
	Repo    string
	Config  string // build configuration label
	Fset    *token.FileSet
	All     []*packages.Package
	ByPath  map[string]*packages.Package
	SSA     *ssa.Program
	Lib     []*ssa.Package // library scope: root, types, uuid
	Root    *ssa.Package
	Types   *ssa.Package
	UUID    *ssa.Package
	LibFns  []*ssa.Function // all source functions (incl. closures, methods) of library scope
	Ctl     map[string][]*ssa.Function // positive-control packages by name
	DepVers map[string]string
	fnIndex map[string]*ssa.Function
	callers map[*ssa.Function]map[*ssa.Function]bool
	globalInit map[string]cell
}

type LoadOpts struct {
	Controls string // directory with positive-control packages (overlaid into the module, never written to /repo)
	Repo   string
	Tags   string
	GOOS   string
	GOARCH string
}

func (o LoadOpts) Label() string {
	l := "default"
	if o.Tags != "" || o.GOOS != "" || o.GOARCH != "" {
		l = fmt.Sprintf("tags=%s,GOOS=%s,GOARCH=%s", o.Tags, o.GOOS, o.GOARCH)
	}
	return l
}

func Load(o LoadOpts) (*Prog, error) {
	env := append(os.Environ(),
		"GOFLAGS=-mod=readonly", "GOPROXY=off", "GOSUMDB=off", "GOTOOLCHAIN=local", "GOWORK=off", "CGO_ENABLED=0")
	if o.GOOS != "" {
		env = append(env, "GOOS="+o.GOOS)
	}
	if o.GOARCH != "" {
		env = append(env, "GOARCH="+o.GOARCH)
	}
	cfg := &packages.Config{
		Mode:  packages.LoadAllSyntax | packages.NeedModule,
		Dir:   o.Repo,
		Env:   env,
		Tests: false,
	}
	if o.Tags != "" {
		cfg.BuildFlags = []string{"-tags=" + o.Tags}
	}
	patterns := []string{"./..."}
	if o.Controls != "" {
		cfg.Overlay = map[string][]byte{}
		ents, _ := os.ReadDir(o.Controls)
		for _, e := range ents {
			if !e.IsDir() {
				continue
			}
			files, _ := filepath.Glob(filepath.Join(o.Controls, e.Name(), "*.go"))
			for _, f := range files {
				b, err := os.ReadFile(f)
				if err != nil {
					continue
				}
				cfg.Overlay[filepath.Join(o.Repo, controlsDir, e.Name(), filepath.Base(f))] = b
			}
			if len(files) > 0 {
				patterns = append(patterns, "./"+controlsDir+"/"+e.Name())
			}
		}
	}
	pkgs, err := packages.Load(cfg, patterns...)
	if err != nil {
		return nil, fmt.Errorf("load: %v", err)
	}
	if len(pkgs) == 0 {
		return nil, fmt.Errorf("load: zero packages matched ./... in %s", o.Repo)
	}
	nerr := 0
	var firstErr string
	packages.Visit(pkgs, nil, func(p *packages.Package) {
		for _, e := range p.Errors {
			nerr++
			if firstErr == "" {
				firstErr = e.Error()
			}
		}
	})
	if nerr > 0 {
		return nil, fmt.Errorf("load: %d package errors, first: %s", nerr, firstErr)
	}
	p := &Prog{Repo: o.Repo, Config: o.Label(), ByPath: map[string]*packages.Package{}, DepVers: map[string]string{}, fnIndex: map[string]*ssa.Function{}}
	p.All = pkgs
	p.Fset = pkgs[0].Fset
	packages.Visit(pkgs, nil, func(pk *packages.Package) {
		p.ByPath[pk.PkgPath] = pk
		if pk.Module != nil && pk.Module.Path != modPath {
			v := pk.Module.Version
			if pk.Module.Replace != nil {
				v += " => REPLACED " + pk.Module.Replace.Path + " " + pk.Module.Replace.Version
			}
			p.DepVers[pk.Module.Path] = v
		}
	})
	for m, v := range p.DepVers {
		if strings.Contains(v, "REPLACED") {
			return nil, fmt.Errorf("dependency %s is redirected by a replace directive (%s): the contract table would describe different code", m, v)
		}
	}
	prog, _ := ssautil.AllPackages(pkgs, ssa.InstantiateGenerics)
	p.SSA = prog
	for _, suffix := range []string{"", "/types", "/uuid"} {
		pk := p.ByPath[modPath+suffix]
		if pk == nil {
			return nil, fmt.Errorf("UNRESOLVED-ANCHOR: library package %s%s not found", modPath, suffix)
		}
		sp := prog.Package(pk.Types)
		if sp == nil {
			return nil, fmt.Errorf("no SSA package for %s", pk.PkgPath)
		}
		p.Lib = append(p.Lib, sp)
	}
	p.Root, p.Types, p.UUID = p.Lib[0], p.Lib[1], p.Lib[2]
	// Build SSA bodies for every package of the module (library + example + test support);
	// dependencies are built lazily on demand (thorough tier contract audit).
	packages.Visit(pkgs, nil, func(pk *packages.Package) {
		if pk.Module != nil && pk.Module.Path == modPath {
			if sp := prog.Package(pk.Types); sp != nil {
				sp.Build()
			}
		}
	})
	for _, sp := range p.Lib {
		fns := pkgFunctions(sp)
		if len(fns) == 0 {
			return nil, fmt.Errorf("library package %s has zero functions", sp.Pkg.Path())
		}
		p.LibFns = append(p.LibFns, fns...)
	}
	p.LibFns = p.withInstances(p.LibFns)
	for _, f := range p.LibFns {
		p.fnIndex[f.String()] = f
	}
	p.discoverRoles()
	p.Ctl = map[string][]*ssa.Function{}
	for path, pk := range p.ByPath {
		if strings.HasPrefix(path, modPath+"/"+controlsDir+"/") {
			if sp := prog.Package(pk.Types); sp != nil {
				p.Ctl[strings.TrimPrefix(path, modPath+"/"+controlsDir+"/")] = pkgFunctions(sp)
			}
		}
	}
	return p, nil
}

// pkgFunctions lists all source-level functions of a package including methods and anonymous functions.
func pkgFunctions(sp *ssa.Package) []*ssa.Function {
	seen := map[*ssa.Function]bool{}
	var out []*ssa.Function
	var add func(f *ssa.Function)
	add = func(f *ssa.Function) {
		if f == nil || seen[f] || f.Synthetic != "" && f.Syntax() == nil {
			return
		}
		seen[f] = true
		if f.Blocks != nil {
			out = append(out, f)
		}
		for _, a := range f.AnonFuncs {
			add(a)
		}
	}
	for _, m := range sp.Members {
		switch m := m.(type) {
		case *ssa.Function:
			if m.Name() == "init" && m.Synthetic != "" {
				// package initializer: keep (global stores live here)
				seen[m] = true
				out = append(out, m)
				continue
			}
			add(m)
		case *ssa.Type:
			for _, t := range []types.Type{m.Type(), types.NewPointer(m.Type())} {
				ms := sp.Prog.MethodSets.MethodSet(t)
				for i := 0; i < ms.Len(); i++ {
					f := sp.Prog.MethodValue(ms.At(i))
					if f != nil && f.Pkg == sp && f.Synthetic == "" {
						add(f)
					}
				}
			}
		}
	}
	sort.Slice(out, func(i, j int) bool { return out[i].String() < out[j].String() })
	return out
}

// Fn resolves a library function by its ssa String() form, e.g.
// "(*github.com/russellhaering/gosaml2.SAMLServiceProvider).Validate". Short forms
// "(*SAMLServiceProvider).Validate", "types.(*EncryptedAssertion).DecryptBytes", "uuid.NewV4",
// "parseResponse" are accepted.
func (p *Prog) Fn(name string) *ssa.Function {
	if f := p.fnIndex[name]; f != nil {
		return f
	}
	pkg := p.Root
	rest := name
	if strings.HasPrefix(name, "types.") {
		pkg, rest = p.Types, name[len("types."):]
	} else if strings.HasPrefix(name, "uuid.") {
		pkg, rest = p.UUID, name[len("uuid."):]
	}
	if strings.HasPrefix(rest, "(") {
		// (*T).M or (T).M
		end := strings.Index(rest, ")")
		recv := rest[1:end]
		meth := rest[end+2:]
		ptr := strings.HasPrefix(recv, "*")
		recv = strings.TrimPrefix(recv, "*")
		obj := pkg.Pkg.Scope().Lookup(recv)
		if obj == nil {
			return nil
		}
		var t types.Type = obj.Type()
		if ptr {
			t = types.NewPointer(t)
		}
		sel := p.SSA.MethodSets.MethodSet(t).Lookup(pkg.Pkg, meth)
		if sel == nil {
			return nil
		}
		return p.SSA.MethodValue(sel)
	}
	if f := pkg.Func(rest); f != nil {
		return f
	}
	// an unexported method that was turned into a package-level function taking the receiver as a parameter, or the
	// reverse: same unexported name, the other form (unique within the package)
	if strings.HasPrefix(rest, "(") {
		end := strings.Index(rest, ")")
		meth := rest[end+2:]
		if !token.IsExported(meth) {
			if f := pkg.Func(meth); f != nil {
				return f
			}
		}
	} else if !token.IsExported(rest) {
		var found *ssa.Function
		n := 0
		for _, m := range pkg.Members {
			tp, ok := m.(*ssa.Type)
			if !ok {
				continue
			}
			for _, ty := range []types.Type{tp.Type(), types.NewPointer(tp.Type())} {
				if sel := p.SSA.MethodSets.MethodSet(ty).Lookup(pkg.Pkg, rest); sel != nil {
					if f := p.SSA.MethodValue(sel); f != nil && f != found {
						found = f
						n++
					}
				}
			}
		}
		if n == 1 {
			return found
		}
	}
	return nil
}

func (p *Prog) MustFn(name string, unresolved *[]string) *ssa.Function {
	f := p.Fn(name)
	if f == nil || f.Blocks == nil {
		*unresolved = append(*unresolved, name)
		return nil
	}
	return f
}

// StructType resolves a named struct of the library ("SAMLServiceProvider", "types.Response").
func (p *Prog) Named(name string) *types.Named {
	pkg := p.Root
	if strings.HasPrefix(name, "types.") {
		pkg, name = p.Types, name[len("types."):]
	} else if strings.HasPrefix(name, "uuid.") {
		pkg, name = p.UUID, name[len("uuid."):]
	}
	obj := pkg.Pkg.Scope().Lookup(name)
	if obj == nil {
		return nil
	}
	n, _ := obj.Type().(*types.Named)
	return n
}

func (p *Prog) Pos(pos token.Pos) string {
	if !pos.IsValid() {
		return "-"
	}
	ps := p.Fset.Position(pos)
	rel, err := filepath.Rel(p.Repo, ps.Filename)
	if err != nil || strings.HasPrefix(rel, "..") {
		rel = ps.Filename
	}
	return fmt.Sprintf("%s:%d", rel, ps.Line)
}

func (p *Prog) InstrPos(in ssa.Instruction) string {
	if in == nil {
		return "-"
	}
	pos := in.Pos()
	if !pos.IsValid() {
		// fall back to the nearest positioned instruction in the block, then the function
		if b := in.Block(); b != nil {
			for _, o := range b.Instrs {
				if o.Pos().IsValid() {
					pos = o.Pos()
					break
				}
			}
		}
		if !pos.IsValid() && in.Parent() != nil {
			pos = in.Parent().Pos()
		}
	}
	return p.Pos(pos)
}

// inLibrary reports whether fn belongs to the library scope.
func (p *Prog) inLibrary(fn *ssa.Function) bool {
	if fn == nil {
		return false
	}
	pk := fn.Pkg
	if pk == nil && fn.Parent() != nil {
		return p.inLibrary(fn.Parent())
	}
	for _, l := range p.Lib {
		if pk == l {
			return true
		}
	}
	return false
}

func (p *Prog) inModule(fn *ssa.Function) bool {
	if fn == nil {
		return false
	}
	for fn.Parent() != nil {
		fn = fn.Parent()
	}
	if fn.Pkg == nil {
		if fn.Object() != nil && fn.Object().Pkg() != nil {
			return strings.HasPrefix(fn.Object().Pkg().Path(), modPath)
		}
		return false
	}
	return strings.HasPrefix(fn.Pkg.Pkg.Path(), modPath)
}

// shortFn renders a function name without the module path.
func shortFn(fn *ssa.Function) string {
	if fn == nil {
		return "?"
	}
	s := canonical(fn.String())
	s = strings.ReplaceAll(s, modPath+"/", "")
	s = strings.ReplaceAll(s, modPath+".", "")
	return s
}

func shortName(s string) string {
	s = canonical(s)
	s = strings.ReplaceAll(s, modPath+"/", "")
	s = strings.ReplaceAll(s, modPath+".", "")
	s = strings.ReplaceAll(s, "github.com/russellhaering/goxmldsig", "dsig")
	s = strings.ReplaceAll(s, "github.com/beevik/etree", "etree")
	s = strings.ReplaceAll(s, "github.com/mattermost/xml-roundtrip-validator", "rtvalidator")
	return s
}

// LibSyntax returns the syntax files of library packages.
func (p *Prog) LibSyntax() []*ast.File {
	var out []*ast.File
	for _, suffix := range []string{"", "/types", "/uuid"} {
		out = append(out, p.ByPath[modPath+suffix].Syntax...)
	}
	return out
}

// exprAt renders the source expression whose operator token sits at pos (index / slice / selector / deref /
// call / binary), used to give obligations short, position-independent descriptors.
func (p *Prog) exprAt(pos token.Pos) string {
	if !pos.IsValid() {
		return ""
	}
	for _, pk := range p.All {
		if pk.Module == nil || pk.Module.Path != modPath {
			continue
		}
		for _, f := range pk.Syntax {
			if f.Pos() <= pos && pos <= f.End() {
				path, _ := astutil.PathEnclosingInterval(f, pos, pos)
				for _, n := range path {
					switch e := n.(type) {
					case *ast.IndexExpr:
						if e.Lbrack == pos {
							return types.ExprString(e)
						}
					case *ast.SliceExpr:
						if e.Lbrack == pos {
							return types.ExprString(e)
						}
					case *ast.SelectorExpr:
						if e.Sel.Pos() == pos {
							return types.ExprString(e)
						}
					case *ast.StarExpr:
						if e.Star == pos {
							return types.ExprString(e)
						}
					case *ast.CallExpr:
						if e.Lparen == pos {
							return types.ExprString(e)
						}
					case *ast.BinaryExpr:
						if e.OpPos == pos {
							return types.ExprString(e)
						}
					case *ast.TypeAssertExpr:
						if e.Lparen == pos {
							return types.ExprString(e)
						}
					case *ast.RangeStmt:
						if e.For == pos || e.TokPos == pos {
							return "range " + types.ExprString(e.X)
						}
					}
				}
				return ""
			}
		}
	}
	return ""
}

// DepFn resolves a function of a dependency package (thorough-tier contract audit), building its SSA on demand.
// name: "Func" or "(*T).Method".
func (p *Prog) DepFn(pkgPath, name string) *ssa.Function {
	pk := p.ByPath[pkgPath]
	if pk == nil {
		return nil
	}
	sp := p.SSA.Package(pk.Types)
	if sp == nil {
		return nil
	}
	sp.Build()
	if strings.HasPrefix(name, "(") {
		end := strings.Index(name, ")")
		recv := name[1:end]
		meth := name[end+2:]
		ptr := strings.HasPrefix(recv, "*")
		recv = strings.TrimPrefix(recv, "*")
		obj := sp.Pkg.Scope().Lookup(recv)
		if obj == nil {
			return nil
		}
		var t types.Type = obj.Type()
		if ptr {
			t = types.NewPointer(t)
		}
		sel := p.SSA.MethodSets.MethodSet(t).Lookup(sp.Pkg, meth)
		if sel == nil {
			return nil
		}
		return p.SSA.MethodValue(sel)
	}
	return sp.Func(name)
}

// ---------------------------------------------------------------- roles of unexported helpers

// The rules name a handful of unexported helpers. A maintainer may rename them or turn a method into a function; the
// rules are about the role, not the name. Each role has a structural description; when the canonical name no longer
// resolves, the unique library function fitting the description takes the role and is reported under the canonical
// name everywhere (keys, messages, name comparisons). No or several candidates: the anchor stays unresolved.
type roleDesc struct {
	Canon   string                    // full name the rules use
	Results string                    // result tuple, types.TypeString with package paths
	Pred    func(f *ssa.Function) bool // further requirement (nil = none)
	// ResultsOK replaces the exact Results match (result shape up to packaging, e.g. a small result struct)
	ResultsOK func(f *ssa.Function) bool
	// Strict: the canonical name only counts while the function of that name still plays the role (satisfies Pred);
	// a thin wrapper kept under the old name does not
	Strict bool
}

// yieldsDocAndRoot: the results carry an *etree.Document and an *etree.Element — as separate results or as fields of one
// result struct — plus an error.
func yieldsDocAndRoot(rs *types.Tuple) bool {
	doc, el, er := false, false, false
	see := func(t types.Type) {
		switch types.TypeString(t, nil) {
		case "*github.com/beevik/etree.Document":
			doc = true
		case "*github.com/beevik/etree.Element":
			el = true
		case "error":
			er = true
		}
	}
	for i := 0; i < rs.Len(); i++ {
		t := rs.At(i).Type()
		see(t)
		if st, ok := t.Underlying().(*types.Struct); ok {
			for j := 0; j < st.NumFields(); j++ {
				see(st.Field(j).Type())
			}
		}
	}
	return doc && el && er
}

var fnAlias = map[string]string{} // actual full name -> canonical full name (reset per load)

func canonical(s string) string {
	if len(fnAlias) == 0 {
		return s
	}
	for actual, canon := range fnAlias {
		if s == actual {
			return canon
		}
		if strings.HasPrefix(s, actual+"$") {
			return canon + s[len(actual):]
		}
		if strings.Contains(s, actual) {
			// names embedded in call renderings
			s = strings.ReplaceAll(s, actual+"(", canon+"(")
		}
	}
	return s
}

func callsDirectly(f *ssa.Function, callee string, depth int) bool {
	if f == nil || depth > 3 {
		return false
	}
	for _, b := range f.Blocks {
		for _, in := range b.Instrs {
			if ci, ok := in.(ssa.CallInstruction); ok {
				if n, sc := calleeName(ci.Common()); n == callee || (sc != nil && sc.String() == callee) {
					return true
				}
			}
			if mc, ok := in.(*ssa.MakeClosure); ok {
				if callsDirectly(mc.Fn.(*ssa.Function), callee, depth+1) {
					return true
				}
			}
		}
	}
	for _, a := range f.AnonFuncs {
		if callsDirectly(a, callee, depth+1) {
			return true
		}
	}
	return false
}

func (p *Prog) discoverRoles() {
	fnAlias = map[string]string{}
	roles := []roleDesc{
		{Canon: "(*" + modPath + ".SAMLServiceProvider).getDecryptCert", Results: "(*crypto/tls.Certificate, error)"},
		{Canon: modPath + ".parseResponse", ResultsOK: func(f *ssa.Function) bool { return yieldsDocAndRoot(f.Signature.Results()) },
			Pred: func(f *ssa.Function) bool { return callsDirectly(f, "(*github.com/beevik/etree.Document).ReadFromBytes", 0) }, Strict: true},
		{Canon: modPath + ".maybeDeflate", Results: "(error)", Pred: func(f *ssa.Function) bool { return callsDirectly(f, "compress/flate.NewReader", 0) }},
		{Canon: "(*" + modPath + ".SAMLServiceProvider).decryptAssertions", Results: "(error)", Pred: func(f *ssa.Function) bool {
			return callsDirectly(f, "(*"+modPath+"/types.EncryptedAssertion).DecryptBytes", 0) && callsDirectly(f, "github.com/russellhaering/goxmldsig/etreeutils.NSFindIterate", 0)
		}},
	}
	for _, r := range roles {
		if f := p.fnIndex[r.Canon]; f != nil {
			if !r.Strict || r.Pred == nil || r.Pred(f) {
				continue
			}
		}
		var cands []*ssa.Function
		for _, f := range p.LibFns {
			if f.Parent() != nil || f.Object() == nil || f.Object().Exported() || f.Synthetic != "" {
				continue
			}
			if r.ResultsOK != nil {
				if !r.ResultsOK(f) {
					continue
				}
			} else if types.TypeString(f.Signature.Results(), nil) != r.Results {
				continue
			}
			if r.Pred != nil && !r.Pred(f) {
				continue
			}
			cands = append(cands, f)
		}
		if len(cands) == 1 {
			fnAlias[cands[0].String()] = r.Canon
			p.fnIndex[r.Canon] = cands[0]
			short := strings.ReplaceAll(strings.ReplaceAll(r.Canon, modPath+"/", ""), modPath+".", "")
			p.fnIndex[short] = cands[0]
		}
	}
}

// withInstances replaces generic functions (whose bodies mention type parameters and cannot be analysed concretely) by
// the instantiations that the given functions — transitively — call or take the value of. go/ssa is built with
// InstantiateGenerics, so every instance has its own concrete body.
func (p *Prog) withInstances(fns []*ssa.Function) []*ssa.Function {
	seen := map[*ssa.Function]bool{}
	var out []*ssa.Function
	var work []*ssa.Function
	isGenericOrigin := func(f *ssa.Function) bool {
		return f.TypeParams().Len() > 0 && len(f.TypeArgs()) == 0
	}
	for _, f := range fns {
		if isGenericOrigin(f) || (f.Parent() != nil && isGenericOrigin(topFn(f))) {
			continue
		}
		seen[f] = true
		out = append(out, f)
		work = append(work, f)
	}
	var addInst func(f *ssa.Function)
	addInst = func(f *ssa.Function) {
		if f == nil || seen[f] || f.Blocks == nil || f.Origin() == nil || !p.inModule(f) {
			return
		}
		seen[f] = true
		out = append(out, f)
		work = append(work, f)
		for _, a := range f.AnonFuncs {
			if !seen[a] && a.Blocks != nil {
				seen[a] = true
				out = append(out, a)
				work = append(work, a)
			}
		}
	}
	for len(work) > 0 {
		f := work[0]
		work = work[1:]
		for _, b := range f.Blocks {
			for _, in := range b.Instrs {
				for _, op := range in.Operands(nil) {
					if op == nil || *op == nil {
						continue
					}
					switch v := (*op).(type) {
					case *ssa.Function:
						addInst(v)
					case *ssa.MakeClosure:
						addInst(v.Fn.(*ssa.Function))
					}
				}
			}
		}
	}
	return out
}
