package main

// Engine D: outgoing messages. C13 (signature structure), C14 (redirect URLs), C15 (documents),
// C16 (POST forms), C18 (identifiers).

import (
	"fmt"
	"go/token"
	"go/types"
	"regexp"
	"strings"
	"text/template/parse"

	"golang.org/x/tools/go/ssa"
)

// ---------------------------------------------------------------- document model from the event trace

type attrM struct {
	Name, Val Val
	Ev        *Event
}

type elemM struct {
	Key      string
	Tag      Val // qualified tag as given to CreateElement, or nil for a literal root
	Space    Val
	Local    Val
	Attrs    []attrM
	Text     Val
	Children []*elemM
	InLoop   bool
	Ev       *Event
}

func (e *elemM) tagString() string {
	if e.Tag != nil {
		if s, ok := constString(e.Tag); ok {
			return s
		}
		return "<non-constant:" + ap(e.Tag) + ">"
	}
	sp, _ := constString(e.Space)
	lc, ok := constString(e.Local)
	if !ok {
		return "<non-constant>"
	}
	if sp != "" {
		return sp + ":" + lc
	}
	return lc
}

// docModel reconstructs the element tree a path builds through the etree API, rooted at the etree.Element literal.
func docModel(t *Terminal) (*elemM, []string) {
	var root *elemM
	byKey := map[string]*elemM{}
	ownedStorage := map[string]bool{}
	var problems []string
	// elements made detached with etree.NewElement("prefix:local") — attached later by AddChild, or the root
	detached := map[string]*elemM{}
	for _, e := range t.St.events {
		if e.Kind == EvCall && shortName(e.Callee) == "etree.NewElement" && len(e.Args) == 1 && len(e.Res) == 1 {
			m := &elemM{Key: e.Res[0].Key(), Tag: e.Args[0], Ev: e, InLoop: len(e.Iters) > 0}
			detached[m.Key] = m
		}
	}
	for _, e := range t.St.events {
		switch e.Kind {
		case EvStore:
			fa, ok := e.Addr.(*FieldAddrV)
			if !ok || !strings.HasSuffix(typeStr(fa.Owner), "etree.Element") {
				continue
			}
			if _, isAlloc := fa.X.(*AllocV); !isAlloc {
				continue
			}
			m := byKey[fa.X.Key()]
			if m == nil {
				m = &elemM{Key: fa.X.Key(), Ev: e}
				byKey[m.Key] = m
				if root == nil {
					root = m
				}
			}
			switch fa.Name {
			case "Space":
				m.Space = e.Val
			case "Tag":
				m.Local = e.Val
			case "Child", "Attr":
				// preallocation — a fresh empty slice made for this one element — adds nothing to the document
				if isNilConst(e.Val) || (isEmptySliceValT(t, e.Val) && !ownedStorage[e.Val.Key()]) {
					ownedStorage[e.Val.Key()] = true
					break
				}
				problems = append(problems, "direct store to Element."+fa.Name)
			}
		case EvCall:
			switch shortName(e.Callee) {
			case "(*etree.Element).CreateAttr":
				if m := byKey[e.Args[0].Key()]; m != nil {
					m.Attrs = append(m.Attrs, attrM{Name: e.Args[1], Val: derefCopies(t, e.Args[2]), Ev: e})
				}
			case "(*etree.Element).CreateElement":
				if m := byKey[e.Args[0].Key()]; m != nil {
					ch := &elemM{Key: e.Res[0].Key(), Tag: e.Args[1], Ev: e, InLoop: len(e.Iters) > 0}
					byKey[ch.Key] = ch
					m.Children = append(m.Children, ch)
				}
			case "etree.NewElement":
				// the first detached element that receives content before anything else exists is the root
				if m := detached[e.Res[0].Key()]; m != nil && root == nil && len(byKey) == 0 {
					if tag, ok := constString(m.Tag); ok {
						sp, lc := "", tag
						if i := strings.Index(tag, ":"); i >= 0 {
							sp, lc = tag[:i], tag[i+1:]
						}
						m.Space, m.Local, m.Tag = strV(sp), strV(lc), nil
					}
					byKey[m.Key] = m
					root = m
				}
			case "(*etree.Element).AddChild":
				// NewElement(tag) + AddChild is CreateElement(tag): the child lands at the end of the parent's children
				if len(e.Args) == 2 {
					child := stripIface(e.Args[1])
					if p := byKey[e.Args[0].Key()]; p != nil {
						if m := detached[child.Key()]; m != nil && byKey[m.Key] == nil {
							byKey[m.Key] = m
							p.Children = append(p.Children, m)
						} else {
							problems = append(problems, "tree mutation outside the escaping API: (*etree.Element).AddChild")
						}
					}
				}
			case "(*etree.Element).CreateText":
				// CreateText on an element without text or children is SetText
				if m := byKey[e.Args[0].Key()]; m != nil {
					if m.Text == nil && len(m.Children) == 0 {
						m.Text = e.Args[1]
					} else {
						problems = append(problems, "tree mutation outside the escaping API: (*etree.Element).CreateText")
					}
				}
			case "(*etree.Element).SetText":
				if m := byKey[e.Args[0].Key()]; m != nil {
					m.Text = e.Args[1]
				}
				// elements laid out by one loop ([create(e) for e in coll]) and filled by a second loop over the same
				// collection: element i receives coll[i] — the same pairing a single loop makes
				if me, ok := e.Args[0].(*MapElemV); ok {
					if m := byKey[me.M.Elem.Key()]; m != nil {
						var cx, ci Val
						switch iv := stripIface(e.Args[1]).(type) {
						case *IndexV:
							cx, ci = iv.X, iv.I
						case *LoadV:
							if ia, isIA := iv.Addr.(*IndexAddrV); isIA {
								cx, ci = ia.X, ia.I
							}
						}
						if cx != nil && ci.Key() == me.I.Key() && cx.Key() == me.M.Coll.Key() {
							m.Text = e.Args[1]
						}
					}
				}
			default:
				// any other etree call that receives an element of the document under construction (CDATA, char data,
				// comments, directives, foreign children, ...) is outside the escaping text / attribute API
				if strings.HasPrefix(shortName(e.Callee), "(*etree.") && len(e.Args) > 0 {
					if m := byKey[e.Args[0].Key()]; m != nil {
						switch shortName(e.Callee) {
						case "(*etree.Element).Copy", "(*etree.Element).Text", "(*etree.Element).SelectAttr", "(*etree.Element).SelectAttrValue", "(*etree.Element).Parent":
						default:
							problems = append(problems, "tree mutation outside the escaping API: "+shortName(e.Callee))
						}
					}
				}
			}
		}
	}
	return root, problems
}

type attrSpec struct {
	Name  string
	Value string // expected ap of the value
	When  string // atom that must hold for the attribute to be present ("" = always)
}

type childSpec struct {
	Tag     string
	Text    string            // expected ap of text ("" = no text)
	TextAlt map[string]string // atom -> text ap (first matching atom wins)
	Attrs   []attrSpec
	When    string
	Loop    string // children created in a generic iteration over this collection (ap); text = coll[*]
	Kids    []childSpec
}

type docRoot struct {
	Fn     string // exported entry point; the kernel is rooted here, the unexported builders are inlined
	Signed bool   // this entry asks for the enveloped signature (the includeSig constant of the call)
}

type docSpec struct {
	Fn, Space, Local string
	Roots            []docRoot
	Attrs            []attrSpec
	Children         []childSpec
	Order            []string // schema sequence of child tags
	SignFn           string
	SignWhen         []string // atoms that must all hold for the signed variant
}

const (
	idAP      = `("_" + (*uuid.UUID).String(uuid.NewV4()))`
	instantAP = `(time.Time).Format((time.Time).UTC((*dsig.Clock).Now(SP.Clock)), "2006-01-02T15:04:05Z")`
)

var issuerChild = childSpec{Tag: "saml:Issuer", TextAlt: map[string]string{`SP.ServiceProviderIssuer == ""`: "SP.IdentityProviderIssuer", `!(SP.ServiceProviderIssuer == "")`: "SP.ServiceProviderIssuer"}}

var docSpecs = []docSpec{
	{Fn: "AuthnRequest", Roots: []docRoot{{"(*SAMLServiceProvider).BuildAuthRequestDocument", true}, {"(*SAMLServiceProvider).BuildAuthRequestDocumentNoSig", false}}, Space: "samlp", Local: "AuthnRequest",
		Attrs: []attrSpec{
			{"xmlns:samlp", `"` + nsP + `"`, ""}, {"xmlns:saml", `"` + nsA + `"`, ""}, {"ID", idAP, ""}, {"Version", `"2.0"`, ""},
			{"ProtocolBinding", `"urn:oasis:names:tc:SAML:2.0:bindings:HTTP-POST"`, ""}, {"AssertionConsumerServiceURL", "SP.AssertionConsumerServiceURL", ""},
			{"IssueInstant", instantAP, ""}, {"Destination", "SP.IdentityProviderSSOURL", ""},
			{"ForceAuthn", `"true"`, "SP.ForceAuthn"}, {"IsPassive", `"true"`, "SP.IsPassive"}},
		Children: []childSpec{issuerChild,
			{Tag: "samlp:NameIDPolicy", Attrs: []attrSpec{{"AllowCreate", `"true"`, ""}, {"Format", "SP.NameIdFormat", `!(SP.NameIdFormat == "")`}}},
			{Tag: "samlp:RequestedAuthnContext", When: "!(SP.RequestedAuthnContext == nil)", Attrs: []attrSpec{{"Comparison", "SP.RequestedAuthnContext.Comparison", ""}},
				Kids: []childSpec{{Tag: "saml:AuthnContextClassRef", Loop: "SP.RequestedAuthnContext.Contexts"}}}},
		Order:  []string{"saml:Issuer", "ds:Signature", "samlp:Extensions", "saml:Subject", "samlp:NameIDPolicy", "saml:Conditions", "samlp:RequestedAuthnContext", "samlp:Scoping"},
		SignFn: "(*SAMLServiceProvider).SignAuthnRequest", SignWhen: []string{"SP.SignAuthnRequests"}},
	{Fn: "LogoutRequest", Roots: []docRoot{{"(*SAMLServiceProvider).BuildLogoutRequestDocument", true}, {"(*SAMLServiceProvider).BuildLogoutRequestDocumentNoSig", false}}, Space: "samlp", Local: "LogoutRequest",
		Attrs: []attrSpec{{"xmlns:samlp", `"` + nsP + `"`, ""}, {"xmlns:saml", `"` + nsA + `"`, ""}, {"ID", idAP, ""}, {"Version", `"2.0"`, ""},
			{"IssueInstant", instantAP, ""}, {"Destination", "SP.IdentityProviderSLOURL", ""}},
		Children: []childSpec{issuerChild,
			{Tag: "saml:NameID", Text: "$1", Attrs: []attrSpec{{"Format", "SP.NameIdFormat", ""}}},
			{Tag: "samlp:SessionIndex", Text: "$2"}},
		Order:  []string{"saml:Issuer", "ds:Signature", "samlp:Extensions", "saml:BaseID", "saml:NameID", "saml:EncryptedID", "samlp:SessionIndex"},
		SignFn: "(*SAMLServiceProvider).SignLogoutRequest"},
	{Fn: "LogoutResponse", Roots: []docRoot{{"(*SAMLServiceProvider).BuildLogoutResponseDocument", true}, {"(*SAMLServiceProvider).BuildLogoutResponseDocumentNoSig", false}}, Space: "samlp", Local: "LogoutResponse",
		Attrs: []attrSpec{{"xmlns:samlp", `"` + nsP + `"`, ""}, {"xmlns:saml", `"` + nsA + `"`, ""}, {"ID", idAP, ""}, {"Version", `"2.0"`, ""},
			{"IssueInstant", instantAP, ""}, {"Destination", "SP.IdentityProviderSLOURL", ""}, {"InResponseTo", "$2", ""}},
		Children: []childSpec{issuerChild,
			{Tag: "samlp:Status", Kids: []childSpec{{Tag: "samlp:StatusCode", Attrs: []attrSpec{{"Value", "$1", ""}}}}}},
		Order:  []string{"saml:Issuer", "ds:Signature", "samlp:Extensions", "samlp:Status"},
		SignFn: "(*SAMLServiceProvider).SignLogoutResponse"},
}

func checkAttrs(c *Ctx, rule, fname, where, pos string, atoms map[string]bool, got []attrM, want []attrSpec) {
	seen := map[string]int{}
	extra := map[string]bool{}
	defer func() {
		for n := range extra {
			if seen[n] > 1 {
				c.bad(rule+"/wiring", fname, where+": attribute "+n, pos, fmt.Sprintf("attribute %s is emitted %d times on one path: a repeated attribute is not well-formed XML", n, seen[n]))
			}
		}
	}()
	for _, a := range got {
		n, isC := constString(a.Name)
		if !isC {
			c.bad(rule+"/names-constant", fname, where+": attribute name", c.P.InstrPos(a.Ev.Instr), "attribute name is not a compile-time constant ("+ap(a.Name)+"): a configured string reaches a name slot and can alter the document structure")
			continue
		}
		seen[n]++
		var sp *attrSpec
		for i := range want {
			if want[i].Name == n {
				sp = &want[i]
			}
		}
		if sp == nil {
			// an attribute the property does not speak about (Consent, ProviderName, …): it cannot disturb the ones it does
			// speak about as long as its name is a plain constant NCName — no prefix, no namespace declaration — and it is
			// set through the escaping attribute API at most once (duplicates are not well-formed; checked below)
			if plainAttrName(n) {
				c.ok(rule+"/wiring", fname, where+": additional attribute "+n, c.P.InstrPos(a.Ev.Instr), "constant unprefixed name, value through the attribute API")
				extra[n] = true
			} else {
				c.bad(rule+"/wiring", fname, where+": attribute "+n, c.P.InstrPos(a.Ev.Instr), "attribute "+n+" is not in the wiring table for this message and is not a plain unprefixed name: it can redeclare a namespace or collide with a qualified attribute")
			}
			continue
		}
		if sp.When != "" && !atoms[sp.When] {
			c.bad(rule+"/wiring", fname, where+": attribute "+n+" only when "+sp.When, c.P.InstrPos(a.Ev.Instr), "attribute "+n+" is emitted on a path where "+sp.When+" does not hold")
			continue
		}
		c.check(ap(a.Val) == sp.Value, rule+"/wiring", fname, where+": attribute "+n, c.P.InstrPos(a.Ev.Instr), n+" <- "+sp.Value, "attribute "+n+" is set from "+ap(a.Val)+", want "+sp.Value)
	}
	for _, sp := range want {
		must := sp.When == "" || atoms[sp.When]
		if must && seen[sp.Name] != 1 {
			c.bad(rule+"/wiring", fname, where+": attribute "+sp.Name, pos, fmt.Sprintf("attribute %s is emitted %d times on a path where it is required exactly once", sp.Name, seen[sp.Name]))
		}
		if sp.When != "" && !atoms[sp.When] && !atoms[negAtom(sp.When)] {
			c.bad(rule+"/wiring", fname, where+": attribute "+sp.Name+" decided by "+sp.When, pos, "path does not test "+sp.When)
		}
	}
}

func checkChildren(c *Ctx, rule, fname, where, pos string, t *Terminal, atoms map[string]bool, got []*elemM, want []childSpec) {
	gi := 0
	for _, sp := range want {
		present := sp.When == "" || atoms[sp.When]
		if sp.When != "" && !atoms[sp.When] && !atoms[negAtom(sp.When)] {
			c.bad(rule+"/wiring", fname, where+": child "+sp.Tag+" decided by "+sp.When, pos, "path does not test "+sp.When)
		}
		if sp.Loop != "" {
			// zero or one generic instance
			cls := loopShapeOf(atoms, sp.Loop)
			through := cls.Gen
			if through {
				if gi < len(got) && got[gi].tagString() == sp.Tag && got[gi].InLoop {
					ch := got[gi]
					gi++
					exhausted := cls.Exhausted
					textOK := ch.Text != nil && ap(ch.Text) == sp.Loop+"[*]"
					if ch.Text == nil && atoms[sp.Loop+`[*] == ""`] {
						textOK = true // guarded CreateText: an empty element text is no text node
					}
					c.check(textOK && exhausted && loopStartsAtZero(t, sp.Loop), rule+"/wiring", fname, where+": one "+sp.Tag+" per element of "+sp.Loop, c.P.InstrPos(ch.Ev.Instr),
						"text <- "+sp.Loop+"[*], whole slice in order", "children "+sp.Tag+" do not reproduce "+sp.Loop+" element by element in order (text="+apOrNone(ch.Text)+")")
				} else {
					c.bad(rule+"/wiring", fname, where+": one "+sp.Tag+" per element of "+sp.Loop, pos, "generic iteration over "+sp.Loop+" creates no "+sp.Tag)
				}
			} else if !cls.Zero {
				c.bad(rule+"/wiring", fname, where+": one "+sp.Tag+" per element of "+sp.Loop, pos, "path does not iterate "+sp.Loop)
			}
			continue
		}
		if !present {
			continue
		}
		if gi >= len(got) || got[gi].tagString() != sp.Tag {
			g := "none"
			if gi < len(got) {
				g = got[gi].tagString()
			}
			c.bad(rule+"/wiring", fname, where+": child "+sp.Tag, pos, "expected child "+sp.Tag+" at this position, found "+g)
			continue
		}
		ch := got[gi]
		gi++
		cw := where + "/" + sp.Tag
		wantText := sp.Text
		for at, tx := range sp.TextAlt {
			if atoms[at] {
				wantText = tx
			}
		}
		gotText := ""
		if ch.Text != nil {
			gotText = ap(ch.Text)
		} else if atoms[wantText+` == ""`] {
			gotText = wantText // `if x != "" { el.CreateText(x) }`: no text node is what SetText("") serialises to
		}
		c.check(gotText == wantText, rule+"/wiring", fname, cw+": text", c.P.InstrPos(ch.Ev.Instr), "text <- "+wantText, "text of "+sp.Tag+" is "+gotText+", want "+wantText)
		checkAttrs(c, rule, fname, cw, pos, atoms, ch.Attrs, sp.Attrs)
		checkChildren(c, rule, fname, cw, pos, t, atoms, ch.Children, sp.Kids)
	}
	for ; gi < len(got); gi++ {
		c.bad(rule+"/wiring", fname, where+": child "+got[gi].tagString(), c.P.InstrPos(got[gi].Ev.Instr), "child "+got[gi].tagString()+" is not in the wiring table for this message (or is out of position)")
	}
}

func allNamesConstant(c *Ctx, rule, fname string, m *elemM) {
	if m.Tag != nil {
		if _, ok := constString(m.Tag); !ok {
			c.bad(rule+"/names-constant", fname, "element name", c.P.InstrPos(m.Ev.Instr), "element name is not a compile-time constant ("+ap(m.Tag)+")")
		} else {
			c.ok(rule+"/names-constant", fname, "element "+m.tagString(), c.P.InstrPos(m.Ev.Instr), "constant")
		}
	}
	for _, ch := range m.Children {
		allNamesConstant(c, rule, fname, ch)
	}
}

func ruleC15(c *Ctx) {
	c.rule("C15-R1", "names are constants: every element / attribute name given to the etree API in the three builders is a compile-time constant; no raw-XML sink (CreateCharData/Directive/ProcInst/AddChild of foreign trees) is used")
	c.rule("C15-R2", "wiring table: each attribute and child of AuthnRequest / LogoutRequest / LogoutResponse is emitted exactly under its condition and carries exactly the named configuration field or argument")
	c.rule("C15-R3", "instant: IssueInstant = Format(\"2006-01-02T15:04:05Z\") of sp.Clock.Now().UTC() (the literal Z makes .UTC() mandatory)")
	c.rule("C15-R5", "signing keeps the built content (shared with C13-R1): the signed document's children are [Child[0], signature, Child[1:]...] of a copy — every child built under R1–R4 is present once, in order")
	signPlacement(c, "C15-R5")
	c.rule("C15-R6", "the configuration the builders read (issuers, endpoint URLs, name-id format, authn context, flags, clock) is written by no library function (filtered view of the C17-R1 effect scan): a helper that 'fills in' ServiceProviderIssuer changes the Issuer of every later message")
	configUntouched(c, "C15-R6", "the fields the message builders read", []string{"ServiceProviderIssuer", "IdentityProviderIssuer", "IdentityProviderSSOURL", "IdentityProviderSLOURL", "AssertionConsumerServiceURL", "ServiceProviderSLOURL",
		"NameIdFormat", "RequestedAuthnContext", "ForceAuthn", "IsPassive", "SignAuthnRequests", "Clock", "AudienceURI"})
	c.rule("C15-R4", "child order: the children created on the root form a subsequence of the SAML schema sequence; the returned document's root is the built element, or Sign*(element) exactly under the signing condition")
	for _, br := range builderRuns(c) {
		ds, res := br.ds, br.res
		_ = ds
		fname := shortFn(res.Root)
		n := 0
		for _, t := range res.Terms {
			if !t.accepting(res.Root) {
				continue
			}
			n++
			pos := c.P.InstrPos(t.Instr)
			atoms := t.atoms()
			root, problems := docModel(t)
			if root == nil {
				c.bad("C15-R2/wiring", fname, "root element literal", pos, "no etree.Element literal is built on this path")
				continue
			}
			for _, p := range problems {
				c.bad("C15-R1/raw-sink", fname, p, pos, p+" in a builder: content can bypass the escaping tree API")
			}
			sp, _ := constString(root.Space)
			lc, ok := constString(root.Local)
			c.check(ok && sp == ds.Space && lc == ds.Local, "C15-R2/wiring", fname, "root element name", pos, ds.Space+":"+ds.Local, "root element is "+root.tagString())
			checkAttrs(c, "C15-R2", fname, "root", pos, atoms, root.Attrs, ds.Attrs)
			checkChildren(c, "C15-R2", fname, "root", pos, t, atoms, root.Children, ds.Children)
			allNamesConstant(c, "C15-R1", fname, root)
			// R4 order
			idx := -1
			okOrder := true
			for _, ch := range root.Children {
				j := -1
				for k, s := range ds.Order {
					if s == ch.tagString() {
						j = k
					}
				}
				if j < 0 || j < idx {
					okOrder = false
				}
				if j >= 0 {
					idx = j
				}
			}
			c.check(okOrder, "C15-R4", fname, "children follow the schema sequence", pos, strings.Join(ds.Order, " < "), "children are created out of schema order: "+childTags(root))
			first := ""
			if len(root.Children) > 0 {
				first = root.Children[0].tagString()
			}
			c.check(first == "saml:Issuer", "C15-R4", fname, "Issuer is the first child", pos, "saml:Issuer first (the signature is inserted at index 1)", "first child is "+first)
			// returned document root
			var setRoot *Event
			for _, e := range t.St.events {
				if e.Kind == EvCall && shortName(e.Callee) == "(*etree.Document).SetRoot" && e.Args[0].Key() == t.Vals[0].Key() {
					setRoot = e
				}
			}
			if setRoot == nil {
				c.bad("C15-R4", fname, "returned document has the built root", pos, "returned document never receives a root")
				continue
			}
			signNow := br.signed
			for _, w := range ds.SignWhen {
				if !atoms[w] {
					signNow = false
				}
			}
			rootArg := setRoot.Args[1]
			if signNow {
				cv, ok := rootArg.(*CallV)
				good := ok && shortName(cv.Callee) == ds.SignFn && cv.Idx == 0 && len(cv.Args) == 2 && cv.Args[1].Key() == root.Key
				c.check(good, "C15-R4", fname, "signed variant: root = "+ds.SignFn+"(built element)", pos, "signed copy of the built element", "signing condition holds but the document root is "+ap(rootArg))
			} else {
				c.check(rootArg.Key() == root.Key, "C15-R4", fname, "unsigned variant: root = built element", pos, "built element", "document root is "+ap(rootArg)+" on a path where the signing condition does not hold")
			}
		}
		c.count("C15/accepting "+fname, n)
		c.floor("C15/accepting "+fname, 2)
	}
}

func childTags(m *elemM) string {
	var s []string
	for _, ch := range m.Children {
		s = append(s, ch.tagString())
	}
	return strings.Join(s, ", ")
}

// builderRun: one exported entry point of a message kind with its kernel; positional placeholders $1, $2 of the spec
// stand for the entry point's own parameters (whatever they are called).
type builderRun struct {
	ds     docSpec
	res    *Result
	signed bool
}

func builderRuns(c *Ctx) []builderRun {
	var out []builderRun
	for _, ds := range docSpecs {
		for _, r := range ds.Roots {
			res := c.kernel(r.Fn, builderInline...)
			if res == nil {
				continue
			}
			out = append(out, builderRun{ds: ds.forRoot(res.Root), res: res, signed: r.Signed})
		}
	}
	return out
}

func (ds docSpec) forRoot(root *ssa.Function) docSpec {
	sub := func(s string) string {
		for i := len(root.Params) - 1; i >= 1; i-- {
			s = strings.ReplaceAll(s, fmt.Sprintf("$%d", i), "$"+root.Params[i].Name())
		}
		return s
	}
	var subAttrs func(as []attrSpec) []attrSpec
	subAttrs = func(as []attrSpec) []attrSpec {
		out := make([]attrSpec, len(as))
		for i, a := range as {
			a.Value = sub(a.Value)
			out[i] = a
		}
		return out
	}
	var subKids func(cs []childSpec) []childSpec
	subKids = func(cs []childSpec) []childSpec {
		out := make([]childSpec, len(cs))
		for i, ch := range cs {
			ch.Text = sub(ch.Text)
			ch.Attrs = subAttrs(ch.Attrs)
			ch.Kids = subKids(ch.Kids)
			out[i] = ch
		}
		return out
	}
	ds.Attrs = subAttrs(ds.Attrs)
	ds.Children = subKids(ds.Children)
	return ds
}

var builderInline = []string{"*", "-(*SAMLServiceProvider).SignAuthnRequest", "-(*SAMLServiceProvider).SignLogoutRequest", "-(*SAMLServiceProvider).SignLogoutResponse",
	"-uuid.NewV4", "-uuid.(*UUID).String", "-(*SAMLServiceProvider).SigningContext"}

// ---------------------------------------------------------------- C13

func ruleC13(c *Ctx) {
	c.rule("C13-R7", "a built (and signed) document is not touched again: no tree-changing operation outside the frozen table in the cone of the builders (shared treeHygiene) — indenting a shallow copy of the document rewrites the signed element")
	treeHygiene(c, "C13-R7", outboundRoots(c))
	c.rule("C13-R1", "placement: each Sign* rebuilds the children of a copy as [Child[0], signature, Child[1:]...] (or InsertChildAt(1, sig)) with ConstructSignature(el, enveloped=true) from sp.SigningContext(); the three Sign* bodies agree; the builders create saml:Issuer first (C15-R4)")
	c.rule("C13-R2", "context configuration: on every creating path of SigningContext the algorithm is applied with SetSignatureMethod(sp.SignAuthnRequestsAlgorithm) and, when configured, the canonicalizer is stored, on the new context and before the write lock is released; the embedded certificate comes from the same key source as the signer")
	c.rule("C13-R3", "single door: receivers of ConstructSignature / SignString / SignEnveloped are sp.SigningContext() results; signing contexts are constructed only inside SigningContext (positive control)")
	c.rule("C13-R6", "configuration setters write exactly their own override field (shared setterContract)")
	setterContract(c, "C13-R6")
	c.rule("C13-R4", "decision-table agreement, role signing: key that signs vs certificate reported vs signing KeyDescriptor of both metadata functions, over all 12 valid key configurations")
	signPlacement(c, "C13-R1")
	issuerFirst(c, "C13-R1")

	// R2
	sc := c.kernel("(*SAMLServiceProvider).SigningContext", "*")
	if sc != nil {
		fname := shortFn(sc.Root)
		n := 0
		for _, t := range sc.Terms {
			if t.Kind != "return" {
				continue
			}
			a := t.atoms()
			if !a["SP.signingContext == nil"] {
				continue
			}
			n++
			pos := c.P.InstrPos(t.Instr)
			var create, setm, unlock, lock *Event
			var canon *Event
			for _, e := range t.St.events {
				switch {
				case e.Kind == EvCall && (shortName(e.Callee) == "dsig.NewSigningContext" || shortName(e.Callee) == "dsig.NewDefaultSigningContext"):
					create = e
				case e.Kind == EvCall && shortName(e.Callee) == "(*dsig.SigningContext).SetSignatureMethod":
					setm = e
				case e.Kind == EvCall && shortName(e.Callee) == "(*sync.RWMutex).Unlock":
					unlock = e
				case e.Kind == EvCall && shortName(e.Callee) == "(*sync.RWMutex).Lock":
					lock = e
				case e.Kind == EvStore:
					if fa, ok := e.Addr.(*FieldAddrV); ok && fa.Name == "Canonicalizer" {
						canon = e
					}
				}
			}
			if create == nil || lock == nil || unlock == nil {
				c.bad("C13-R2", fname, "creating path shape", pos, "creating path lacks context construction or the write lock")
				continue
			}
			ctx := create.Res[0]
			c.check(ap(t.Vals[0]) == ap(ctx), "C13-R2", fname, "returns the context it created", pos, ap(ctx), "returns "+ap(t.Vals[0]))
			c.check(setm != nil && setm.Args[0].Key() == ctx.Key() && ap(setm.Args[1]) == "SP.SignAuthnRequestsAlgorithm" && setm.Seq > lock.Seq && setm.Seq < unlock.Seq, "C13-R2", fname, "SetSignatureMethod(sp.SignAuthnRequestsAlgorithm) on the new context under the lock", pos, "applied",
				"the configured signature algorithm is not applied to the newly created context before it is published")
			if a["!(SP.SignAuthnRequestsCanonicalizer == nil)"] {
				c.check(canon != nil && ap(canon.Val) == "SP.SignAuthnRequestsCanonicalizer" && rootOf(canon.Addr).Key() == ctx.Key() && canon.Seq < unlock.Seq, "C13-R2", fname, "configured canonicalizer stored on the new context", pos, "stored",
					"a configured canonicalizer is not installed on the new signing context")
			} else if a["SP.SignAuthnRequestsCanonicalizer == nil"] {
				c.check(canon == nil, "C13-R2", fname, "default canonicalizer kept when none configured", pos, "untouched", "canonicalizer overwritten although none is configured")
			} else {
				c.bad("C13-R2", fname, "canonicalizer decided by sp.SignAuthnRequestsCanonicalizer", pos, "path does not test the configured canonicalizer")
			}
			if shortName(create.Callee) == "dsig.NewSigningContext" {
				cert := ""
				if sl, ok := create.Args[1].(*SliceV); ok {
					if arr, ok := sl.X.(*AllocV); ok {
						if cl, ok := t.St.heap[mkIndexAddr(arr, intV(0), nil).Key()]; ok {
							cert = sourceOf(cl.val)
						}
					}
				}
				c.check(cert != "" && cert == sourceOf(create.Args[0]), "C13-R2", fname, "embedded certificate from the same key store as the signer", pos, cert, "signer comes from "+sourceOf(create.Args[0])+" but the embedded certificate from "+cert)
			}
		}
		c.count("C13-R2/creating-paths", n)
		c.floor("C13-R2/creating-paths", 4)
	}

	// R3
	isSigner := func(s string) bool {
		n := shortName(s)
		return n == "(*dsig.SigningContext).ConstructSignature" || n == "(*dsig.SigningContext).SignString" || n == "(*dsig.SigningContext).SignEnveloped" || n == "(*dsig.SigningContext).SignEnvelopedLimix"
	}
	m := scanCalls(c.P, c.P.LibFns, isSigner, func(s callSite) {
		if s.Instr == nil {
			c.bad("C13-R3", shortFn(s.Caller), "signer method value", "-", "signing method taken as a value")
			return
		}
		recv := s.Instr.Common().Args[0]
		ok := false
		if call, isCall := recv.(*ssa.Call); isCall {
			if f := call.Common().StaticCallee(); f != nil && shortFn(f) == "(*SAMLServiceProvider).SigningContext" {
				ok = true
			}
		}
		c.check(ok, "C13-R3", shortFn(s.Caller), "receiver of "+shortName(s.Callee), c.P.InstrPos(s.Instr), "sp.SigningContext()", "message signed with a context that does not come from sp.SigningContext()")
	})
	c.count("C13-R3/signing-calls", m)
	c.floor("C13-R3/signing-calls", 2)
	isCtor := func(s string) bool {
		n := shortName(s)
		return n == "dsig.NewSigningContext" || n == "dsig.NewDefaultSigningContext"
	}
	k := scanCalls(c.P, c.P.LibFns, isCtor, func(s callSite) {
		c.check(c.P.withinOnly(s.Caller, allowNames("(*SAMLServiceProvider).SigningContext")), "C13-R3", shortFn(s.Caller), "call "+shortName(s.Callee), c.P.InstrPos(s.Instr), "inside SigningContext (or a helper only it calls)", "signing context constructed outside SigningContext: key precedence / algorithm configuration not guaranteed")
	})
	c.count("C13-R3/constructors", k)
	c.floor("C13-R3/constructors", 2)
	fired := 0
	scanCalls(c.P, controlFns(c, "ownsigner"), isCtor, func(s callSite) { fired++ })
	c.Controls["C13-R3 ownsigner"] = fired > 0
	if fired == 0 {
		c.bad("C13-R3", "controls/ownsigner", "positive control", "-", "matcher did not flag the control that builds its own signing context")
	}
	// R4
	tableAgreement(c, "C13-R4", signingSelectors(c), 4)
	// R5
	c.rule("C13-R5", "what is signed survives serialisation: the builders fill the tree only through CreateElement / CreateAttr / SetText (escaped, canonicalisation-stable); no CDATA, raw character data, comments or foreign children (shared with C15-R1)")
	n5 := 0
	for _, br := range builderRuns(c) {
		ds, res := br.ds, br.res
		_ = ds
		for _, t := range res.Terms {
			if !t.accepting(res.Root) {
				continue
			}
			n5++
			_, problems := docModel(t)
			if len(problems) == 0 {
				c.ok("C13-R5", shortFn(res.Root), "escaping tree API only", c.P.InstrPos(t.Instr), "CreateElement / CreateAttr / SetText")
			}
			for _, p := range problems {
				c.bad("C13-R5", shortFn(res.Root), p, c.P.InstrPos(t.Instr), p+": the digest computed over the in-memory tree differs from what the recipient re-parses")
			}
		}
	}
	c.count("C13-R5/builder-paths", n5)
	c.floor("C13-R5/builder-paths", 6)
}

// ---------------------------------------------------------------- C18

func evalByte(v Val, in Val, x uint8) (uint8, bool) {
	if v.Key() == in.Key() {
		return x, true
	}
	switch y := v.(type) {
	case *ConstV:
		if i, ok := constInt(y); ok {
			return uint8(i), true
		}
	case *ConvV:
		return evalByte(y.X, in, x)
	case *BinV:
		a, ok1 := evalByte(y.X, in, x)
		b, ok2 := evalByte(y.Y, in, x)
		if !ok1 || !ok2 {
			return 0, false
		}
		switch y.Op {
		case token.AND:
			return a & b, true
		case token.OR:
			return a | b, true
		case token.XOR:
			return a ^ b, true
		case token.AND_NOT:
			return a &^ b, true
		case token.ADD:
			return a + b, true
		case token.SUB:
			return a - b, true
		case token.SHL:
			return a << b, true
		case token.SHR:
			return a >> b, true
		}
	}
	return 0, false
}

func ruleC18(c *Ctx) {
	c.rule("C18-R1", "ID = constant prefix starting with a letter or '_' + (*UUID).String() of a uuid.NewV4() called in the same builder activation; exactly one ID attribute per message")
	c.rule("C18-R2", "NewV4 fills all 16 bytes of a fresh array from crypto/rand.Read; a read error is fatal (panic), never ignored; the uuid package imports no other randomness source")
	c.rule("C18-R3", "version / variant transforms evaluated over all 256 byte values: byte 6 -> 0100xxxx, byte 8 -> 10xxxxxx with the other bits preserved; no other byte is written after the read")
	c.rule("C18-R4", "String(): the returned text is the layout hex(u[0:4]) '-' hex(u[4:6]) '-' hex(u[6:8]) '-' hex(u[8:10]) '-' hex(u[10:16]) in lower-case hex, produced by Sprintf(%x… / %0Nx of big-endian integers), hex.Encode into a fully covered buffer, hex.EncodeToString concatenation, a writer filled piece by piece, or an append chain of digit-table lookups evaluated over all 256 values per byte")
	n := 0
	for _, br := range builderRuns(c) {
		ds, res := br.ds, br.res
		_ = ds
		fname := shortFn(res.Root)
		for _, t := range res.Terms {
			if !t.accepting(res.Root) {
				continue
			}
			root, problems := docModel(t)
			if root == nil {
				continue
			}
			// the ID lives in the element's own attribute storage: a root whose Attr / Child slice is assigned from
			// elsewhere (a shared template slice with spare capacity) lets a later message overwrite this one's ID
			own := true
			for _, p := range problems {
				if strings.HasPrefix(p, "direct store to Element.") {
					own = false
					c.bad("C18-R1", fname, "message element owns its attribute storage", c.P.InstrPos(t.Instr), p+": the attribute list that receives the ID is not created by this call (shared backing storage makes IDs of distinct messages overwrite each other)")
				}
			}
			if own {
				c.ok("C18-R1", fname, "message element owns its attribute storage", c.P.InstrPos(t.Instr), "attributes only through CreateAttr on an element literal of this activation")
			}
			var ids []attrM
			for _, a := range root.Attrs {
				if s, ok := constString(a.Name); ok && s == "ID" {
					ids = append(ids, a)
				}
			}
			pos := c.P.InstrPos(t.Instr)
			if len(ids) != 1 {
				c.bad("C18-R1", fname, "exactly one ID attribute", pos, fmt.Sprintf("%d ID attributes on the root", len(ids)))
				continue
			}
			n++
			v := ids[0].Val
			good := false
			detail := ap(v)
			if b, ok := v.(*BinV); ok && b.Op == token.ADD {
				if pfx, ok := constString(b.X); ok && len(pfx) > 0 && (pfx[0] == '_' || (pfx[0] >= 'A' && pfx[0] <= 'Z') || (pfx[0] >= 'a' && pfx[0] <= 'z')) {
					if s, ok := b.Y.(*CallV); ok && shortName(s.Callee) == "(*uuid.UUID).String" {
						recv := s.Args[0]
						if nv, ok := recv.(*CallV); ok && shortName(nv.Callee) == "uuid.NewV4" && strings.Contains(nv.Site, baseFn(res.Root)) {
							good = true
						}
					}
				}
			}
			c.check(good, "C18-R1", fname, "ID = letter/underscore prefix + fresh UUID", c.P.InstrPos(ids[0].Ev.Instr), detail, "ID is "+detail+": not a constant NCName-start prefix followed by the String() of a UUID generated in this call")
			// ... and it reaches the attribute as a value of this activation, not by being read back from storage that other
			// calls (or goroutines) write: a per-provider "last issued" record filled under a lock and read after the lock is
			// released holds whatever the latest builder put there
			if ci, ok := ids[0].Ev.Instr.(ssa.CallInstruction); ok {
				args := ci.Common().Args
				if back := readBackFrom(args[len(args)-1], 0, map[ssa.Value]bool{}); back != "" {
					c.bad("C18-R1", fname, "ID handed over as a value of this call", c.P.InstrPos(ids[0].Ev.Instr), "the ID attribute is loaded from "+back+": storage that outlives the call and is shared with other builders, so concurrent builds emit each other's IDs")
				} else {
					c.ok("C18-R1", fname, "ID handed over as a value of this call", c.P.InstrPos(ids[0].Ev.Instr), "no load from shared storage on the way to the attribute")
				}
			}
		}
	}
	c.count("C18-R1/id-attributes", n)
	c.floor("C18-R1/id-attributes", 6)
	// no other producer of ID attributes
	// R2/R3
	nv := c.kernel("uuid.NewV4", "*")
	if nv != nil {
		fname := shortFn(nv.Root)
		acc := 0
		for _, t := range nv.Terms {
			var rd *Event
			for _, e := range t.St.events {
				if e.Kind == EvCall && strings.HasSuffix(e.Callee, "rand.Read") {
					rd = e
				}
			}
			if rd == nil {
				c.bad("C18-R2", fname, "randomness source", c.P.InstrPos(t.Instr), "a path of NewV4 does not read random bytes")
				continue
			}
			c.check(rd.Callee == "crypto/rand.Read", "C18-R2", fname, "crypto/rand.Read", c.P.InstrPos(rd.Instr), rd.Callee, "random bytes come from "+rd.Callee+", not crypto/rand")
			full := false
			var arr Val
			if sl, ok := rd.Args[0].(*SliceV); ok {
				if a, ok := sl.X.(*AllocV); ok {
					if p, ok := a.Type().Underlying().(*types.Pointer); ok {
						if at, ok := p.Elem().Underlying().(*types.Array); ok && at.Len() == 16 {
							lo0 := sl.Lo == nil || isConstInt(sl.Lo, 0)
							hi16 := sl.Hi == nil || isConstInt(sl.Hi, 16)
							full = lo0 && hi16
							arr = a
						}
					}
				}
			}
			c.check(full, "C18-R2", fname, "all 16 bytes read", c.P.InstrPos(rd.Instr), "u[0:16]", "rand.Read fills "+ap(rd.Args[0])+", not the whole 16-byte UUID")
			errNil, known := t.eqFact(rd.Res[1], nilOf(nil))
			switch t.Kind {
			case "panic":
				c.check(known && !errNil, "C18-R2", fname, "read error is fatal", c.P.InstrPos(t.Instr), "panic(err) on err != nil", "panic not tied to the read error")
			case "return":
				acc++
				c.check(known && errNil, "C18-R2", fname, "UUID returned only when the read succeeded", c.P.InstrPos(t.Instr), "err == nil", "NewV4 returns a UUID although the random read's error is ignored")
				same := arr != nil && t.Vals[0].Key() == arr.Key()
				if !same && arr != nil {
					same = wholeCopyOf(t, t.Vals[0], arr)
				}
				c.check(same, "C18-R2", fname, "returns the array that was filled", c.P.InstrPos(t.Instr), "the filled array, or a whole copy of it taken after the last write", "returns "+ap(t.Vals[0]))
				// R3: stores after the read
				stored := map[int64]Val{}
				for _, e := range t.St.events {
					if e.Kind != EvStore || e.Seq < rd.Seq {
						continue
					}
					if ia, ok := e.Addr.(*IndexAddrV); ok && arr != nil && ia.X.Key() == arr.Key() {
						if k, ok := constInt(ia.I); ok {
							stored[k] = e.Val
						} else {
							c.bad("C18-R3", fname, "store to u[?]", c.P.InstrPos(e.Instr), "UUID byte written at a non-constant index after the read")
						}
					}
				}
				for k, v := range stored {
					if k != 6 && k != 8 {
						c.bad("C18-R3", fname, fmt.Sprintf("store to u[%d]", k), c.P.InstrPos(t.Instr), fmt.Sprintf("random byte %d is overwritten after the read: fewer than 122 free bits", k))
						continue
					}
					// input byte = value loaded from u[k] after the read
					var in Val
					containsVal(v, func(x Val) bool {
						if l, ok := x.(*LoadV); ok {
							if ia, ok := l.Addr.(*IndexAddrV); ok && isConstInt(ia.I, k) {
								in = x
							}
						}
						return false
					})
					if in == nil {
						c.bad("C18-R3", fname, fmt.Sprintf("transform of u[%d]", k), c.P.InstrPos(t.Instr), "byte is replaced, not transformed from its random value: "+ap(v))
						continue
					}
					okAll := true
					for x := 0; x < 256; x++ {
						r, ok := evalByte(v, in, uint8(x))
						if !ok {
							okAll = false
							break
						}
						if k == 6 && !(r&0xF0 == 0x40 && r&0x0F == uint8(x)&0x0F) {
							okAll = false
						}
						if k == 8 && !(r&0xC0 == 0x80 && r&0x3F == uint8(x)&0x3F) {
							okAll = false
						}
					}
					what := "version nibble 0100, low nibble preserved"
					if k == 8 {
						what = "variant bits 10, low six bits preserved"
					}
					c.check(okAll, "C18-R3", fname, fmt.Sprintf("transform of u[%d] over all 256 inputs", k), c.P.InstrPos(t.Instr), what, fmt.Sprintf("byte %d transform %s does not give %s for every input", k, ap(v), what))
				}
				c.check(stored[6] != nil && stored[8] != nil, "C18-R3", fname, "version and variant are forced", c.P.InstrPos(t.Instr), "bytes 6 and 8 written", "version (byte 6) or variant (byte 8) is not set")
			}
		}
		c.count("C18-R2/returning-paths", acc)
		c.floor("C18-R2/returning-paths", 1)
	}
	// imports of uuid
	if pk := c.P.ByPath[modPath+"/uuid"]; pk != nil {
		for imp := range pk.Imports {
			bad := imp == "math/rand" || imp == "math/rand/v2" || imp == "time" || imp == "os" || imp == "hash/maphash"
			c.check(!bad, "C18-R2", "uuid", "import "+imp, "-", "allowed", "package uuid imports "+imp+": a non-cryptographic or guessable entropy source is in reach")
		}
	}
	// R4: the returned text as a layout of lower-case hex groups of u and literal bytes, whatever produces it
	st := c.kernel("uuid.(*UUID).String", "*")
	if st != nil {
		fname := shortFn(st.Root)
		want := "hex(u[0:4]) '-' hex(u[4:6]) '-' hex(u[6:8]) '-' hex(u[8:10]) '-' hex(u[10:16])"
		for _, t := range st.Terms {
			lay, why := uuidLayout(t, "$"+st.Root.Params[0].Name())
			if why != "" {
				c.bad("C18-R4", fname, "String() layout is recognised", c.P.InstrPos(t.Instr), "String() returns "+ap(t.Vals[0])+": "+why)
				continue
			}
			c.check(lay == want, "C18-R4", fname, "groups 8-4-4-4-12 cover u[0:16]", c.P.InstrPos(t.Instr), want, "String() renders "+lay+", want "+want)
		}
	}
}

type laySeg struct {
	lit    bool
	ch     byte
	lo, hi int64
}

func renderLayout(segs []laySeg) string {
	// merge contiguous hex groups
	var out []laySeg
	for _, s := range segs {
		if n := len(out); n > 0 && !s.lit && !out[n-1].lit && out[n-1].hi == s.lo {
			out[n-1].hi = s.hi
			continue
		}
		out = append(out, s)
	}
	parts := make([]string, len(out))
	for i, s := range out {
		if s.lit {
			parts[i] = fmt.Sprintf("%q", rune(s.ch))
			parts[i] = "'" + strings.Trim(parts[i], "'") + "'"
		} else {
			parts[i] = fmt.Sprintf("hex(u[%d:%d])", s.lo, s.hi)
		}
	}
	return strings.Join(parts, " ")
}

// sliceOfU: v is u[lo:hi] of the receiver array (16 bytes).
func sliceOfU(v Val, recv string) (int64, int64, bool) {
	s, ok := stripIface(v).(*SliceV)
	if !ok || ap(s.X) != recv {
		return 0, 0, false
	}
	lo, hi := int64(0), int64(16)
	if s.Lo != nil {
		k, isC := constInt(s.Lo)
		if !isC {
			return 0, 0, false
		}
		lo = k
	}
	if s.Hi != nil {
		k, isC := constInt(s.Hi)
		if !isC {
			return 0, 0, false
		}
		hi = k
	}
	return lo, hi, lo >= 0 && lo <= hi && hi <= 16
}

// appendedHexLayout: the elements of an append chain that starts from an empty slice, read as a layout.
func appendedHexLayout(t *Terminal, app *AppendV, recv string) (string, string) {
	var elems []Val
	var cur Val = app
	for {
		a, ok := cur.(*AppendV)
		if !ok {
			break
		}
		if a.Spread {
			return "", "append of a whole slice " + ap(a)
		}
		elems = append(append([]Val{}, a.Elems...), elems...)
		cur = a.S
	}
	if !isEmptySliceValT(t, cur) {
		if sl, ok := cur.(*SliceV); !ok || !isConstInt(sl.Hi, 0) {
			return "", "the text does not start from an empty slice: " + ap(cur)
		}
	}
	// the UUID byte a digit depends on
	byteOf := func(v Val) (Val, int64) {
		var in Val
		k := int64(-1)
		containsVal(v, func(y Val) bool {
			if l, ok := y.(*LoadV); ok {
				if ia, ok := l.Addr.(*IndexAddrV); ok && ap(ia.X) == recv {
					if i, isC := constInt(ia.I); isC {
						in, k = y, i
					}
				}
			}
			return false
		})
		return in, k
	}
	digit := func(v Val, in Val, x uint8) (byte, bool) {
		iv, ok := v.(*IndexV)
		if !ok {
			return 0, false
		}
		tbl, ok := constString(iv.X)
		if !ok {
			return 0, false
		}
		i, ok := evalByte(iv.I, in, x)
		if !ok || int(i) >= len(tbl) {
			return 0, false
		}
		return tbl[i], true
	}
	const hexd = "0123456789abcdef"
	var segs []laySeg
	for i := 0; i < len(elems); i++ {
		if ch, isC := constInt(elems[i]); isC {
			if ch <= 0 || ch > 127 {
				return "", "non-ASCII constant byte in the text"
			}
			segs = append(segs, laySeg{lit: true, ch: byte(ch)})
			continue
		}
		in, k := byteOf(elems[i])
		if in == nil || i+1 >= len(elems) {
			return "", "unrecognised element " + ap(elems[i])
		}
		in2, k2 := byteOf(elems[i+1])
		if in2 == nil || k2 != k {
			return "", "the two digits of byte " + fmt.Sprint(k) + " are not adjacent"
		}
		for x := 0; x < 256; x++ {
			hi, ok1 := digit(elems[i], in, uint8(x))
			lo, ok2 := digit(elems[i+1], in2, uint8(x))
			if !ok1 || !ok2 {
				return "", "digit expression " + ap(elems[i]) + " / " + ap(elems[i+1]) + " cannot be evaluated"
			}
			if hi != hexd[x>>4] || lo != hexd[x&15] {
				return "", fmt.Sprintf("byte %d with value %#02x renders as %q, want %q", k, x, string([]byte{hi, lo}), string([]byte{hexd[x>>4], hexd[x&15]}))
			}
		}
		segs = append(segs, laySeg{lo: k, hi: k + 1})
		i++
	}
	return renderLayout(segs), ""
}

// uuidLayout recognises three producers of the canonical text: fmt.Sprintf with a constant format of %x verbs and
// literal bytes over slices of u; string(buf[:]) of a local byte array filled by hex.Encode(buf[a:b], u[c:d]) and
// constant byte stores covering every position exactly once; a concatenation of hex.EncodeToString(u[c:d]) and
// constant strings.
func uuidLayout(t *Terminal, recv string) (string, string) {
	v := t.Vals[0]
	switch x := v.(type) {
	case *CallV:
		if sn := shortName(x.Callee); (sn == "(*strings.Builder).String" || sn == "(*bytes.Buffer).String") && len(x.Args) == 1 {
			// a writer filled piece by piece: constant bytes / strings, Fprintf("%x", u[a:b]), WriteString(hex.EncodeToString(u[a:b]))
			sb := x.Args[0]
			var segs []laySeg
			lit := func(s string) {
				for i := 0; i < len(s); i++ {
					segs = append(segs, laySeg{lit: true, ch: s[i]})
				}
			}
			for _, e := range t.St.events {
				if e.Kind != EvCall || len(e.Args) == 0 || stripIface(e.Args[0]).Key() != sb.Key() {
					continue
				}
				en := shortName(e.Callee)
				switch {
				case strings.HasSuffix(en, ").WriteByte") || strings.HasSuffix(en, ").WriteRune"):
					k, isC := constInt(e.Args[1])
					if !isC || k <= 0 || k > 127 {
						return "", "non-constant byte written to the text"
					}
					lit(string(rune(k)))
				case strings.HasSuffix(en, ").WriteString"):
					if s, isC := constString(e.Args[1]); isC {
						lit(s)
					} else if cv, ok := e.Args[1].(*CallV); ok && cv.Callee == "encoding/hex.EncodeToString" {
						lo, hi, ok := sliceOfU(cv.Args[0], recv)
						if !ok {
							return "", "operand " + ap(cv.Args[0]) + " is not a constant slice of the UUID"
						}
						segs = append(segs, laySeg{lo: lo, hi: hi})
					} else {
						return "", "unrecognised text " + ap(e.Args[1])
					}
				case en == "fmt.Fprintf":
					f, isC := constString(e.Args[1])
					if !isC || f != "%x" {
						return "", "Fprintf format other than %x"
					}
					var args []Val
					if sl, ok := e.Args[2].(*SliceV); ok {
						if arr, ok := sl.X.(*AllocV); ok {
							if cl, ok := t.St.heap[mkIndexAddr(arr, intV(0), nil).Key()]; ok {
								args = append(args, cl.val)
							}
						}
					}
					if len(args) != 1 {
						return "", "Fprintf operand not found"
					}
					lo, hi, ok := sliceOfU(args[0], recv)
					if !ok {
						return "", "operand " + ap(args[0]) + " is not a constant slice of the UUID"
					}
					segs = append(segs, laySeg{lo: lo, hi: hi})
				case strings.HasSuffix(en, ").String"), strings.HasSuffix(en, ").Len"), strings.HasSuffix(en, ").Grow"):
				default:
					return "", "writer also used by " + en
				}
			}
			return renderLayout(segs), ""
		}
		if x.Callee != "fmt.Sprintf" {
			break
		}
		f, ok := constString(x.Args[0])
		if !ok {
			return "", "format is not a constant"
		}
		var args []Val
		if sl, ok := x.Args[1].(*SliceV); ok {
			if arr, ok := sl.X.(*AllocV); ok {
				for i := 0; ; i++ {
					cl, ok := t.St.heap[mkIndexAddr(arr, intV(int64(i)), nil).Key()]
					if !ok {
						break
					}
					args = append(args, cl.val)
				}
			}
		}
		var segs []laySeg
		ai := 0
		for i := 0; i < len(f); i++ {
			if f[i] != '%' {
				segs = append(segs, laySeg{lit: true, ch: f[i]})
				continue
			}
			// %x of a slice of u, or %0Nx of the big-endian integer read from exactly N/2 bytes of u
			width := int64(-1)
			j := i + 1
			if j < len(f) && f[j] == '0' {
				width = 0
				for j++; j < len(f) && f[j] >= '0' && f[j] <= '9'; j++ {
					width = width*10 + int64(f[j]-'0')
				}
			}
			if j >= len(f) || f[j] != 'x' {
				return "", "format verb other than %x / %0Nx in " + fmt.Sprintf("%q", f)
			}
			i = j
			if ai >= len(args) {
				return "", "more verbs than operands"
			}
			arg := stripIface(args[ai])
			if width >= 0 {
				cv, isCall := arg.(*CallV)
				bits := map[string]int64{"Uint16": 2, "Uint32": 4, "Uint64": 8}
				var n int64
				if isCall && strings.HasPrefix(shortName(cv.Callee), "(encoding/binary.bigEndian).") && len(cv.Args) == 2 {
					n = bits[strings.TrimPrefix(shortName(cv.Callee), "(encoding/binary.bigEndian).")]
				}
				if n == 0 {
					return "", "zero-padded verb over " + ap(arg) + ", which is not a big-endian integer read from the UUID"
				}
				lo, hi, ok := sliceOfU(cv.Args[1], recv)
				if !ok || hi-lo != n || width != 2*n {
					return "", fmt.Sprintf("%%0%dx over %s does not render %d bytes as %d digits", width, ap(arg), n, 2*n)
				}
				ai++
				segs = append(segs, laySeg{lo: lo, hi: hi})
				continue
			}
			lo, hi, ok := sliceOfU(arg, recv)
			if !ok {
				return "", "operand " + ap(args[ai]) + " is not a constant slice of the UUID"
			}
			ai++
			segs = append(segs, laySeg{lo: lo, hi: hi})
		}
		if ai != len(args) {
			return "", "operands left over"
		}
		return renderLayout(segs), ""
	case *ConvV:
		if app, isApp := x.X.(*AppendV); isApp {
			// string(out) of a byte slice grown by append from empty: constant bytes and digit-table lookups indexed by the
			// two nibbles of one UUID byte; each lookup pair is evaluated for all 256 values of that byte
			return appendedHexLayout(t, app, recv)
		}
		sl, ok := x.X.(*SliceV)
		if !ok {
			break
		}
		buf, ok := sl.X.(*AllocV)
		if !ok || sl.Lo != nil && !isConstInt(sl.Lo, 0) {
			break
		}
		pt, ok := buf.Type().Underlying().(*types.Pointer)
		if !ok {
			break
		}
		arr, ok := pt.Elem().Underlying().(*types.Array)
		if !ok {
			break
		}
		n := arr.Len()
		if sl.Hi != nil {
			k, isC := constInt(sl.Hi)
			if !isC {
				break
			}
			n = k
		}
		pos := make([]*laySeg, n)
		put := func(i int64, s laySeg) string {
			if i < 0 || i >= n {
				return "write outside the converted range"
			}
			if pos[i] != nil {
				return fmt.Sprintf("position %d written twice", i)
			}
			pos[i] = &s
			return ""
		}
		for _, e := range t.St.events {
			switch {
			case e.Kind == EvStore:
				ia, ok := e.Addr.(*IndexAddrV)
				if !ok || ia.X.Key() != buf.Key() {
					continue
				}
				k, isC := constInt(ia.I)
				ch, isB := constInt(e.Val)
				if !isC || !isB {
					return "", "non-constant byte store into the buffer"
				}
				if w := put(k, laySeg{lit: true, ch: byte(ch)}); w != "" {
					return "", w
				}
			case e.Kind == EvCall && e.Callee == "encoding/hex.Encode":
				d, ok := e.Args[0].(*SliceV)
				if !ok || d.X.Key() != buf.Key() {
					continue
				}
				a, b := int64(0), arr.Len()
				if d.Lo != nil {
					a, _ = constInt(d.Lo)
				}
				if d.Hi != nil {
					b, _ = constInt(d.Hi)
				}
				lo, hi, ok := sliceOfU(e.Args[1], recv)
				if !ok {
					return "", "hex.Encode source " + ap(e.Args[1]) + " is not a constant slice of the UUID"
				}
				if b-a != 2*(hi-lo) {
					return "", fmt.Sprintf("hex.Encode of %d bytes into %d positions", hi-lo, b-a)
				}
				for i := int64(0); i < hi-lo; i++ {
					if w := put(a+2*i, laySeg{lo: lo + i, hi: lo + i + 1}); w != "" {
						return "", w
					}
					if w := put(a+2*i+1, laySeg{lit: true, ch: 0}); w != "" { // second digit of the same byte
						return "", w
					}
				}
			case e.Kind == EvCall && directArg(e, buf.Key()) && e.Callee != "encoding/hex.Encode":
				return "", "buffer also handed to " + shortName(e.Callee)
			}
		}
		var segs []laySeg
		for i, s := range pos {
			if s == nil {
				return "", fmt.Sprintf("position %d of the buffer is never written", i)
			}
			if s.lit && s.ch == 0 {
				continue
			}
			segs = append(segs, *s)
		}
		return renderLayout(segs), ""
	case *BinV:
		var segs []laySeg
		var walk func(v Val) string
		walk = func(v Val) string {
			if b, ok := v.(*BinV); ok && b.Op == token.ADD {
				if w := walk(b.X); w != "" {
					return w
				}
				return walk(b.Y)
			}
			if s, ok := constString(v); ok {
				for i := 0; i < len(s); i++ {
					segs = append(segs, laySeg{lit: true, ch: s[i]})
				}
				return ""
			}
			if cv, ok := v.(*CallV); ok && cv.Callee == "encoding/hex.EncodeToString" {
				lo, hi, ok := sliceOfU(cv.Args[0], recv)
				if !ok {
					return "operand " + ap(cv.Args[0]) + " is not a constant slice of the UUID"
				}
				segs = append(segs, laySeg{lo: lo, hi: hi})
				return ""
			}
			return "unrecognised part " + ap(v)
		}
		if w := walk(x); w != "" {
			return "", w
		}
		return renderLayout(segs), ""
	}
	return "", "not one of the recognised producers (Sprintf of %x groups, hex.Encode into a buffer, hex.EncodeToString concatenation)"
}

// ---------------------------------------------------------------- C16

var reForm = regexp.MustCompile(`(?i)<form\b`)

type postSpec struct {
	Fn, URLField, B64Field, InputName string
}

var postSpecs = []postSpec{
	// rooted at the exported API (relay state = parameter 1, document = parameter 2): unexported helpers are inlined
	{"(*SAMLServiceProvider).BuildAuthBodyPostFromDocument", "SP.IdentityProviderSSOURL", "SAMLRequest", "SAMLRequest"},
	{"(*SAMLServiceProvider).BuildLogoutBodyPostFromDocument", "SP.IdentityProviderSLOURL", "SAMLRequest", "SAMLRequest"},
	{"(*SAMLServiceProvider).BuildLogoutResponseBodyPostFromDocument", "SP.IdentityProviderSLOURL", "SAMLResponse", "SAMLResponse"},
}

func templateFields(src string) ([]string, error) {
	trees, err := parse.Parse("t", src, "{{", "}}")
	if err != nil {
		return nil, err
	}
	var out []string
	var walk func(n parse.Node)
	walk = func(n parse.Node) {
		switch x := n.(type) {
		case *parse.ListNode:
			if x != nil {
				for _, m := range x.Nodes {
					walk(m)
				}
			}
		case *parse.ActionNode:
			walk(x.Pipe)
		case *parse.PipeNode:
			for _, cmd := range x.Cmds {
				walk(cmd)
			}
		case *parse.CommandNode:
			for _, a := range x.Args {
				walk(a)
			}
			if len(x.Args) > 1 {
				out = append(out, "!call") // function call / method with arguments: not a plain field
			}
		case *parse.FieldNode:
			out = append(out, strings.Join(x.Ident, "."))
		case *parse.IfNode, *parse.RangeNode, *parse.WithNode, *parse.TemplateNode:
			out = append(out, "!control")
		case *parse.IdentifierNode, *parse.VariableNode, *parse.ChainNode, *parse.DotNode:
			out = append(out, "!"+n.String())
		}
	}
	for _, tr := range trees {
		if tr.Root != nil {
			walk(tr.Root)
		}
	}
	return out, nil
}

// expandRelayBlock: the template text rendered for a non-empty (taken) / empty relay state when the template decides
// with exactly one `{{if .RelayState}}…{{end}}` block that holds no further control action.
var reRelayBlock = regexp.MustCompile(`(?s)\{\{\s*if\s+\.RelayState\s*\}\}(.*?)\{\{\s*end\s*\}\}`)

func expandRelayBlock(src string, taken bool) (string, bool) {
	ms := reRelayBlock.FindAllStringSubmatchIndex(src, -1)
	if len(ms) != 1 {
		return "", false
	}
	m := ms[0]
	inner := src[m[2]:m[3]]
	if regexp.MustCompile(`\{\{-?\s*(if|else|range|with|template|block|define|end)\b`).MatchString(inner) {
		return "", false
	}
	if !taken {
		inner = ""
	}
	return src[:m[0]] + inner + src[m[1]:], true
}

func ruleC16(c *Ctx) {
	c.rule("C16-R6", "the POST builders serialise the document they are given as it is: no tree-changing operation outside the frozen table in the cone of the builders (shared treeHygiene) — Indent followed by Unindent drops whitespace nodes of the caller's document")
	treeHygiene(c, "C16-R6", outboundRoots(c))
	c.rule("C16-R1", "the bytes returned by the three POST body builders come only from a bytes.Buffer written by (*html/template.Template).Execute (package identity checked)")
	c.rule("C16-R2", "the template source is a compile-time constant; parsed at analysis time: only plain field actions whose fields exist in the data struct with type string; every action sits inside a double-quoted attribute value; one form, method POST, action={{.URL}}; hidden SAMLRequest/SAMLResponse input; RelayState input present exactly on the relayState != \"\" path")
	c.rule("C16-R5", "the endpoint URLs the forms post to are written by no library function (filtered view of the C17-R1 effect scan): a 'default the SLO URL to the SSO URL' helper elsewhere redirects every later logout form")
	configUntouched(c, "C16-R5", "the IdP endpoint URLs", []string{"IdentityProviderSSOURL", "IdentityProviderSLOURL"})
	c.rule("C16-R3", "wiring: .URL <- IdP SSO URL (AuthnRequest) / IdP SLO URL (logout kinds); base64 field <- base64.StdEncoding(doc.WriteToBytes()); .RelayState <- relayState; BuildAuthBodyPost picks the signed document exactly under sp.SignAuthnRequests")
	for _, ps := range postSpecs {
		res := c.kernel(ps.Fn, "*")
		if res == nil {
			continue
		}
		fname := shortFn(res.Root)
		n := 0
		if len(res.Root.Params) != 3 {
			c.bad("anchor", fname, "UNRESOLVED-ANCHOR", "-", "expected (sp, relayState, doc) parameters")
			continue
		}
		relay := "$" + res.Root.Params[1].Name()
		docP := "$" + res.Root.Params[2].Name()
		for _, t := range res.Terms {
			if !t.accepting(res.Root) {
				continue
			}
			n++
			pos := c.P.InstrPos(t.Instr)
			atoms := t.atoms()
			withRelay := atoms[`!(`+relay+` == "")`]
			// the decision may be left to the template: one `{{if .RelayState}}…{{end}}` block around the input, evaluated
			// by html/template on the wired field (a string is true exactly when it is non-empty). Such a path is analysed
			// twice, once per outcome of the block, over the template text that outcome renders.
			inTemplate := !withRelay && !atoms[relay+` == ""`]
			passes := 1
			if inTemplate {
				passes = 2
			}
			for pass := 0; pass < passes; pass++ {
				if inTemplate {
					withRelay = pass == 0
				}
				label := "without relay state"
				if withRelay {
					label = "with relay state"
				}
				var exec *Event
				for _, e := range t.St.events {
					if e.Kind == EvCall && strings.HasSuffix(e.Callee, "Template).Execute") {
						exec = e
					}
				}
				if exec == nil {
					c.bad("C16-R1", fname, "output produced by template execution ["+label+"]", pos, "no template Execute on the accepting path")
					continue
				}
				c.check(exec.Callee == "(*html/template.Template).Execute", "C16-R1", fname, "html/template executes the form ["+label+"]", c.P.InstrPos(exec.Instr), exec.Callee, "the form is rendered by "+exec.Callee+": no contextual HTML escaping")
				// returned bytes = Bytes(buf) with buf the Execute destination; no other writer to buf
				buf := stripIface(exec.Args[1])
				rv, isC := t.Vals[0].(*CallV)
				c.check(isC && rv.Callee == "(*bytes.Buffer).Bytes" && rv.Args[0].Key() == buf.Key(), "C16-R1", fname, "returns the executed buffer ["+label+"]", pos, "rv.Bytes()", "returns "+ap(t.Vals[0]))
				for _, e := range t.St.events {
					if e.Kind == EvCall && e != exec && e.Seq < exec.Seq+1000 && directArg(e, buf.Key()) && !bufferReadOnly[shortName(e.Callee)] {
						c.bad("C16-R1", fname, "other writer to the output buffer ["+label+"]", c.P.InstrPos(e.Instr), shortName(e.Callee)+" also writes the output buffer: content bypasses the template escaper")
					}
				}
				execOK, k := t.eqFact(exec.Res[0], nilOf(nil))
				c.check(k && execOK, "C16-R1", fname, "Execute error checked ["+label+"]", pos, "err == nil", "returns output although Execute's error is not known nil")
				// template value: Must(Parse(New(name), SRC))
				src, srcOK := "", false
				if must, ok := exec.Args[0].(*CallV); ok {
					var p *CallV
					if must.Callee == "html/template.Must" || must.Callee == "text/template.Must" {
						p, _ = must.Args[0].(*CallV)
					} else {
						p = must
					}
					if p != nil && strings.HasSuffix(p.Callee, "Template).Parse") && len(p.Args) == 2 {
						src, srcOK = constString(p.Args[1])
					}
				}
				if l, isLoad := exec.Args[0].(*LoadV); isLoad && !srcOK {
					_ = l
				}
				if !srcOK {
					c.bad("C16-R2", fname, "template source is a constant ["+label+"]", c.P.InstrPos(exec.Instr), "the template text is not a compile-time constant (configured or caller data concatenated into the template is never escaped): "+ap(exec.Args[0]))
					continue
				}
				if inTemplate {
					expanded, ok := expandRelayBlock(src, withRelay)
					if !ok {
						c.bad("C16-R2", fname, "RelayState input decided by relayState != \"\"", pos, "path does not test relayState, and the template has no single {{if .RelayState}}…{{end}} block that would")
						break
					}
					src = expanded
				}
				fields, err := templateFields(src)
				if err != nil {
					c.bad("C16-R2", fname, "template parses ["+label+"]", c.P.InstrPos(exec.Instr), "template does not parse: "+err.Error())
					continue
				}
				// template data: a struct (by value or through a pointer, promoted fields of embedded structs included) or a
				// map[string]string literal — what html/template resolves ".Name" against
				data := stripIface(exec.Args[2])
				dm, dmOK := templateData(t, data)
				if !dmOK {
					c.bad("C16-R2", fname, "template data is a struct ["+label+"]", c.P.InstrPos(exec.Instr), "data is "+typeStr(data.Type())+": neither a struct of strings nor a map[string]string literal")
					continue
				}
				want := map[string]bool{"URL": true, ps.B64Field: true}
				if withRelay {
					want["RelayState"] = true
				}
				seen := map[string]bool{}
				for _, f := range fields {
					if strings.HasPrefix(f, "!") {
						c.bad("C16-R2", fname, "only plain field actions ["+label+"]", c.P.InstrPos(exec.Instr), "template uses "+f+": outside the analysed shape")
						continue
					}
					seen[f] = true
					ft, has := dm.Types[f]
					if !has {
						c.bad("C16-R2", fname, "template field ."+f+" exists in the data ["+label+"]", c.P.InstrPos(exec.Instr), "template references ."+f+" which the data lacks: Execute fails (struct) or renders nothing (map) on this path")
						continue
					}
					c.check(ft == "string", "C16-R2", fname, "template field ."+f+" is a plain string ["+label+"]", c.P.InstrPos(exec.Instr), "string", "field ."+f+" has type "+ft+": typed content bypasses html/template's escaper")
					c.check(want[f], "C16-R2", fname, "template field ."+f+" expected ["+label+"]", c.P.InstrPos(exec.Instr), "in table", "unexpected action ."+f)
				}
				for f := range want {
					c.check(seen[f], "C16-R2", fname, "template uses ."+f+" ["+label+"]", c.P.InstrPos(exec.Instr), "present", "template lacks ."+f)
				}
				// textual structure
				c.check(len(reForm.FindAllString(src, -1)) == 1, "C16-R2", fname, "exactly one form ["+label+"]", c.P.InstrPos(exec.Instr), "1", "template does not contain exactly one <form")
				// the script that submits the form names the form that is on the page
				formIDs := regexp.MustCompile(`(?i)<form\b[^>]*\bid="([^"]*)"`).FindAllStringSubmatch(src, -1)
				for _, m := range regexp.MustCompile(`getElementById\('([^']*)'\)\s*\.\s*submit\(`).FindAllStringSubmatch(src, -1) {
					c.check(len(formIDs) == 1 && formIDs[0][1] == m[1], "C16-R2", fname, "auto-submit targets the form on the page ["+label+"]", c.P.InstrPos(exec.Instr), "getElementById('"+m[1]+"') is the form's id",
						"the script submits element '"+m[1]+"', which is not the id of the form in this template: the form is never posted")
				}
				low := strings.ToLower(src)
				c.check(strings.Contains(low, `method="post"`), "C16-R2", fname, "method POST ["+label+"]", c.P.InstrPos(exec.Instr), "post", "form method is not POST")
				c.check(strings.Contains(src, `action="{{.URL}}"`), "C16-R2", fname, "action={{.URL}} in a quoted attribute ["+label+"]", c.P.InstrPos(exec.Instr), "quoted", "form action is not the quoted {{.URL}} action")
				c.check(strings.Contains(src, `name="`+ps.InputName+`" value="{{.`+ps.B64Field+`}}"`), "C16-R2", fname, "hidden "+ps.InputName+" input ["+label+"]", c.P.InstrPos(exec.Instr), "quoted", "no input name="+ps.InputName+" with the quoted {{."+ps.B64Field+"}} value")
				hasRelay := strings.Contains(src, `name="RelayState" value="{{.RelayState}}"`)
				c.check(hasRelay == withRelay, "C16-R2", fname, "RelayState input iff relay state given ["+label+"]", c.P.InstrPos(exec.Instr), fmt.Sprint(withRelay), fmt.Sprintf("RelayState input present=%v on the path where relayState non-empty=%v", hasRelay, withRelay))
				// every action inside a double-quoted attribute value
				for _, m := range regexp.MustCompile(`.?\{\{[^}]*\}\}.?`).FindAllString(src, -1) {
					c.check(strings.HasPrefix(m, `"`) && strings.HasSuffix(m, `"`), "C16-R2", fname, "action "+strings.Trim(m, `"`)+" inside a quoted attribute value ["+label+"]", c.P.InstrPos(exec.Instr), "quoted", "action "+m+" is not delimited by double quotes")
				}
				// R3 wiring
				get := func(f string) string {
					if v, ok := dm.Vals[f]; ok && v != nil {
						return ap(v)
					}
					return "<unset>"
				}
				b64 := "(*encoding/base64.Encoding).EncodeToString(encoding/base64.StdEncoding, (*etree.Document).WriteToBytes(" + docP + ")#0)"
				c.check(get("URL") == ps.URLField, "C16-R3", fname, ".URL <- "+ps.URLField+" ["+label+"]", pos, "wired", ".URL is "+get("URL")+", want "+ps.URLField)
				b64got := get(ps.B64Field)
				if wb := "(*etree.Document).WriteToBytes(" + docP + ")#0"; b64got == `""` && (atoms["!(0 < len("+wb+"))"] || atoms["len("+wb+") == 0"] || atoms["len("+wb+") < 1"]) {
					// `if len(buf) > 0 { enc = base64(buf) }`: the base64 text of no bytes is the empty string
					b64got = b64
				}
				c.check(b64got == b64, "C16-R3", fname, "."+ps.B64Field+" <- base64(document) ["+label+"]", pos, "wired", "."+ps.B64Field+" is "+get(ps.B64Field))
				if withRelay || inTemplate {
					c.check(get("RelayState") == relay, "C16-R3", fname, ".RelayState <- relayState ["+label+"]", pos, "wired", ".RelayState is "+get("RelayState"))
				}
				if inTemplate && pass == 1 {
					n++ // one Go path, two rendered forms
				}
			}
		}
		c.count("C16/accepting "+fname, n)
		c.floor("C16/accepting "+fname, 2)
	}
	// BuildAuthBodyPost document choice
	bp := c.kernel("(*SAMLServiceProvider).BuildAuthBodyPost")
	if bp != nil {
		for _, t := range bp.Terms {
			a := t.atoms()
			signed := len(t.calls("(*SAMLServiceProvider).BuildAuthRequestDocument")) > 0 && len(t.calls("BuildAuthRequestDocumentNoSig")) == 0
			unsigned := len(t.calls("(*SAMLServiceProvider).BuildAuthRequestDocumentNoSig")) > 0
			switch {
			case a["SP.SignAuthnRequests"]:
				c.check(signed && !unsigned, "C16-R3", shortFn(bp.Root), "signed document when SignAuthnRequests", c.P.InstrPos(t.Instr), "BuildAuthRequestDocument", "SignAuthnRequests is set but the POST body is built from the unsigned document")
			case a["!(SP.SignAuthnRequests)"]:
				c.check(unsigned, "C16-R3", shortFn(bp.Root), "unsigned document otherwise", c.P.InstrPos(t.Instr), "BuildAuthRequestDocumentNoSig", "POST body uses the signed builder although signing is off")
			}
		}
	}
	// package identity across the library: text/template must not be used to render output
	scanCalls(c.P, c.P.LibFns, func(s string) bool {
		return strings.HasPrefix(s, "text/template.") || strings.HasPrefix(s, "(*text/template.")
	}, func(s callSite) {
		c.bad("C16-R1", shortFn(s.Caller), "call "+s.Callee, c.P.InstrPos(s.Instr), "text/template used in library scope: output is not HTML-escaped")
	})
	fired := 0
	scanCalls(c.P, controlFns(c, "texttemplate"), func(s string) bool {
		return strings.HasPrefix(s, "text/template.") || strings.HasPrefix(s, "(*text/template.")
	}, func(s callSite) { fired++ })
	c.Controls["C16-R1 texttemplate"] = fired > 0
	if fired == 0 {
		c.bad("C16-R1", "controls/texttemplate", "positive control", "-", "matcher did not flag the control that renders with text/template")
	}
}

// signPlacement (C13-R1, shared as C15-R5): each Sign* returns a copy whose children are exactly
// [Child[0], signature, Child[1:]...] — the signature directly after the Issuer and every built child kept once, in order.
func signPlacement(c *Ctx, rule string) {
	var shapes []string
	shapeOf := map[string]map[string]bool{}
	for _, fn := range []string{"(*SAMLServiceProvider).SignAuthnRequest", "(*SAMLServiceProvider).SignLogoutRequest", "(*SAMLServiceProvider).SignLogoutResponse"} {
		res := c.kernel(fn, "*", "-(*SAMLServiceProvider).SigningContext")
		if res == nil {
			continue
		}
		fname := shortFn(res.Root)
		for _, t := range res.Terms {
			if !t.accepting(res.Root) {
				continue
			}
			pos := c.P.InstrPos(t.Instr)
			ret := "(*etree.Element).Copy($el)"
			sig := "(*dsig.SigningContext).ConstructSignature((*SAMLServiceProvider).SigningContext(SP), $el, true)#0"
			c.check(ap(t.Vals[0]) == ret, rule, fname, "returns a copy of the element", pos, ret, "returns "+ap(t.Vals[0]))
			var childStore *Event
			inserted := false
			for _, e := range t.St.events {
				if e.Kind == EvStore {
					if fa, ok := e.Addr.(*FieldAddrV); ok && fa.Name == "Child" && ap(fa.X) == ret {
						childStore = e
					}
				}
				if e.Kind == EvCall && shortName(e.Callee) == "(*etree.Element).InsertChildAt" && ap(e.Args[0]) == ret && ap(e.Args[1]) == "1" && ap(e.Args[2]) == sig {
					inserted = true
				}
			}
			want := ret + ".Child[0] , " + sig + " , " + ret + ".Child[1:]..."
			got := ""
			if childStore != nil {
				got = strings.Join(seqSegments(t, childStore.Val), " , ")
			}
			// `if len(ret.Child) > 1 { append(ret.Child[1:]...) }`: on the path without the append the tail is empty
			if a := t.atoms(); got == ret+".Child[0] , "+sig && (a["!(1 < len("+ret+".Child))"] || a["len("+ret+".Child) < 2"] || a["len("+ret+".Child) == 1"]) {
				got = want
			}
			c.check(inserted || got == want, rule, fname, "signature inserted at child index 1 of the copy", pos, "[Child[0], sig, Child[1:]...]",
				"signature placement is ["+got+"], want ["+want+"] (immediately after the Issuer, every other child kept)")
			if shapeOf[fname] == nil {
				shapeOf[fname] = map[string]bool{}
			}
			shapeOf[fname][got] = true
			sigOK, k := false, false
			for _, e := range t.calls("(*dsig.SigningContext).ConstructSignature") {
				sigOK, k = t.eqFact(e.Res[1], nilOf(nil))
				c.check(ap(e.Args[2]) == "true", rule, fname, "enveloped signature", c.P.InstrPos(e.Instr), "enveloped=true", "ConstructSignature called with enveloped="+ap(e.Args[2]))
			}
			c.check(sigOK && k, rule, fname, "signature construction error checked", pos, "err == nil", "returns a signed element although ConstructSignature's error is not known nil")
		}
	}
	for _, fn := range sortedKeys(shapeOf) {
		shapes = append(shapes, strings.Join(sortedStrings(shapeOf[fn]), " / "))
	}
	same := len(shapes) == 3 && shapes[0] == shapes[1] && shapes[1] == shapes[2]
	c.check(same, rule, "Sign*", "the three Sign* functions agree", "-", "identical placement", fmt.Sprintf("sibling Sign* functions place the signature differently: %v", shapes))
	c.count(rule+"/sign-functions", len(shapes))
	c.floor(rule+"/sign-functions", 3)

}

// seqSegments renders a slice value assembled by append chains / slice literals / re-slicing as its ordered segments:
// single elements and spreads "X[lo:hi]...". X[:1] of a slice is the single element X[0]. Anything else is one opaque
// segment, so two assemblies of the same sequence compare equal whatever the statements that built them.
func seqSegments(t *Terminal, v Val) []string {
	switch x := v.(type) {
	case *ConstV:
		if isNilConst(x) {
			return nil
		}
	case *AllocV:
		if x.Comment != "makeslice" {
			break
		}
		ln, ok := t.St.heap["len:"+x.Key()]
		if !ok {
			break
		}
		if isConstInt(ln.val, 0) {
			return nil // make([]T, 0, n): empty, whatever the capacity
		}
		// make([]T, n) filled by index stores [0..k) and one copy(a[k:], src) with n == k + len(src)
		cs, ok := t.St.heap["copyseg:"+x.Key()]
		if !ok {
			break
		}
		k, _ := constInt(cs.val.(*TupleV).Vals[0])
		src := cs.val.(*TupleV).Vals[1]
		if k > 16 || !lenAddsUp(ln.val, k, src) {
			break
		}
		var out []string
		for i := int64(0); i < k; i++ {
			cl, ok := t.St.heap[mkIndexAddr(x, intV(i), nil).Key()]
			if !ok {
				return []string{ap(v) + "..."}
			}
			out = append(out, ap(stripIface(cl.val)))
		}
		return append(out, seqSegments(t, src)...)
	case *AppendV:
		out := seqSegments(t, x.S)
		if x.Spread {
			for _, e := range x.Elems {
				out = append(out, seqSegments(t, e)...)
			}
			return out
		}
		for _, e := range x.Elems {
			out = append(out, ap(stripIface(e)))
		}
		return out
	case *SliceV:
		// slice literal: X[:] over a fresh array whose elements are in the heap
		if a, ok := x.X.(*AllocV); ok && x.Lo == nil && x.Hi == nil {
			if p, ok := a.Type().Underlying().(*types.Pointer); ok {
				if arr, ok := p.Elem().Underlying().(*types.Array); ok && arr.Len() <= 16 {
					var out []string
					for i := int64(0); i < arr.Len(); i++ {
						cl, ok := t.St.heap[mkIndexAddr(a, intV(i), nil).Key()]
						if !ok {
							return []string{ap(v) + "..."}
						}
						out = append(out, ap(stripIface(cl.val)))
					}
					return out
				}
			}
		}
		lo, hi := int64(0), int64(-1)
		if x.Lo != nil {
			if k, ok := constInt(x.Lo); ok {
				lo = k
			} else {
				return []string{ap(v) + "..."}
			}
		}
		if x.Hi != nil {
			if k, ok := constInt(x.Hi); ok {
				hi = k
			} else {
				return []string{ap(v) + "..."}
			}
		}
		if hi >= 0 && hi-lo <= 8 {
			var out []string
			for i := lo; i < hi; i++ {
				out = append(out, fmt.Sprintf("%s[%d]", ap(x.X), i))
			}
			return out
		}
	}
	return []string{ap(v) + "..."}
}

// issuerFirst (shared with C15-R4): on every accepting path of the three builders the first child created on the root
// is saml:Issuer, unconditionally — Sign* inserts the signature at index 1, i.e. "immediately after the Issuer"
// only if the Issuer is always there.
func issuerFirst(c *Ctx, rule string) {
	n := 0
	for _, br := range builderRuns(c) {
		ds, res := br.ds, br.res
		_ = ds
		fname := shortFn(res.Root)
		for _, t := range res.Terms {
			if !t.accepting(res.Root) {
				continue
			}
			root, _ := docModel(t)
			if root == nil {
				continue
			}
			n++
			first := ""
			if len(root.Children) > 0 {
				first = root.Children[0].tagString()
			}
			c.check(first == "saml:Issuer", rule, fname, "Issuer is the first child on every path", c.P.InstrPos(t.Instr), "saml:Issuer first (the signature is inserted at index 1)", "first child built is "+first+": the signature inserted at index 1 does not follow an Issuer")
			// the element that gets signed carries its namespace prefix in Space and its local name in Tag: goxmldsig's
			// exclusive canonicaliser decides which xmlns declarations are "visibly used" from Space; a prefix folded
			// into Tag serialises identically but loses its declaration under exc-c14n, and the signature no longer verifies
			sp, okS := constString(root.Space)
			lc, okL := constString(root.Local)
			c.check(okS && okL && sp == ds.Space && lc == ds.Local && !strings.Contains(lc, ":"), rule, fname, "signed root: prefix in Space, local name in Tag", c.P.InstrPos(t.Instr), ds.Space+" / "+ds.Local,
				"the root element is built as Space="+ap(root.Space)+" Tag="+ap(root.Local)+": with an exclusive canonicaliser the prefix declaration is dropped from the signed form")
		}
	}
	c.count(rule+"/builder-paths", n)
	c.floor(rule+"/builder-paths", 3)
}

type tmplData struct {
	Types map[string]string // name -> type of the field / map value
	Vals  map[string]Val    // name -> final value
}

// templateData flattens what ".Name" resolves to in the data given to Execute.
func templateData(t *Terminal, data Val) (*tmplData, bool) {
	rd := newReader(t)
	dm := &tmplData{Types: map[string]string{}, Vals: map[string]Val{}}
	// map[string]string literal with constant keys
	if a, ok := data.(*AllocV); ok && a.Comment == "makemap" {
		mt, isMap := a.Type().Underlying().(*types.Map)
		if !isMap || typeStr(mt.Key()) != "string" {
			return nil, false
		}
		if _, dirty := t.St.dirty[a.Key()]; dirty {
			return nil, false
		}
		if _, sym := t.St.heap["mapsym:"+a.Key()]; sym {
			return nil, false
		}
		pfx := "mapkey:" + a.Key() + "["
		for hk, kc := range t.St.heap {
			if !strings.HasPrefix(hk, pfx) {
				continue
			}
			k, isC := constString(kc.val)
			if !isC {
				return nil, false
			}
			dm.Types[k] = typeStr(mt.Elem())
			if vc, ok := t.St.heap["map:"+strings.TrimPrefix(hk, "mapkey:")]; ok {
				dm.Vals[k] = vc.val
			}
		}
		return dm, true
	}
	dataT := data.Type()
	if pt, isPtr := dataT.Underlying().(*types.Pointer); isPtr {
		dataT = pt.Elem()
	}
	var walk func(v Val, tp types.Type, depth int) bool
	walk = func(v Val, tp types.Type, depth int) bool {
		st, ok := tp.Underlying().(*types.Struct)
		if !ok || depth > 3 {
			return false
		}
		for i := 0; i < st.NumFields(); i++ {
			f := st.Field(i)
			fv := rd.field(v, f.Name())
			if f.Embedded() {
				et := f.Type()
				if p, isPtr := et.Underlying().(*types.Pointer); isPtr {
					et = p.Elem()
				}
				if _, isStruct := et.Underlying().(*types.Struct); isStruct {
					// promoted fields (shallower names win: filled only if not yet present)
					sub := &tmplData{Types: map[string]string{}, Vals: map[string]Val{}}
					save := dm
					dm = sub
					walk(fv, et, depth+1)
					dm = save
					for k, ty := range sub.Types {
						if _, dup := dm.Types[k]; !dup {
							dm.Types[k], dm.Vals[k] = ty, sub.Vals[k]
						}
					}
					continue
				}
			}
			dm.Types[f.Name()] = typeStr(f.Type())
			dm.Vals[f.Name()] = fv
		}
		return true
	}
	if !walk(data, dataT, 0) {
		return nil, false
	}
	return dm, true
}

// wholeCopyOf: ret points to a fresh array whose content is one whole-array copy of arr, taken after the last store into
// arr on this path, element for element.
func wholeCopyOf(t *Terminal, ret, arr Val) bool {
	ra, ok := ret.(*AllocV)
	if !ok {
		return false
	}
	var cp *Event
	lastArr := -1
	for _, e := range t.St.events {
		if e.Kind != EvStore {
			continue
		}
		if e.Addr.Key() == ra.Key() {
			if cp != nil {
				return false
			}
			cp = e
		} else if db := directBase(e.Addr); db != nil && db.Key() == ra.Key() {
			return false // the copy is written element-wise afterwards
		}
		if db := directBase(e.Addr); db != nil && db.Key() == arr.Key() {
			lastArr = e.Seq
		}
	}
	if cp == nil || cp.Seq < lastArr {
		return false
	}
	v := cp.Val
	for {
		if cv, ok := v.(*ConvV); ok {
			v = cv.X
			continue
		}
		break
	}
	if l, isLoad := v.(*LoadV); isLoad && l.Addr.Key() == arr.Key() {
		return true // whole-array read of arr after its last write (checked above)
	}
	lit, ok := v.(*ArrayLitV)
	if !ok {
		return false
	}
	rd := newReader(t)
	pt, ok := arr.Type().Underlying().(*types.Pointer)
	if !ok {
		return false
	}
	at, ok := pt.Elem().Underlying().(*types.Array)
	if !ok || int(at.Len()) != len(lit.Elems) {
		return false
	}
	for i, e := range lit.Elems {
		cur := rd.en.load(t.St, mkIndexAddr(arr, intV(int64(i)), at.Elem()), at.Elem())
		if cur.Key() != e.Key() {
			return false
		}
	}
	return true
}

// lenAddsUp: n == k + len(src), for n of the form len(X) or len(X)+c and src of the form X or X[j:].
func lenAddsUp(n Val, k int64, src Val) bool {
	base := func(v Val) (string, int64, bool) {
		switch x := v.(type) {
		case *CallV:
			if x.Callee == "len" && len(x.Args) == 1 {
				return x.Args[0].Key(), 0, true
			}
		case *BinV:
			if x.Op == token.ADD {
				if c, isC := constInt(x.Y); isC {
					if l, isL := x.X.(*CallV); isL && l.Callee == "len" && len(l.Args) == 1 {
						return l.Args[0].Key(), c, true
					}
				}
				if c, isC := constInt(x.X); isC {
					if l, isL := x.Y.(*CallV); isL && l.Callee == "len" && len(l.Args) == 1 {
						return l.Args[0].Key(), c, true
					}
				}
			}
		}
		return "", 0, false
	}
	nk, nc, ok := base(n)
	if !ok {
		return false
	}
	sk, j := src.Key(), int64(0)
	if sl, isS := src.(*SliceV); isS && sl.Hi == nil && sl.Max == nil {
		sk = sl.X.Key()
		if sl.Lo != nil {
			c, isC := constInt(sl.Lo)
			if !isC {
				return false
			}
			j = c
		}
	}
	return nk == sk && nc == k-j
}

// derefCopies rewrites pure reads through a local by-value copy into reads of the original: f(&local) with
// local := *p (unmodified up to the call, f a deterministic contract function of the pointee) becomes f(p). The value
// is the same; only the spelling differs.
func derefCopies(t *Terminal, v Val) Val {
	switch x := v.(type) {
	case *BinV:
		a, b := derefCopies(t, x.X), derefCopies(t, x.Y)
		if a != x.X || b != x.Y {
			return mkBin(x.Op, a, b, x.Type())
		}
	case *CallV:
		ct := lookupContract(x.Callee)
		if ct == nil || !ct.Det || len(x.Args) == 0 {
			return v
		}
		loc, isLocal := x.Args[0].(*AllocV)
		if !isLocal {
			return v
		}
		for _, e := range t.St.events {
			if e.Kind == EvCall && e.Callee == x.Callee && len(e.Args) > 0 && e.Args[0].Key() == loc.Key() && len(e.Res) > x.Idx && e.Res[x.Idx].Key() == x.Key() {
				if cp, ok := wholeCopyValAt(t, loc, e.Seq); ok {
					if l, isLoad := cp.(*LoadV); isLoad {
						args := append([]Val{l.Addr}, x.Args[1:]...)
						return mkCall(x.Callee, x.Fn, args, x.Site, x.Idx, x.N, x.Type())
					}
				}
				break
			}
		}
	}
	return v
}

// bufferReadOnly: bytes.Buffer methods that leave the content alone (Grow only reserves capacity).
var bufferReadOnly = map[string]bool{
	"(*bytes.Buffer).Bytes": true, "(*bytes.Buffer).Len": true, "(*bytes.Buffer).Cap": true, "(*bytes.Buffer).String": true,
	"(*bytes.Buffer).Grow": true, "(*bytes.Buffer).Available": true,
}

// plainAttrName: an unprefixed XML name that declares no namespace.
func plainAttrName(n string) bool {
	if n == "" || n == "xmlns" || strings.Contains(n, ":") {
		return false
	}
	for i, r := range n {
		letter := r == '_' || (r >= 'A' && r <= 'Z') || (r >= 'a' && r <= 'z')
		if !(letter || (i > 0 && (r == '-' || r == '.' || (r >= '0' && r <= '9')))) {
			return false
		}
	}
	return true
}


// readBackFrom: v is computed through a load whose address is not rooted in a local variable of the same function (a
// field of a record a callee returned, of the receiver, of a map element, of a global). Returns a description, or "".
func readBackFrom(v ssa.Value, depth int, seen map[ssa.Value]bool) string {
	if v == nil || depth > 8 || seen[v] {
		return ""
	}
	seen[v] = true
	switch x := v.(type) {
	case *ssa.UnOp:
		if x.Op == token.MUL {
			var base ssa.Value = x.X
			for {
				switch a := base.(type) {
				case *ssa.FieldAddr:
					base = a.X
					continue
				case *ssa.IndexAddr:
					base = a.X
					continue
				}
				break
			}
			switch b := base.(type) {
			case *ssa.Alloc:
				return ""
			case *ssa.FreeVar:
				return ""
			default:
				return "memory reached through " + b.Name() + " (" + typeStr(b.Type()) + ")"
			}
		}
		return readBackFrom(x.X, depth+1, seen)
	case *ssa.BinOp:
		if r := readBackFrom(x.X, depth+1, seen); r != "" {
			return r
		}
		return readBackFrom(x.Y, depth+1, seen)
	case *ssa.Phi:
		for _, e := range x.Edges {
			if r := readBackFrom(e, depth+1, seen); r != "" {
				return r
			}
		}
	case *ssa.Convert:
		return readBackFrom(x.X, depth+1, seen)
	case *ssa.ChangeType:
		return readBackFrom(x.X, depth+1, seen)
	case *ssa.Extract:
		return readBackFrom(x.Tuple, depth+1, seen)
	}
	return ""
}
