package main

// C07 (encryption confers no trust; decryption bound to the SP key) and C12 (bounded decompression).

import (
	"go/token"
	"fmt"
	"go/types"
	"sort"
	"strconv"
	"strings"

	"golang.org/x/tools/go/ssa"
)

func mentions(v Val, key string) bool {
	return containsVal(v, func(x Val) bool { return x.Key() == key })
}

func argsMention(e *Event, key string) bool {
	for _, a := range e.Args {
		if mentions(a, key) {
			return true
		}
	}
	return false
}

// directArg: one of the call's arguments is the value itself (possibly wrapped in an interface / conversion / reslice).
func directArg(e *Event, key string) bool {
	for _, a := range e.Args {
		if isDirect(a, key) {
			return true
		}
	}
	return false
}

func isDirect(a Val, key string) bool {
	for {
		if a.Key() == key {
			return true
		}
		switch x := a.(type) {
		case *MakeIfaceV:
			a = x.X
		case *ConvV:
			a = x.X
		case *SliceV:
			a = x.X
		default:
			return false
		}
	}
}

// rootKeyOf: key of the value (*etree.Document).Root(doc) on this path ("" if never taken).
func rootKeyOf(t *Terminal, doc Val) string {
	for _, e := range t.St.events {
		if e.Kind == EvCall && shortName(e.Callee) == "(*etree.Document).Root" && e.Args[0].Key() == doc.Key() {
			return e.Res[0].Key()
		}
	}
	return "\x00none"
}

func ruleC07(c *Ctx) {
	c.rule("C07-R1", "decrypted plaintext only re-enters the tree: DecryptBytes' result flows only into parseResponse, the parsed document only into Root(), that root only into AddChild on the element being processed; no store through a parameter")
	c.rule("C07-R2", "order: on the unsigned-Response path the lists are reset, then decryptAssertions(root) succeeds, then the verifying traversal runs over the same root, then Validate; on the signed path decryptAssertions runs on the verified element before it is decoded")
	c.rule("C07-R3", "direct child: the EncryptedAssertion handler returns an error unless element.Parent() == the traversed root")
	c.rule("C07-R4", "recipient guard: every path to an RSA decrypt in DecryptSymmetricKey has X509Data == \"\" or (base64 decode ok and bytes.Equal(cert.Certificate[0], decoded))")
	c.rule("C07-R5", "SP certificate validation: with ValidateEncryptionCert on, accepting paths of getDecryptCert carry non-empty cert, ParseCertificate ok and the closed validity window on the SP clock (truth tables)")
	c.rule("C07-R7", "xmlenc schema table: the fields the decrypting code reads (inline / detached EncryptedKey, its KeyInfo certificate, CipherValue, EncryptionMethod / DigestMethod algorithms) are decoded from the element paths the code assumes, matched by local name without a namespace restriction — a narrowed tag leaves X509Data empty and the recipient check is skipped")
	checkSchemaTableF(c, "C07-R7", encSchemaTable, true, 11)
	c.rule("C07-R8", "the certificate that is compared with the named recipient and checked for validity is the one of the key that decrypts: getDecryptCert selects its key store exactly like GetEncryptionCertBytes / the published metadata in all field / setter configurations (shared key-source decision tables, C11-R3) — a stale field key used next to a setter key accepts an EncryptedKey addressed to the old certificate")
	tableAgreement(c, "C07-R8", encryptionSelectors(c), 4)
	c.rule("C07-R6", "who-may-call: decrypt routines are called only from decryptAssertions (and each other) with the certificate produced by getDecryptCert")

	// --- R1, R3 on decryptAssertions
	da := c.kernel("(*SAMLServiceProvider).decryptAssertions", "*", "-(*SAMLServiceProvider).getDecryptCert", "-types.(*EncryptedAssertion).DecryptBytes", "-parseResponse")
	if da != nil {
		fname := shortFn(da.Root)
		nIter := 0
		certStores := map[string]bool{}
		traversalAlwaysRuns(c, "C07-R3", da, "EncryptedAssertion")
		freshTargetsInHandlers(c, "C07-R3", da)
		for _, t := range da.Terms {
			for _, e := range t.St.events {
				if e.Kind == EvIterEnter {
					nIter++
					checkDirectChild(c, "C07-R3", t, fname, e)
				}
				if e.Kind == EvStore {
					root := rootOf(e.Addr)
					if _, isParam := root.(*ParamV); isParam {
						c.bad("C07-R1", fname, "store through parameter "+apLval(e.Addr), c.P.InstrPos(e.Instr), "decryptAssertions writes through its parameters: "+apLval(e.Addr))
					}
					if a, ok := e.Addr.(*AllocV); ok && a.Comment == "decryptCert" {
						certStores[ap(e.Val)] = true
					}
				}
			}
			// flows
			for _, e := range t.St.events {
				if e.Kind != EvCall {
					continue
				}
				if !strings.HasSuffix(shortName(e.Callee), "(*types.EncryptedAssertion).DecryptBytes") {
					continue
				}
				raw := e.Res[0]
				pos := c.P.InstrPos(e.Instr)
				okFlow := true
				var doc Val
				for _, u := range t.St.events {
					if u.Seq <= e.Seq || u.Kind != EvCall || !directArg(u, raw.Key()) {
						continue
					}
					if shortName(u.Callee) == "parseResponse" && u.Kind == EvCall && u.Args[0].Key() == raw.Key() {
						doc = u.Res[0]
						continue
					}
					if shortName(u.Callee) == "fmt.Errorf" {
						continue
					}
					okFlow = false
					c.bad("C07-R1", fname, "plaintext flows into "+shortName(u.Callee), c.P.InstrPos(u.Instr), "decrypted plaintext reaches "+shortName(u.Callee)+" instead of only being parsed back into the tree")
				}
				for _, s := range t.stores() {
					if isDirect(s.Val, raw.Key()) {
						okFlow = false
						c.bad("C07-R1", fname, "plaintext stored to "+apLval(s.Addr), c.P.InstrPos(s.Instr), "decrypted plaintext is stored instead of re-entering the tree")
					}
				}
				if doc != nil {
					added := false
					for _, u := range t.St.events {
						if u.Kind != EvCall || !(directArg(u, doc.Key()) || directArg(u, rootKeyOf(t, doc))) {
							continue
						}
						switch shortName(u.Callee) {
						case "(*etree.Document).Root":
						case "(*etree.Element).AddChild":
							if ap(u.Args[0]) == "$el" {
								added = true
							} else {
								okFlow = false
								c.bad("C07-R1", fname, "decrypted root added elsewhere", c.P.InstrPos(u.Instr), "decrypted element added to "+ap(u.Args[0])+" instead of the element being processed")
							}
						case "fmt.Errorf":
						default:
							okFlow = false
							c.bad("C07-R1", fname, "decrypted document flows into "+shortName(u.Callee), c.P.InstrPos(u.Instr), "decrypted document used by "+shortName(u.Callee))
						}
					}
					// only required on paths where the handler went on to succeed
					_ = added
				}
				if okFlow {
					c.ok("C07-R1", fname, "plaintext -> parseResponse -> Root -> AddChild(el)", pos, "no other consumer of the decrypted bytes on this path")
				}
				// R6: certificate argument
				cert := e.Args[1]
				src := ap(cert)
				good := strings.HasPrefix(src, "(*SAMLServiceProvider).getDecryptCert(SP)#0")
				if u, ok := cert.(*UnknownV); ok && strings.Contains(u.Why, "decryptCert") {
					good = true // loop-carried cell: all its stores are checked below
					src = "loop-carried decryptCert"
				}
				c.check(good, "C07-R6", fname, "certificate passed to DecryptBytes", pos, "cert is "+src, "DecryptBytes is given "+src+", not the certificate selected by getDecryptCert")
			}
		}
		for v := range certStores {
			good := v == "nil" || strings.HasPrefix(v, "(*SAMLServiceProvider).getDecryptCert(SP)#0")
			c.check(good, "C07-R6", fname, "stores to the decryptCert cell", "-", "cell holds "+v, "the decryption certificate variable is assigned "+v)
		}
		c.count("C07-R3/handlers", nIter)
		c.count("C07-R1/tree-additions", plaintextProvenance(c, "C07-R1"))
		c.floor("C07-R1/tree-additions", 1)
	}
	c.floor("C07-R3/handlers", 1)

	// --- R2 order in ValidateEncodedResponse
	res := c.kernel(ssoSpec.Entry, inboundInline...)
	if res != nil {
		fname := shortFn(res.Root)
		nU, nS := 0, 0
		for _, t := range res.Terms {
			if !t.accepting(res.Root) {
				continue
			}
			skip, known := skipFact(t)
			if !known || skip {
				continue
			}
			label := labelReturn(c, t)
			pos := c.P.InstrPos(t.Instr)
			var dec, iter, val, reset, unm *Event
			for _, e := range t.St.events {
				switch {
				case e.Kind == EvCall && shortName(e.Callee) == "(*SAMLServiceProvider).decryptAssertions":
					dec = e
				case e.Kind == EvIterEnter && iter == nil:
					iter = e
				case e.Kind == EvCall && shortName(e.Callee) == "(*SAMLServiceProvider).Validate":
					val = e
				case e.Kind == EvStore:
					if fa, ok := e.Addr.(*FieldAddrV); ok && fa.Name == "EncryptedAssertions" {
						reset = e
					}
				case e.Kind == EvCall && e.Callee == "encoding/xml.Unmarshal" && stripIface(e.Args[1]).Key() == t.Vals[0].Key():
					unm = e
				}
			}
			if dec == nil {
				c.bad("C07-R2", fname, "decryptAssertions on every validating path ["+label+"]", pos, "an accepting path with validation enabled never decrypts encrypted assertions")
				continue
			}
			decOK, k := t.eqFact(dec.Res[0], nilOf(nil))
			if !(k && decOK) {
				c.bad("C07-R2", fname, "decryptAssertions result checked ["+label+"]", pos, "accepts without decryptAssertions == nil")
			}
			if strings.Contains(label, "unsigned-root") {
				nU++
				// the reset of the pre-verification lists and the decryption are independent of each other (decryption only
				// touches the tree); both must precede the traversal that appends the verified assertions
				good := reset != nil && val != nil && reset.Seq < val.Seq && dec.Seq < val.Seq
				detail := "reset, decrypt < validate"
				if iter != nil {
					good = good && reset.Seq < iter.Seq && dec.Seq < iter.Seq && iter.Args[0].Key() == dec.Args[1].Key()
					detail = "reset, decrypt(root) < traversal(same root) < validate"
				}
				c.check(good, "C07-R2", fname, "unsigned path order ["+label+"]", pos, detail,
					"on the unsigned-Response path decryption does not precede the verifying traversal over the same root (decrypted assertions would be dropped or left unverified)")
				c.check(provOf(t, dec.Args[1]) == "raw", "C07-R2", fname, "unsigned path decrypts inside the raw root ["+label+"]", pos, "root", "decrypts "+provOf(t, dec.Args[1]))
				for _, d := range decodes(t) {
					if d.Obj.Key() == t.Vals[0].Key() {
						headerBeforeMutation(c, "C07-R2", t, fname, label, d)
					}
				}
			} else {
				nS++
				good := unm != nil && dec.Seq < unm.Seq && provOf(t, dec.Args[1]) == "verified(raw)"
				c.check(good, "C07-R2", fname, "signed path: decrypt the verified element before decoding it ["+label+"]", pos, "decrypt(verified) < decode(verified)",
					"on the signed path decryptAssertions does not run on the verified element before it is decoded")
			}
		}
		c.count("C07-R2/unsigned", nU)
		c.count("C07-R2/signed", nS)
		c.floor("C07-R2/unsigned", 1)
		c.floor("C07-R2/signed", 1)
	}

	// --- R4 recipient guard
	dk := c.kernel("types.(*EncryptedKey).DecryptSymmetricKey", "*")
	if dk != nil {
		fname := shortFn(dk.Root)
		n := 0
		for _, t := range dk.Terms {
			var rsaCalls []*Event
			for _, e := range t.St.events {
				if e.Kind == EvCall && (e.Callee == "crypto/rsa.DecryptOAEP" || e.Callee == "crypto/rsa.DecryptPKCS1v15") {
					rsaCalls = append(rsaCalls, e)
				}
			}
			if len(rsaCalls) == 0 {
				continue
			}
			atoms := map[string]bool{}
			for _, f := range t.St.facts {
				if f.Seq <= rsaCalls[0].Seq {
					atoms[atom(f)] = true
				}
			}
			dec := "(*encoding/base64.Encoding).DecodeString(encoding/base64.StdEncoding, EK.X509Data)"
			empty := atoms[`EK.X509Data == ""`]
			matched := atoms[dec+"#1 == nil"] && (atoms["bytes.Equal(CERT.Certificate[0], "+dec+"#0)"] || atoms["bytes.Equal("+dec+"#0, CERT.Certificate[0])"])
			n++
			if empty || matched {
				c.ok("C07-R4", fname, "recipient certificate guard before "+shortName(rsaCalls[0].Callee), c.P.InstrPos(rsaCalls[0].Instr), "X509Data empty or equal to the SP certificate")
			} else {
				o := c.bad("C07-R4", fname, "recipient certificate guard before "+shortName(rsaCalls[0].Callee), c.P.InstrPos(rsaCalls[0].Instr),
					"a path reaches the RSA key unwrap although the EncryptedKey names a recipient certificate that was not shown equal to the SP certificate")
				o.Path = t.pathDesc(c.P)
			}
			// the key that decrypts is the certificate's private key
			pk := rsaCalls[0].Args[len(rsaCalls[0].Args)-3]
			if rsaCalls[0].Callee == "crypto/rsa.DecryptPKCS1v15" {
				pk = rsaCalls[0].Args[1]
			} else {
				pk = rsaCalls[0].Args[2]
			}
			c.check(strings.HasPrefix(ap(pk), "CERT.PrivateKey.("), "C07-R4/key", fname, "RSA key is cert.PrivateKey", c.P.InstrPos(rsaCalls[0].Instr), ap(pk), "RSA unwrap uses "+ap(pk)+" instead of the SP certificate's private key")
		}
		c.count("C07-R4/rsa-paths", n)
		c.floor("C07-R4/rsa-paths", 4)
	}

	// --- R4b: the EncryptedKey handed to DecryptSymmetricKey is one of the two decoded structs, whole
	keyStructRule(c, "C07-R4/key-struct")

	// --- R5 getDecryptCert
	gc := c.kernel("(*SAMLServiceProvider).getDecryptCert", "*")
	if gc != nil {
		fname := shortFn(gc.Root)
		var on []*Terminal
		nOn := 0
		for _, t := range gc.Terms {
			a := t.atoms()
			if t.accepting(gc.Root) {
				// every accepting path consults the option and returns a certificate built in this call
				c.check(a["SP.ValidateEncryptionCert"] || a["!(SP.ValidateEncryptionCert)"], "C07-R5", fname, "every accept consults ValidateEncryptionCert", c.P.InstrPos(t.Instr), "option tested",
					"a path of getDecryptCert returns a certificate without consulting ValidateEncryptionCert (e.g. a cached certificate): the validity check is skipped")
				_, fresh := t.Vals[0].(*AllocV)
				c.check(fresh, "C07-R5", fname, "returned certificate is built in this call", c.P.InstrPos(t.Instr), ap(t.Vals[0]), "getDecryptCert returns "+ap(t.Vals[0])+", not a certificate assembled (and validated) in this call")
			}
			if !a["SP.ValidateEncryptionCert"] {
				continue
			}
			on = append(on, t)
			if !t.accepting(gc.Root) {
				continue
			}
			nOn++
			pos := c.P.InstrPos(t.Instr)
			// the leaf that was parsed, and proof that it is non-empty
			var pc *Event
			for _, e := range t.St.events {
				if e.Kind == EvCall && e.Callee == "crypto/x509.ParseCertificate" {
					pc = e
				}
			}
			if pc == nil {
				c.bad("C07-R5", fname, "x509.ParseCertificate succeeded", pos, "accepts without parsing the decryption certificate although validation is on")
				continue
			}
			leaf := pc.Args[0]
			okParse, k := t.eqFact(pc.Res[1], nilOf(nil))
			c.check(k && okParse, "C07-R5", fname, "x509.ParseCertificate succeeded", pos, "err == nil", "accepts an unparsable decryption certificate although validation is on")
			b := newBounds(t, -1)
			ln := b.linOf(mkLen(t.St, leaf, types.Typ[types.Int]))
			ln.k--
			c.check(b.prove(ln), "C07-R5", fname, "certificate leaf non-empty", pos, "len(leaf) >= 1 from path facts", "accepts an empty decryption certificate although validation is on")
			// the parsed leaf is the leaf of the certificate that is returned
			want := leafOfReturned(t, t.Vals[0])
			c.check(want != "" && want == ap(leaf), "C07-R5", fname, "validated leaf is the returned certificate's leaf", pos, want, "validity is checked on "+ap(leaf)+" but the certificate returned has leaf "+want)
		}
		c.count("C07-R5/validating-accepts", nOn)
		c.floor("C07-R5/validating-accepts", 2)
		// window truth tables
		var parsedAPs = map[string]bool{}
		for _, t := range on {
			for _, tc := range timeFacts(t) {
				for _, s := range []string{tc.a, tc.b} {
					if strings.HasPrefix(s, "crypto/x509.ParseCertificate(") {
						parsedAPs[s] = true
					}
				}
			}
		}
		for bnd := range parsedAPs {
			rel := func(t *Terminal) bool { return mentionsCmp(t, nowAP, bnd) }
			bb := bnd
			rejected := func(t *Terminal) bool {
				if t.accepting(gc.Root) {
					return false
				}
				for i := len(t.St.facts) - 1; i >= 0; i-- {
					if t.St.facts[i].Forced {
						continue
					}
					tc, ok := isTimeCmpFact(t.St.facts[i])
					return ok && (tc.a == bb || tc.b == bb)
				}
				return false
			}
			switch {
			case strings.HasSuffix(bnd, ".NotBefore"):
				truthTable(c, "C07-R5", fname, "reject outside window: NotBefore", c.P.Pos(gc.Root.Pos()), on, nowAP, bnd, rel, rejected, map[int]bool{-1: true, 0: false, 1: false})
			case strings.HasSuffix(bnd, ".NotAfter"):
				truthTable(c, "C07-R5", fname, "reject outside window: NotAfter", c.P.Pos(gc.Root.Pos()), on, nowAP, bnd, rel, rejected, map[int]bool{-1: false, 0: false, 1: true})
			default:
				c.bad("C07-R5", fname, "window bound "+bnd, "-", "clock compared with an unexpected certificate field")
			}
		}
		nNB, nNA := 0, 0
		for b := range parsedAPs {
			if strings.HasSuffix(b, ".NotBefore") {
				nNB++
			}
			if strings.HasSuffix(b, ".NotAfter") {
				nNA++
			}
		}
		c.count("C07-R5/window-lower-bounds", nNB)
		c.floor("C07-R5/window-lower-bounds", 1)
		c.count("C07-R5/window-upper-bounds", nNA)
		c.floor("C07-R5/window-upper-bounds", 1)
		// every validating accept must have compared against both bounds of the certificate it returns
		for _, t := range on {
			if !t.accepting(gc.Root) {
				continue
			}
			nb, na := false, false
			for _, tc := range timeFacts(t) {
				for _, s := range []string{tc.a, tc.b} {
					nb = nb || strings.HasSuffix(s, ".NotBefore")
					na = na || strings.HasSuffix(s, ".NotAfter")
				}
			}
			c.check(nb && na, "C07-R5", fname, "accept compares the clock with NotBefore and NotAfter", c.P.InstrPos(t.Instr), "both bounds", fmt.Sprintf("a validating accept checks NotBefore=%v NotAfter=%v", nb, na))
		}
	}

	// --- R6 who-may-call
	allowed := map[string]string{
		"(*types.EncryptedAssertion).DecryptBytes":       "(*SAMLServiceProvider).decryptAssertions$1|(*types.EncryptedAssertion).Decrypt",
		"(*types.EncryptedKey).DecryptSymmetricKey":      "(*types.EncryptedAssertion).DecryptBytes",
		"(*types.EncryptedAssertion).Decrypt":            "",
	}
	n := scanCalls(c.P, c.P.LibFns, func(s string) bool { _, ok := allowed[shortName(s)]; return ok }, func(s callSite) {
		var names []string
		for _, a := range strings.Split(allowed[shortName(s.Callee)], "|") {
			if a != "" {
				names = append(names, a, strings.TrimSuffix(a, "$1"))
			}
		}
		okc := len(names) > 0 && c.P.withinOnly(s.Caller, allowNames(names...))
		if !okc && shortName(s.Callee) == "(*types.EncryptedAssertion).DecryptBytes" && isPublicFn(s.Caller) {
			args := s.Instr.Common().Args
			// (a) an exported helper of the type that forwards its caller's certificate: same class as Decrypt
			if recv := s.Caller.Signature.Recv(); recv != nil && typeStr(derefT(recv.Type())) == "types.EncryptedAssertion" && len(args) == 2 {
				if p, isParam := args[1].(*ssa.Parameter); isParam && p.Parent() == s.Caller {
					okc = true
				}
			}
			// (b) an exported provider operation that decrypts with the certificate getDecryptCert selected, on every path
			if !okc && len(s.Caller.Params) > 0 && typeSym(s.Caller.Params[0].Type()) == "SP" {
				if r := c.kernelFn(s.Caller, "*", "-(*SAMLServiceProvider).getDecryptCert", "-types.(*EncryptedAssertion).DecryptBytes"); r != nil {
					seen, good := 0, true
					for _, t := range r.Terms {
						for _, e := range t.calls("(*types.EncryptedAssertion).DecryptBytes") {
							seen++
							if len(e.Args) < 2 || ap(e.Args[1]) != "(*SAMLServiceProvider).getDecryptCert(SP)#0" {
								good = false
							}
						}
					}
					okc = seen > 0 && good
				}
			}
		}
		c.check(okc, "C07-R6", shortFn(s.Caller), "call "+shortName(s.Callee), c.P.InstrPos(s.Instr), "enumerated caller", "decrypt routine called from an unanalysed site")
	})
	c.count("C07-R6/decrypt-call-sites", n)
	c.floor("C07-R6/decrypt-call-sites", 3)
}

// ---------------------------------------------------------------- C12

const defaultMax = 5 * 1024 * 1024

// how maybeDeflate's callers express the requested limit and (when it is not the built-in constant) the default: access
// paths from its parameters, discovered on its own paths and evaluated at every call site by limitOf.
//
// inflateUnit: one function whose paths hold both a decompressor and the decode of what it produced. The tree has one
// (maybeDeflate); a specialised sibling, or the callers of a helper that only inflates and hands the bytes back, are
// units of their own and answer to the same rules.
type inflateUnit struct {
	fn       *ssa.Function
	req, def Val             // how callers express the requested limit / the default (nil: the unit has none)
	limits   map[string]bool // the limits its inflating paths select: "$maxSize", "default" -> "5242880", a constant
}

// handsBackInflated: f returns bytes or a reader — a step that inflates for its callers rather than decoding itself.
func handsBackInflated(f *ssa.Function) bool {
	// a routine that decodes on its own paths is a unit whatever else it returns
	for _, p := range f.Params {
		if isDecoderSig(p.Type()) {
			return false
		}
	}
	if callsDirectly(f, "encoding/xml.Unmarshal", 0) || callsDirectly(f, "(*github.com/beevik/etree.Document).ReadFromBytes", 0) {
		return false
	}
	rs := f.Signature.Results()
	for i := 0; i < rs.Len(); i++ {
		switch ts := typeStr(rs.At(i).Type()); ts {
		case "[]byte", "io.Reader", "io.ReadCloser", "*bytes.Buffer", "*bytes.Reader", "string":
			return true
		}
	}
	return false
}

func discoverInflateUnits(c *Ctx, isDecomp func(string) bool) ([]*inflateUnit, map[*ssa.Function]bool) {
	steps := map[*ssa.Function]bool{}
	seen := map[*ssa.Function]bool{}
	var fns []*ssa.Function
	var add func(f *ssa.Function, depth int)
	add = func(f *ssa.Function, depth int) {
		if f == nil || seen[f] {
			return
		}
		seen[f] = true
		callers := c.P.callerIndex()[f]
		if depth < 3 && handsBackInflated(f) && len(callers) > 0 {
			steps[f] = true
			for cc := range callers {
				add(topFn(cc), depth+1)
			}
			return
		}
		fns = append(fns, f)
	}
	scanCalls(c.P, c.P.LibFns, isDecomp, func(s callSite) { add(topFn(s.Caller), 0) })
	sort.Slice(fns, func(i, j int) bool { return fns[i].String() < fns[j].String() })
	var out []*inflateUnit
	for _, f := range fns {
		out = append(out, &inflateUnit{fn: f, limits: map[string]bool{}})
	}
	return out, steps
}

// decodeAttempt: a call that decodes bytes — the decoder callback, or encoding/xml / etree decoding directly. It yields
// the identity of the decoder, the bytes it is given and its error result.
func decodeAttempt(e *Event) (id string, input Val, ok bool) {
	if e.Kind != EvCall {
		return "", nil, false
	}
	switch {
	case strings.HasPrefix(e.Callee, "dynamic:") && len(e.Args) == 2 && isDecoderSig(e.Args[0].Type()):
		return e.Args[0].Key(), e.Args[1], true
	case e.Callee == "encoding/xml.Unmarshal" && len(e.Args) == 2:
		return e.Callee + " into " + typeStr(e.Args[1].Type()), e.Args[0], true
	case shortName(e.Callee) == "(*etree.Document).ReadFromBytes" && len(e.Args) == 2:
		return shortName(e.Callee), e.Args[1], true
	}
	return "", nil, false
}

func ruleC12(c *Ctx) {
	c.rule("C12-R7", "the inflated bytes reach the decoder as inflated: no append over a prefix of bytes a function did not make anywhere in the inbound cone (shared aliasingAppend)")
	aliasingAppend(c, "C12-R7", c09Roots, true)
	c.rule("C12-R1", "who-may-call: decompressor constructors (flate/zlib/gzip/bzip2/lzw readers) occur exactly once in library scope, inside maybeDeflate (positive control must fire)")
	c.rule("C12-R2", "bounded read: the flate reader flows only into io.LimitReader(r, max+1) with max = parameter, or 5 MiB when the parameter is 0; only the limited reader is read")
	c.rule("C12-R3", "explicit check: the second decoder invocation is reached only with len(out) <= max; the other edge returns a fresh error")
	c.rule("C12-R4", "same decoder: both attempts invoke the same function value; the second attempt's result is returned unchanged; the first attempt sees the caller's bytes")
	c.rule("C12-R6", "decrypted assertions reach the decoder byte for byte: DecryptBytes returns exactly the opened / unpadded plaintext (shared layerArithmetic, also C11-R4) — a compressed plaintext is not reshaped before inflation")
	if db := c.kernel("types.(*EncryptedAssertion).DecryptBytes", "*", "-types.(*EncryptedKey).DecryptSymmetricKey"); db != nil {
		layerArithmetic(c, "C12-R6", db)
	}
	c.rule("C12-R5", "routing: every inbound entry point reaches maybeDeflate; limits: sp.MaximumDecompressedBodySize through parseResponse for validators and decrypted plaintext, the 5 MiB constant for the two pre-decoders")
	isDecomp := func(n string) bool {
		switch n {
		case "compress/flate.NewReader", "compress/flate.NewReaderDict", "compress/zlib.NewReader", "compress/zlib.NewReaderDict",
			"compress/gzip.NewReader", "compress/bzip2.NewReader", "compress/lzw.NewReader":
			return true
		}
		return false
	}
	units, steps := discoverInflateUnits(c, isDecomp)
	unitOf := map[*ssa.Function]*inflateUnit{}
	for _, u := range units {
		unitOf[u.fn] = u
	}
	n := scanCalls(c.P, c.P.LibFns, isDecomp, func(s callSite) {
		tf := topFn(s.Caller)
		c.check(unitOf[tf] != nil || steps[tf], "C12-R1", shortFn(s.Caller), "call "+s.Callee, c.P.InstrPos(s.Instr), "inside an inflate routine that R2–R4 analyse (maybeDeflate, or a sibling / helper of it)", "input is decompressed outside the analysed inflate routines (no size bound)")
	})
	c.count("C12-R1/decompressors", n)
	c.floor("C12-R1/decompressors", 1)
	fired := 0
	scanCalls(c.P, controlFns(c, "rawinflate"), isDecomp, func(s callSite) { fired++ })
	c.Controls["C12-R1 rawinflate"] = fired > 0
	if fired == 0 {
		c.bad("C12-R1", "controls/rawinflate", "positive control", "-", "matcher did not flag the control that inflates without bound")
	}

	nSecond := 0
	for _, u := range units {
		md := c.kernelFn(u.fn, "*")
		if md == nil {
			continue
		}
		fname := shortFn(md.Root)
		// the error result (the helper may also hand back the bytes it decoded)
		errIdx := -1
		for i, rs := 0, md.Root.Signature.Results(); i < rs.Len(); i++ {
			if typeStr(rs.At(i).Type()) == "error" {
				errIdx = i
			}
		}
		if errIdx < 0 {
			c.bad("C12-R4", fname, "error result", c.P.Pos(md.Root.Pos()), "maybeDeflate no longer returns an error")
			errIdx = 0
		}
		for _, t := range md.Terms {
			var fl, lim, ra *Event
			var decs []*Event
			for _, e := range t.St.events {
				if e.Kind != EvCall {
					continue
				}
				switch {
				case isDecomp(e.Callee):
					fl = e
				case e.Callee == "io.LimitReader":
					lim = e
				case e.Callee == "io.ReadAll":
					ra = e
				default:
					if _, _, isDec := decodeAttempt(e); isDec && (fl == nil || ra != nil) {
						decs = append(decs, e)
					}
				}
			}
			pos := c.P.InstrPos(t.Instr)
			if len(decs) == 0 {
				// an entry point that spells the attempts out itself also has the rejections that precede them (the base64
				// layer failed): nothing was inflated and nothing is accepted
				hasDecoderParam := false
				for _, p := range md.Root.Params {
					if isDecoderSig(p.Type()) {
						hasDecoderParam = true
					}
				}
				if !hasDecoderParam && fl == nil && t.Kind == "return" && !t.accepting(md.Root) && errIdx < len(t.Vals) && t.errNonNil(t.Vals[errIdx]) {
					continue
				}
				c.bad("C12-R4", fname, "first attempt", pos, "a path does not invoke the decoder at all")
				continue
			}
			firstOK := false
			d1id, d1in, _ := decodeAttempt(decs[0])
			if strings.HasPrefix(decs[0].Callee, "dynamic:") {
				// the decoder the caller handed in, over the bytes the caller handed in
				if dp, isP := decs[0].Args[0].(*ParamV); isP {
					if _, isFn := dp.Type().Underlying().(*types.Signature); isFn {
						if bp, isP2 := d1in.(*ParamV); isP2 && typeStr(bp.Type()) == "[]byte" {
							firstOK = true
						}
					}
				}
			} else {
				// decoding spelled out in the unit: over the caller's bytes, or their base64 decoding
				switch x := d1in.(type) {
				case *ParamV:
					firstOK = typeStr(x.Type()) == "[]byte"
				case *CallV:
					if x.Idx == 0 && strings.HasSuffix(x.Callee, "Encoding).DecodeString") && len(x.Args) == 2 {
						_, firstOK = x.Args[1].(*ParamV)
					}
				}
			}
			c.check(firstOK, "C12-R4", fname, "first attempt decodes the caller's bytes", c.P.InstrPos(decs[0].Instr), "decoder(data)", "first attempt is "+d1id+"("+ap(d1in)+")")
			if fl == nil {
				// no inflate on this path: the first-attempt success — or a rejection under a negative limit, within which no
				// compressed message lies
				if t.Kind == "return" && errIdx < len(t.Vals) && !t.accepting(md.Root) && t.errNonNil(t.Vals[errIdx]) {
					negLimit := false
					for _, f := range t.St.facts {
						if b, isB := f.Cond.(*BinV); isB && b.Op == token.LSS && f.Pol && isConstInt(b.Y, 0) {
							if p, isP := b.X.(*ParamV); isP && isIntType(p.Type()) {
								negLimit = true
							}
						}
					}
					if negLimit {
						c.ok("C12-R4", fname, "rejection without inflating only under a negative limit", pos, "limit < 0 on the path")
						continue
					}
				}
				r0, k := t.eqFact(decs[0].Res[0], nilOf(nil))
				c.check(t.accepting(md.Root) && k && r0 && len(decs) == 1, "C12-R4", fname, "uncompressed success returns nil", pos, "decoder(data) == nil", "path without inflate is not the plain first-attempt success")
				continue
			}
			flv := fl.Res[0]
			// the limited reader: io.LimitReader(r, n) or the literal &io.LimitedReader{R: r, N: n} it is defined to return
			var limVal, limR, limN Val
			var limInstr ssa.Instruction = fl.Instr
			if ra != nil {
				switch x := stripIface(ra.Args[0]).(type) {
				case *CallV:
					if x.Callee == "io.LimitReader" {
						limVal, limR, limN = x, stripIface(x.Args[0]), x.Args[1]
					}
				case *AllocV:
					if strings.HasSuffix(typeStr(x.Type()), "io.LimitedReader") {
						r, ok1 := t.finalField(x, "R")
						n, ok2 := t.finalField(x, "N")
						if ok1 && ok2 {
							limVal, limR, limN = x, stripIface(r), n
						}
					}
				}
			}
			if lim != nil {
				limInstr = lim.Instr
			}
			// R2: consumers of the flate reader
			okFlow := true
			for _, e := range t.St.events {
				if e.Kind == EvCall && e.Seq > fl.Seq && directArg(e, flv.Key()) && e != lim {
					if sn := shortName(e.Callee); sn == "(io.ReadCloser).Close" || sn == "(io.Closer).Close" {
						continue // closing the decompressor reads nothing
					}
					okFlow = false
					c.bad("C12-R2", fname, "decompressor consumed by "+shortName(e.Callee), c.P.InstrPos(e.Instr), "the decompressor is read by "+shortName(e.Callee)+" without going through the limited reader")
				}
			}
			if limVal == nil || limR == nil || limR.Key() != flv.Key() {
				c.bad("C12-R2", fname, "flate reader wrapped in io.LimitReader", c.P.InstrPos(fl.Instr), "the decompressor is not wrapped in a limited reader (io.LimitReader / io.LimitedReader) that is then the only thing read")
				continue
			}
			// how this path chose its limit: a test "requested == 0" on an integer the caller handed in (a parameter, or a
			// field of a parameter struct); true => the default applies, false => the requested value
			var maxAP string
			var maxVal Val // the limit of this path as a value
			for _, f := range t.St.facts {
				b, isBin := f.Cond.(*BinV)
				if !isBin || b.Op != token.EQL || !isConstInt(b.Y, 0) || !fromParam(b.X) || !isIntType(b.X.Type()) {
					continue
				}
				if u.req == nil {
					u.req = b.X
				}
				if b.X.Key() != u.req.Key() {
					continue
				}
				if f.Pol {
					maxAP = "default"
				} else {
					maxAP, maxVal = "$maxSize", b.X
				}
			}
			// a unit specialised to one limit: N = constant + 1, nothing requested by the caller
			if maxAP == "" && u.req == nil {
				if nb, isAdd := limN.(*BinV); isAdd && nb.Op == token.ADD && isConstInt(nb.Y, 1) {
					if _, isC := constInt(nb.X); isC {
						maxAP = "constant"
					}
				} else if _, isC := constInt(limN); isC {
					maxAP = "constant"
				}
			}
			if maxAP == "" {
				c.bad("C12-R2", fname, "default limit selection", c.P.InstrPos(limInstr), "path does not select the default for a requested limit of 0")
				continue
			}
			// N = limit + 1
			nb, isAdd := limN.(*BinV)
			var lv Val
			if isAdd && nb.Op == token.ADD && isConstInt(nb.Y, 1) {
				lv = nb.X
			} else if k, isC := constInt(limN); isC {
				lv = intV(k - 1)
			}
			wantN := "limit + 1"
			goodN := false
			switch maxAP {
			case "$maxSize":
				goodN = lv != nil && lv.Key() == maxVal.Key()
			case "constant":
				// whatever the constant is, it is the limit of this unit; R5 compares it with what each entry point must apply
				k, _ := constInt(lv)
				goodN, maxAP, maxVal = true, fmt.Sprint(k), lv
			default:
				// the default: the 5 MiB constant, or a value the callers hand in (checked to be that constant at every call site)
				if lv != nil {
					if k, isC := constInt(lv); isC {
						goodN = k == defaultMax
						maxAP = fmt.Sprint(defaultMax)
					} else if fromParam(lv) {
						goodN = true
						if u.def == nil {
							u.def = lv
						}
						goodN = u.def.Key() == lv.Key()
						maxAP = fmt.Sprint(defaultMax)
					}
					maxVal = lv
				}
			}
			c.check(goodN, "C12-R2", fname, "LimitReader bound is max+1 ["+maxAP+"]", c.P.InstrPos(limInstr), "N = "+wantN, "LimitReader bound is "+ap(limN)+", which is not (the limit selected on this path) + 1")
			u.limits[maxAP] = true
			if okFlow {
				c.ok("C12-R2", fname, "only the limited reader is read ["+maxAP+"]", c.P.InstrPos(fl.Instr), "flate reader -> LimitReader -> ReadAll")
			}
			if ra == nil {
				continue
			}
			out := ra.Res[0]
			// R3
			if len(decs) == 2 {
				nSecond++
				d2 := decs[1]
				d2id, d2in, _ := decodeAttempt(d2)
				c.check(d2id == d1id && d2in.Key() == out.Key(), "C12-R4", fname, "second attempt: same decoder over the inflated bytes ["+maxAP+"]", c.P.InstrPos(d2.Instr), "decoder(deflated)", "second attempt is "+d2id+"("+ap(d2in)+")")
				b := newBounds(t, d2.Seq)
				var mx lin
				if maxVal != nil {
					mx = b.linOf(maxVal)
				} else {
					mx = lin{t: map[string]int64{}, k: defaultMax}
				}
				ln := b.linOf(mkLen(t.St, out, types.Typ[types.Int]))
				if b.prove(mx.add(ln, -1)) {
					c.ok("C12-R3", fname, "second decode only with len(out) <= max ["+maxAP+"]", c.P.InstrPos(d2.Instr), "path facts give len(out) <= "+maxAP)
				} else {
					o := c.bad("C12-R3", fname, "second decode only with len(out) <= max ["+maxAP+"]", c.P.InstrPos(d2.Instr), "the inflated data is decoded without the explicit len(out) <= max check")
					o.Path = t.pathDesc(c.P)
				}
				errNil, k := t.eqFact(ra.Res[1], nilOf(nil))
				c.check(k && errNil, "C12-R3", fname, "read error checked before decoding ["+maxAP+"]", c.P.InstrPos(d2.Instr), "ReadAll err == nil", "inflated data decoded although the read error is not known nil")
				same := false
				if t.Kind == "return" && errIdx < len(t.Vals) {
					rv := t.Vals[errIdx]
					same = rv.Key() == d2.Res[0].Key()
					if isNilConst(rv) {
						// `if err != nil { return err }; return nil` hands the decoder's verdict on just the same
						eq, known := t.eqFact(d2.Res[0], nilOf(nil))
						same = known && eq
					}
				}
				c.check(same, "C12-R4", fname, "second attempt's result returned unchanged ["+maxAP+"]", pos, "return decoder(deflated)", "returns "+ap(t.Vals[errIdx]))
			} else if t.Kind == "return" && errIdx < len(t.Vals) {
				// rejecting without second decode: error non-nil
				c.check(t.errNonNil(t.Vals[errIdx]), "C12-R3", fname, "over-limit / read failure returns an error ["+maxAP+"]", pos, ap(t.Vals[errIdx]), "path ends without decoding and without a non-nil error: "+ap(t.Vals[errIdx]))
			}
		}
	}
	c.count("C12-R3/second-decodes", nSecond)
	c.floor("C12-R3/second-decodes", 2)

	// R4c the pre-decoders' callbacks decode the bytes they are handed (second attempt: the inflated ones)
	for _, fn := range []string{"DecodeUnverifiedBaseResponse", "DecodeUnverifiedLogoutResponse"} {
		r := c.kernel(fn, "*")
		if r == nil {
			continue
		}
		for _, t := range r.Terms {
			if t.accepting(r.Root) {
				secondAttemptInput(c, "C12-R4", t, shortFn(r.Root), decodes(t))
			}
		}
	}
	// R4b transparency of the XML decoder closure: fresh document per attempt, screened bytes (shared with C01-R5)
	screenRule(c, "C12-R4/parse")

	// R5 routing and limits — decided on the kernel paths (robust to wrapper helpers): every parseResponse call of the
	// validators and of decryptAssertions passes sp.MaximumDecompressedBodySize; parseResponse hands its own limit on;
	// the pre-decoders pass the 5 MiB constant.
	nSites := 0
	// the inlining set that keeps the inflate units as calls
	unitName := map[string]*inflateUnit{}
	exclUnits := []string{"*"}
	for _, u := range units {
		unitName[shortFn(u.fn)] = u
		exclUnits = append(exclUnits, "-"+shortFn(u.fn))
	}
	// limitOf: the limit kernel <kname> applies — at its calls of <callee> (parseResponse, or "" = any inflate unit), or,
	// when <kname> is itself an inflate unit, the limit its own inflating paths select.
	limitOf := func(kname string, inline []string, callee string, want string) {
		if callee == "" {
			if f := c.P.Fn(kname); f != nil && unitOf[f] != nil {
				u := unitOf[f]
				okAll := len(u.limits) > 0
				for l := range u.limits {
					if l != want && !(u.req != nil && ap(u.req) == want && (l == "$maxSize" || l == fmt.Sprint(defaultMax))) {
						okAll = false
					}
				}
				c.check(okAll, "C12-R5", shortFn(f), "limit applied by "+shortFn(f)+" itself", c.P.Pos(f.Pos()), want, fmt.Sprintf("inflates under the limit(s) %v, want %s", sortedStrings(u.limits), want))
				nSites++
				return
			}
		}
		r := c.kernel(kname, inline...)
		if r == nil {
			return
		}
		seen := 0
		for _, t := range r.Terms {
			for _, e := range t.St.events {
				if (e.Kind != EvCall && e.Kind != EvEnter) || len(e.Args) < 2 {
					continue
				}
				sn := shortName(e.Callee)
				u := unitName[sn]
				if (callee != "" && sn != callee) || (callee == "" && u == nil) {
					continue
				}
				seen++
				var got Val
				if callee != "" {
					got = e.Args[1]
				} else if u.req != nil {
					got = atCallSite(t, u.req, e.Args)
					if u.def != nil {
						d := atCallSite(t, u.def, e.Args)
						c.check(d != nil && ap(d) == fmt.Sprint(defaultMax), "C12-R5", shortFn(r.Root), "default limit handed to "+sn, c.P.InstrPos(e.Instr), fmt.Sprint(defaultMax), "the fallback limit passed is "+apOrNone(d)+", want the 5 MiB default")
					}
				} else {
					// a unit with one built-in limit
					ls := sortedStrings(u.limits)
					if len(ls) == 1 {
						if k, err := strconv.ParseInt(ls[0], 10, 64); err == nil {
							got = intV(k)
						}
					}
				}
				okLimit := got != nil && ap(got) == want
				if !okLimit && got != nil && want == "SP.MaximumDecompressedBodySize" && ap(got) == fmt.Sprint(defaultMax) && t.atoms()[want+" == 0"] {
					// the default applied one call earlier: maybeDeflate would have replaced the 0 by the same constant
					okLimit = true
				}
				c.check(okLimit, "C12-R5", shortFn(r.Root), "limit passed to "+sn, c.P.InstrPos(e.Instr), want, "limit is "+apOrNone(got)+", want "+want)
			}
		}
		what := callee
		if what == "" {
			what = "maybeDeflate"
		}
		if seen == 0 {
			c.bad("C12-R5", shortFn(r.Root), "routes through "+what, c.P.Pos(r.Root.Pos()), "no path of "+shortFn(r.Root)+" reaches "+what)
		} else {
			nSites++
		}
	}
	for _, spec := range []inboundSpec{ssoSpec, loRespSpec, loReqSpec} {
		limitOf(spec.Entry, inboundInline, "parseResponse", "SP.MaximumDecompressedBodySize")
	}
	limitOf("(*SAMLServiceProvider).decryptAssertions", []string{"*", "-(*SAMLServiceProvider).getDecryptCert", "-types.(*EncryptedAssertion).DecryptBytes", "-parseResponse"}, "parseResponse", "SP.MaximumDecompressedBodySize")
	limitOf("parseResponse", exclUnits, "", "$maxSize")
	limitOf("DecodeUnverifiedBaseResponse", exclUnits, "", fmt.Sprint(defaultMax))
	limitOf("DecodeUnverifiedLogoutResponse", exclUnits, "", fmt.Sprint(defaultMax))
	c.count("C12-R5/limit-kernels", nSites)
	c.floor("C12-R5/limit-kernels", 7)
	// no other caller of the routines
	isUnit := func(s string) bool { return unitName[shortName(s)] != nil }
	scanCalls(c.P, c.P.LibFns, isUnit, func(s callSite) {
		if unitOf[topFn(s.Caller)] != nil {
			return // one unit delegating to another: analysed as part of the caller's own paths
		}
		okCaller := c.P.withinOnly(s.Caller, allowNames("parseResponse", "DecodeUnverifiedBaseResponse", "DecodeUnverifiedLogoutResponse"))
		why := "analysed caller"
		u := unitName[shortName(s.Callee)]
		if !okCaller && u != nil && u.req == nil && len(u.limits) == 1 && u.limits[fmt.Sprint(defaultMax)] {
			okCaller, why = true, "the routine has the default limit built in"
		}
		if !okCaller && len(s.Instr.Common().Args) >= 2 {
			// any other caller: the limit it passes is the default, the configured limit, or its own parameter for which the
			// same holds at every call site
			if w, ok := limitArgOK(c.P, s.Caller, s.Instr.Common().Args[1], 0); ok {
				okCaller, why = true, "limit argument is "+w
			}
		}
		c.check(okCaller, "C12-R5", shortFn(s.Caller), "caller of maybeDeflate", c.P.InstrPos(s.Instr), why, "new caller of "+shortName(s.Callee)+": its limit is not analysed")
	})
	scanCalls(c.P, c.P.LibFns, func(s string) bool { return shortName(s) == "parseResponse" }, func(s callSite) {
		okCaller := c.P.withinOnly(s.Caller, allowNames(ssoSpec.Entry, loRespSpec.Entry, loReqSpec.Entry, "(*SAMLServiceProvider).decryptAssertions"))
		if !okCaller && s.Caller.Parent() == nil && !isPublicFn(s.Caller) && len(c.P.callerIndex()[s.Caller]) == 0 {
			okCaller = true // an unexported wrapper nothing in the library calls (kept for the tests): not an entry into the parser
		}
		c.check(okCaller, "C12-R5", shortFn(s.Caller), "caller of parseResponse", c.P.InstrPos(s.Instr), "analysed caller", "new caller of parseResponse: its limit is not analysed")
	})
	// reachability of an inflate routine from each inbound entry point
	for _, r := range c09Roots[:6] {
		f := c.fn(r)
		if f == nil || len(units) == 0 {
			continue
		}
		reach := false
		for _, g := range moduleCone(c.P, []*ssa.Function{f}) {
			if unitOf[g] != nil {
				reach = true
			}
		}
		c.check(reach, "C12-R5", shortFn(f), "entry point routes through maybeDeflate", c.P.Pos(f.Pos()), "reachable in the static call graph", "inbound entry point does not reach an inflate routine: compressed input is not handled (or handled elsewhere)")
	}
	// base64 decode + no other byte->XML decode of caller bytes is C01-R5/R6's who-may-parse
}

func (r *Result) paramVal(i int) Val {
	p := r.Root.Params[i]
	v := &ParamV{Fn: r.Root, Idx: i, Name: p.Name()}
	v.typ = p.Type()
	v.key = p.Name()
	return v
}

// renderOperand renders an ssa operand syntactically: constants, parameters, loads of receiver fields.
func renderOperand(v ssa.Value) string {
	switch x := v.(type) {
	case *ssa.Const:
		if x.Value != nil {
			return x.Value.ExactString()
		}
		return "nil"
	case *ssa.Parameter:
		return "$" + x.Name()
	case *ssa.UnOp:
		if fa, ok := x.X.(*ssa.FieldAddr); ok {
			if st, ok := derefStruct(fa.X.Type()); ok {
				return renderBase(fa.X) + "." + st.Underlying().(*types.Struct).Field(fa.Field).Name()
			}
		}
		return "*" + renderOperand(x.X)
	case *ssa.Convert:
		return renderOperand(x.X)
	case *ssa.ChangeType:
		return renderOperand(x.X)
	}
	return v.Name()
}

func renderBase(v ssa.Value) string {
	switch x := v.(type) {
	case *ssa.Parameter:
		return x.Name()
	case *ssa.UnOp:
		// load of a captured variable / local holding the receiver
		switch y := x.X.(type) {
		case *ssa.FreeVar:
			return y.Name()
		case *ssa.Alloc:
			return y.Comment
		}
	}
	return v.Name()
}

// keyStructRule: DecryptSymmetricKey runs on &ea.EncryptedKey when it has a CipherValue, else on &ea.DetEncryptedKey.
func keyStructRule(c *Ctx, rule string) {
	db := c.kernel("types.(*EncryptedAssertion).DecryptBytes", "*", "-types.(*EncryptedKey).DecryptSymmetricKey")
	if db == nil {
		return
	}
	fname := shortFn(db.Root)
	n := 0
	kinds := map[string]bool{}
	for _, t := range db.Terms {
		for _, e := range t.calls("(*types.EncryptedKey).DecryptSymmetricKey") {
			n++
			a := t.atoms()
			recv := ap(e.Args[0])
			if cp, ok := wholeCopyAt(t, e.Args[0], e.Seq); ok {
				// a local holding a by-value copy of the decoded key element, unmodified since
				recv = "&" + cp
			}
			inline := recv == "&EA.EncryptedKey" && a[`!(EA.EncryptedKey.CipherValue == "")`]
			detached := recv == "&EA.DetEncryptedKey" && a[`EA.EncryptedKey.CipherValue == ""`]
			if inline {
				kinds["inline"] = true
			}
			if detached {
				kinds["detached"] = true
			}
			c.check(inline || detached, rule, fname, "EncryptedKey given to DecryptSymmetricKey", c.P.InstrPos(e.Instr), recv,
				"DecryptSymmetricKey runs on "+recv+": not the inline EncryptedKey (when it has a CipherValue) nor the detached one as decoded — the recipient-certificate field checked may not belong to the key material used, or the detached form is not honoured")
			c.check(ap(e.Args[1]) == "CERT", rule, fname, "certificate given to DecryptSymmetricKey", c.P.InstrPos(e.Instr), "caller's certificate", "key unwrap uses "+ap(e.Args[1]))
		}
	}
	c.check(kinds["inline"] && kinds["detached"], rule, fname, "both EncryptedKey placements are supported", c.P.Pos(db.Root.Pos()), "inline and detached", fmt.Sprintf("supported placements: %v (want inline and detached)", sortedStrings(kinds)))
	c.count(rule, n)
	c.floor(rule, 2)
}

// leafOfReturned: access path of Certificate[0] of the tls.Certificate pointed to by cert at the end of the path.
func leafOfReturned(t *Terminal, cert Val) string {
	a, ok := cert.(*AllocV)
	if !ok {
		return ""
	}
	p := a.Type().Underlying().(*types.Pointer)
	st, ok := p.Elem().Underlying().(*types.Struct)
	if !ok {
		return ""
	}
	idx := fieldIndex(p.Elem(), "Certificate")
	if idx < 0 {
		return ""
	}
	en := &Engine{}
	cf := en.load(t.St, mkFieldAddr(a, idx, p.Elem(), st.Field(idx).Type()), st.Field(idx).Type())
	elemT := st.Field(idx).Type().Underlying().(*types.Slice).Elem()
	leaf := en.load(t.St, mkIndexAddrCanon(cf, intV(0), elemT), elemT)
	return ap(leaf)
}

// traversalAlwaysRuns: the direct-child requirement is enforced inside the traversal handler, so it only means something
// if no path of fn returns success without having run the whole-tree traversal for <tag> over the element it was given
// (a cheap pre-check that looks at direct children only would let nested elements through unexamined).
func traversalAlwaysRuns(c *Ctx, rule string, res *Result, tag string) {
	fname := shortFn(res.Root)
	n := 0
	for _, t := range res.Terms {
		if !t.accepting(res.Root) {
			continue
		}
		n++
		ran := false
		for _, e := range t.St.events {
			if (e.Kind == EvCall || e.Kind == EvIterEnter) && len(e.Args) >= 3 {
				if s, ok := constString(e.Args[2]); ok && s == tag && ap(e.Args[0]) == "$"+res.Root.Params[1].Name() {
					ran = true
				}
			}
		}
		if ran {
			c.ok(rule, fname, "every successful return has traversed the whole element for "+tag, c.P.InstrPos(t.Instr), "NSFindIterate over the parameter on this path")
		} else {
			o := c.bad(rule, fname, "every successful return has traversed the whole element for "+tag, c.P.InstrPos(t.Instr),
				"a path returns success without running the "+tag+" traversal over the element: elements below the top level are never examined, so the direct-child rejection cannot fire")
			o.Path = t.pathDesc(c.P)
		}
	}
	c.count(rule+"/success-paths", n)
	c.floor(rule+"/success-paths", 2)
}

// plaintextProvenance (backward direction of C07-R1): whatever decryptAssertions adds to the tree is the root of
// parseResponse over the very bytes DecryptBytes returned, for the EncryptedAssertion decoded from the element the
// handler is processing. A plaintext taken from anywhere else (a cache keyed by unauthenticated data, a second source)
// puts content into a verified tree that its signature does not cover.
func plaintextProvenance(c *Ctx, rule string) int {
	da := c.kernel("(*SAMLServiceProvider).decryptAssertions", "*", "-(*SAMLServiceProvider).getDecryptCert", "-types.(*EncryptedAssertion).DecryptBytes", "-parseResponse")
	if da == nil {
		return 0
	}
	fname := shortFn(da.Root)
	n := 0
	for _, t := range da.Terms {
		for _, e := range t.St.events {
			if e.Kind != EvCall || len(e.Args) < 2 {
				continue
			}
			sn := shortName(e.Callee)
			if sn != "(*etree.Element).AddChild" && sn != "(*etree.Element).InsertChildAt" && sn != "(*etree.Element).InsertChild" {
				continue
			}
			n++
			child := stripIface(e.Args[len(e.Args)-1])
			pos := c.P.InstrPos(e.Instr)
			what := "element added to the tree is the parsed plaintext of the element being processed"
			fail := func(why string) {
				o := c.bad(rule, fname, what, pos, why)
				o.Path = t.pathDesc(c.P)
			}
			// the parse helper's call behind the added element: its root result, Root() of its document result, or the
			// fields of a small result struct (provOf's vocabulary)
			var pc *CallV
			var find func(v Val, depth int)
			find = func(v Val, depth int) {
				if depth > 3 || pc != nil {
					return
				}
				switch x := v.(type) {
				case *CallV:
					switch shortName(x.Callee) {
					case "parseResponse":
						pc = x
					case "(*etree.Document).Root":
						if len(x.Args) == 1 {
							find(x.Args[0], depth+1)
						}
					}
				case *FieldV:
					find(x.X, depth+1)
				}
			}
			find(child, 0)
			if pc == nil || provOf(t, child) != "raw" || len(pc.Args) == 0 {
				fail("decryptAssertions adds " + ap(child) + " to the tree, which is not the root of a document the parse helper produced on this path")
				continue
			}
			parse := &Event{Args: pc.Args, Seq: e.Seq}
			var dec *Event
			for _, u := range t.St.events {
				if u.Kind == EvCall && u.Seq < parse.Seq && strings.HasSuffix(shortName(u.Callee), "(*types.EncryptedAssertion).DecryptBytes") && len(u.Res) > 0 && u.Res[0].Key() == parse.Args[0].Key() {
					dec = u
				}
			}
			if dec == nil {
				fail("the bytes parsed back into the tree are " + ap(parse.Args[0]) + ", not the result of DecryptBytes on this path")
				continue
			}
			// the EncryptedAssertion that was decrypted is the one decoded from the handler's element
			recv := dec.Args[0]
			src := ""
			for _, d := range decodes(t) {
				if d.Obj.Key() == recv.Key() && d.Ev.Seq < dec.Seq {
					src = d.Prov
				}
			}
			if !strings.Contains(src, "desc(") && !strings.Contains(src, "iter") {
				fail("the decrypted EncryptedAssertion (" + ap(recv) + ") was decoded from " + src + ", not from the element the traversal handed to the handler")
				continue
			}
			c.ok(rule, fname, what, pos, "Root(parseResponse(DecryptBytes(decoded from "+src+")))")
		}
	}
	return n
}

// freshTargetsInHandlers: inside a traversal handler every xml.Unmarshal target is allocated by that very invocation.
// encoding/xml only overwrites what the input mentions; a target kept in the enclosing scope (a struct field, a captured
// variable) hands the previous element's EncryptedKey / DigestMethod / KeyInfo to an element that lacks them.
func freshTargetsInHandlers(c *Ctx, rule string, res *Result) {
	fname := shortFn(res.Root)
	n := 0
	for _, t := range res.Terms {
		for _, e := range t.St.events {
			if e.Kind != EvCall || e.Callee != "encoding/xml.Unmarshal" || len(e.Iters) == 0 {
				continue
			}
			n++
			obj := stripIface(e.Args[1])
			fresh := false
			if a, ok := obj.(*AllocV); ok {
				for _, it := range e.Iters {
					if strings.HasSuffix(it, "/iter") && strings.HasPrefix(a.Site, strings.TrimSuffix(it, "/iter")+"/") {
						fresh = true
					}
				}
			}
			if fresh {
				c.ok(rule, fname, "decode target inside the handler is fresh per element", c.P.InstrPos(e.Instr), "allocated inside the handler invocation")
			} else {
				c.bad(rule, fname, "decode target inside the handler is fresh per element", c.P.InstrPos(e.Instr),
					"the object decoded into ("+ap(obj)+") outlives one handler invocation: encoding/xml merges the next element into it, so fields the next element lacks keep the previous element's values")
			}
		}
	}
	c.count(rule+"/handler-decodes", n)
	c.floor(rule+"/handler-decodes", 1)
}

// wholeCopyAt: v is a local allocation whose content at event seq is an unmodified by-value copy of a single source
// (the last whole store into it, with no partial store afterwards); returns that source's access path.
func wholeCopyAt(t *Terminal, v Val, seq int) (string, bool) {
	src, found := wholeCopyValAt(t, v, seq)
	if !found {
		return "", false
	}
	return ap(src), true
}

func wholeCopyValAt(t *Terminal, v Val, seq int) (Val, bool) {
	a, ok := v.(*AllocV)
	if !ok {
		return nil, false
	}
	var src Val
	found := false
	for _, e := range t.St.events {
		if e.Seq >= seq {
			continue
		}
		switch e.Kind {
		case EvStore:
			switch {
			case e.Addr.Key() == a.Key():
				src, found = e.Val, true
			case rootOf(e.Addr).Key() == a.Key():
				found = false
			}
		case EvCall, EvEnter:
			// handed to a callee in between: it may have been written
			for _, x := range e.Args {
				if x != nil && mayPointTo(x.Type()) && rootOf(x).Key() == a.Key() {
					found = false
				}
			}
		}
	}
	return src, found
}

// fromParam: a parameter of the kernel root or a field (of a field ...) of one.
func fromParam(v Val) bool {
	for {
		switch x := v.(type) {
		case *ParamV:
			return true
		case *FieldV:
			v = x.X
			continue
		case *ConvV:
			v = x.X
			continue
		}
		return false
	}
}

// atCallSite evaluates an access path rooted at a parameter of the callee (param, param.f, param.f.g) on the argument
// values of one call.
func atCallSite(t *Terminal, expr Val, args []Val) Val {
	switch x := expr.(type) {
	case *ParamV:
		if x.Idx < len(args) {
			return args[x.Idx]
		}
	case *ConvV:
		return atCallSite(t, x.X, args)
	case *FieldV:
		base := atCallSite(t, x.X, args)
		if base == nil {
			return nil
		}
		return newReader(t).field(base, x.Name)
	}
	return nil
}

// isDecoderSig: func([]byte) error — the decoder callback of maybeDeflate (other function-typed parameters, e.g. an
// observer, are not decode attempts).
func isDecoderSig(t types.Type) bool {
	if t == nil {
		return false
	}
	sg, ok := t.Underlying().(*types.Signature)
	if !ok || sg.Params().Len() != 1 || sg.Results().Len() != 1 {
		return false
	}
	return typeStr(sg.Params().At(0).Type()) == "[]byte" && typeStr(sg.Results().At(0).Type()) == "error"
}

// limitArgOK: the decompression limit passed at a call site is 0 / the 5 MiB default, the provider's
// MaximumDecompressedBodySize, or the caller's own integer parameter that receives one of those at each of its call sites.
func limitArgOK(p *Prog, caller *ssa.Function, v ssa.Value, depth int) (string, bool) {
	if depth > 3 {
		return "", false
	}
	switch x := v.(type) {
	case *ssa.Const:
		if x.Value != nil && (x.Int64() == 0 || x.Int64() == defaultMax) {
			return "the default", true
		}
	case *ssa.Convert:
		return limitArgOK(p, caller, x.X, depth)
	case *ssa.UnOp:
		if fa, ok := x.X.(*ssa.FieldAddr); ok && x.Op == token.MUL {
			if st, ok := derefStruct(fa.X.Type()); ok && strings.HasSuffix(typeStr(st), "SAMLServiceProvider") && st.Underlying().(*types.Struct).Field(fa.Field).Name() == "MaximumDecompressedBodySize" {
				return "the configured limit", true
			}
		}
	case *ssa.Parameter:
		idx := -1
		for i, q := range caller.Params {
			if q == x {
				idx = i
			}
		}
		cs := p.callerIndex()[caller]
		if idx < 0 || len(cs) == 0 {
			return "", false
		}
		for cc := range cs {
			found := false
			for _, b := range cc.Blocks {
				for _, in := range b.Instrs {
					call, ok := in.(ssa.CallInstruction)
					if !ok || call.Common().StaticCallee() != caller {
						continue
					}
					found = true
					args := call.Common().Args
					if idx >= len(args) {
						return "", false
					}
					if _, ok := limitArgOK(p, cc, args[idx], depth+1); !ok {
						return "", false
					}
				}
			}
			if !found {
				return "", false
			}
		}
		return "the caller's parameter, itself the default or the configured limit at every call site", true
	}
	return "", false
}
