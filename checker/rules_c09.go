package main

// C09: panic-freedom of module code in the cone of the inbound entry points and decrypt routines,
// plus result/error exclusivity at every return of those entry points.

import (
	"fmt"
	"go/token"
	"go/types"
	"sort"
	"strings"

	"golang.org/x/tools/go/ssa"
)

var c09Roots = []string{
	"(*SAMLServiceProvider).ValidateEncodedResponse",
	"(*SAMLServiceProvider).RetrieveAssertionInfo",
	"DecodeUnverifiedBaseResponse",
	"DecodeUnverifiedLogoutResponse",
	"(*SAMLServiceProvider).ValidateEncodedLogoutRequestPOST",
	"(*SAMLServiceProvider).ValidateEncodedLogoutResponsePOST",
	"types.(*EncryptedAssertion).DecryptBytes",
	"types.(*EncryptedAssertion).Decrypt",
	"types.(*EncryptedKey).DecryptSymmetricKey",
}

// cone: module functions reachable from roots through static calls, closures and function values.
func moduleCone(p *Prog, roots []*ssa.Function) []*ssa.Function {
	seen := map[*ssa.Function]bool{}
	var order []*ssa.Function
	var visit func(f *ssa.Function)
	visit = func(f *ssa.Function) {
		if f == nil || seen[f] || f.Blocks == nil || !p.inModule(f) {
			return
		}
		seen[f] = true
		order = append(order, f)
		for _, b := range f.Blocks {
			for _, in := range b.Instrs {
				for _, op := range in.Operands(nil) {
					if op == nil || *op == nil {
						continue
					}
					switch v := (*op).(type) {
					case *ssa.Function:
						visit(v)
					case *ssa.MakeClosure:
						visit(v.Fn.(*ssa.Function))
					}
				}
				if mc, ok := in.(*ssa.MakeClosure); ok {
					visit(mc.Fn.(*ssa.Function))
				}
				// a module type handed out as an interface value (an io.Reader given to a decoder, say): whoever receives it
				// may call any of its methods
				if mi, ok := in.(*ssa.MakeInterface); ok && typeStr(mi.Type()) != "error" && typeStr(mi.Type()) != "interface{}" && typeStr(mi.Type()) != "any" {
					// (an error value or an `any` argument is looked at by the caller of the entry point, after it returned)
					ms := p.SSA.MethodSets.MethodSet(mi.X.Type())
					for i := 0; i < ms.Len(); i++ {
						if m := p.SSA.MethodValue(ms.At(i)); m != nil && m.Blocks != nil && p.inModule(m) && m.Synthetic == "" {
							visit(m)
						}
					}
				}
				if ci, ok := in.(ssa.CallInstruction); ok && ci.Common().IsInvoke() {
					for _, m := range p.moduleImpls(ci.Common()) {
						visit(m)
					}
				}
			}
		}
	}
	for _, r := range roots {
		visit(r)
	}
	sort.Slice(order, func(i, j int) bool { return order[i].String() < order[j].String() })
	return order
}

// sub-kernels of the C09 cone: analysed as their own kernels, never inlined into callers
var c09SubKernels = map[string]bool{
	"(*SAMLServiceProvider).ValidateEncodedResponse": true, "(*SAMLServiceProvider).RetrieveAssertionInfo": true,
	"(*SAMLServiceProvider).ValidateEncodedLogoutRequestPOST": true, "(*SAMLServiceProvider).ValidateEncodedLogoutResponsePOST": true,
	"DecodeUnverifiedBaseResponse": true, "DecodeUnverifiedLogoutResponse": true,
	"(*SAMLServiceProvider).Validate": true, "(*SAMLServiceProvider).ValidateDecodedLogoutResponse": true, "(*SAMLServiceProvider).ValidateDecodedLogoutRequest": true,
	"(*SAMLServiceProvider).VerifyAssertionConditions": true, "(*SAMLServiceProvider).decryptAssertions": true, "(*SAMLServiceProvider).getDecryptCert": true,
	"(*types.EncryptedAssertion).DecryptBytes": true, "(*types.EncryptedAssertion).Decrypt": true, "(*types.EncryptedKey).DecryptSymmetricKey": true,
}

func hasFuncParam(fn *ssa.Function) bool {
	ps := fn.Signature.Params()
	for i := 0; i < ps.Len(); i++ {
		if _, ok := ps.At(i).Type().Underlying().(*types.Signature); ok {
			return true
		}
	}
	return false
}

// intraKernel: path simulation of fn with only its own closures and higher-order helpers inlined.
func (c *Ctx) intraKernel(fn *ssa.Function) *Result {
	key := "intra|" + fn.String()
	if r, ok := c.Kernels[key]; ok {
		return r
	}
	en := NewEngine(c.P)
	en.Inline = func(caller, callee *ssa.Function, depth int) bool {
		if callee.Parent() != nil {
			return true
		}
		// inline every helper except the large sub-kernels, which are analysed on their own and summarised
		// ("non-nil on success", heap-pure); a newly extracted helper is therefore inlined automatically
		return !c09SubKernels[shortFn(callee)]
	}
	res, err := en.Run(fn)
	c.Engines = append(c.Engines, en)
	if err != nil {
		c.undecided("engine", shortFn(fn), "pathwalk", c.P.Pos(fn.Pos()), err.Error())
		c.Kernels[key] = nil
		return nil
	}
	for _, e := range en.Errors {
		c.undecided("engine", shortFn(fn), "pathwalk: "+e, c.P.Pos(fn.Pos()), e)
	}
	c.Kernels[key] = res
	c.KStats[shortFn(fn)] = fmt.Sprintf("%d paths, %d steps", len(res.Terms), res.Steps)
	return res
}

var knownNonNilGlobals = map[string]bool{
	"encoding/base64.StdEncoding": true,
	"encoding/base64.URLEncoding": true,
	"crypto/rand.Reader":          true,
}

type c09 struct {
	c          *Ctx
	retSummary map[string]int // fn|idx -> 0 unknown, 1 non-nil on success, 2 not
	inProgress map[string]bool
	attached   bool
}

func subState(t *Terminal, nfacts int) *State {
	if nfacts > len(t.St.facts) {
		nfacts = len(t.St.facts)
	}
	return &State{facts: t.St.facts[:nfacts]}
}

func (k *c09) errNilFact(st *State, cv *CallV) bool {
	if cv.N < 2 {
		return false
	}
	errV := mkCall(cv.Callee, cv.Fn, cv.Args, cv.Site, cv.N-1, cv.N, nil)
	cnd, pol := normCond(mkBin(token.EQL, errV, nilOf(nil), types.Typ[types.Bool]), true)
	b, known := decide(st, cnd)
	return known && b == pol
}

// nonNil: is pointer/interface/map value v provably non-nil given the first nfacts facts of t?
func (k *c09) nonNil(t *Terminal, nfacts int, v Val) (bool, string) {
	st := subState(t, nfacts)
	switch x := v.(type) {
	case *ParamV:
		return true, "parameter (callers checked at call sites)"
	case *FreeV:
		return true, "captured variable"
	case *IterElemV:
		return true, "element handed to a traversal handler"
	case *MakeIfaceV:
		return true, "interface holding a value"
	case *ConvV:
		return k.nonNil(t, nfacts, x.X)
	}
	if nonNilByConstruction(v) {
		return true, "non-nil by construction"
	}
	cnd, pol := normCond(mkBin(token.EQL, v, nilOf(v.Type()), types.Typ[types.Bool]), true)
	if b, known := decide(st, cnd); known && b != pol {
		return true, "guard " + atom(Fact{Cond: cnd, Pol: !pol})
	}
	switch x := v.(type) {
	case *LoadV:
		if g, ok := x.Addr.(*GlobalV); ok && knownNonNilGlobals[g.G.Pkg.Pkg.Path()+"."+g.G.Name()] {
			return true, "std package variable"
		}
	case *CallV:
		name := strings.TrimSuffix(x.Callee, "$own-error")
		if ct := lookupContract(name); ct != nil {
			for _, i := range ct.OkNonNil {
				if i == x.Idx && k.errNilFact(st, x) {
					return true, "contract: non-nil when its error is nil"
				}
			}
			if shortName(name) == "(*etree.Element).Parent" && len(x.Args) == 1 {
				if _, isIter := x.Args[0].(*IterElemV); isIter && k.attached {
					return true, "traversal roots are document roots, so every visited element has a parent"
				}
			}
		}
		if x.Fn != nil && k.c.P.inModule(x.Fn) && x.Fn.Blocks != nil {
			if k.retNonNil(x.Fn, x.Idx) {
				if errIdx(x.Fn) < 0 || k.errNilFact(st, x) {
					return true, "module function returns non-nil on success"
				}
			}
		}
	}
	return false, ""
}

// retNonNil: every accepting return of fn yields a non-nil result idx.
func (k *c09) retNonNil(fn *ssa.Function, idx int) bool {
	key := fmt.Sprintf("%s|%d", fn.String(), idx)
	if v, ok := k.retSummary[key]; ok {
		return v == 1
	}
	if k.inProgress[key] {
		return false
	}
	k.inProgress[key] = true
	defer delete(k.inProgress, key)
	res := k.c.intraKernel(fn)
	ok := res != nil
	if ok {
		n := 0
		for _, t := range res.Terms {
			if !t.accepting(fn) {
				continue
			}
			n++
			if good, _ := k.nonNil(t, len(t.St.facts), t.Vals[idx]); !good {
				ok = false
			}
		}
		if n == 0 {
			ok = false
		}
	}
	if ok {
		k.retSummary[key] = 1
	} else {
		k.retSummary[key] = 2
	}
	return ok
}

func isPointerLike(t types.Type) bool {
	if t == nil {
		return false
	}
	switch t.Underlying().(type) {
	case *types.Pointer, *types.Map, *types.Signature, *types.Interface, *types.Chan:
		return true
	}
	return false
}

func ruleC09(c *Ctx) {
	c.rule("C09-R1", "index/slice: every Index/IndexAddr/Slice instruction of module code in the cone is in bounds on every path (linear facts from guards, range-loop induction, type ranges, stable getters)")
	c.rule("C09-R2", "nil: every dereference / field address / interface method call / map update in the cone is on a value that is non-nil by construction, by a dominating guard, by contract or by a module-function summary")
	c.rule("C09-R3", "explicit panic, non-comma type assertion, integer division and precondition-bearing std calls (NewCBCDecrypter, CryptBlocks, AEAD.Open, template.Must) are discharged on every path; the only accepted explicit panic is the RemoveChild belief check under Parent()==root")
	c.rule("C09-R4", "every return of the inbound entry points yields exactly one of (non-nil result, non-nil error)")
	var roots []*ssa.Function
	for _, r := range c09Roots {
		if f := c.fn(r); f != nil {
			roots = append(roots, f)
		}
	}
	cone := moduleCone(c.P, roots)
	k := &c09{c: c, retSummary: map[string]int{}, inProgress: map[string]bool{}}
	k.attached = k.checkAttachedRoots()
	nIdx, nNil, nPre, nFn := 0, 0, 0, 0
	isRoot := map[*ssa.Function]bool{}
	for _, r := range roots {
		isRoot[r] = true
	}
	// Kernels: the entry points, the sub-kernels and every exported function of the cone are analysed on their own
	// (pointer parameters assumed non-nil, checked at each module call site). Unexported helpers are inlined into
	// those kernels, so their instructions are checked in every calling context; a helper that was summarised
	// instead of inlined at some site (recursion, depth) is added to the work list and analysed on its own too.
	inCone := map[*ssa.Function]bool{}
	for _, fn := range cone {
		inCone[fn] = true
	}
	var work []*ssa.Function
	queued := map[*ssa.Function]bool{}
	for _, fn := range cone {
		if fn.Parent() != nil || isBoundWrapper(fn) {
			continue // closures and method-value wrappers are analysed inside their parent
		}
		if isRoot[fn] || c09SubKernels[shortFn(fn)] || isPublicFn(fn) {
			work = append(work, fn)
			queued[fn] = true
		}
	}
	covered := map[*ssa.Function]bool{}
	for {
		if len(work) == 0 {
			// anything in the cone that no kernel has entered yet (reached only through values the engine does
			// not resolve) is analysed on its own
			for _, fn := range cone {
				if fn.Parent() == nil && !isBoundWrapper(fn) && !covered[fn] && !queued[fn] {
					queued[fn] = true
					work = append(work, fn)
				}
			}
			if len(work) == 0 {
				break
			}
		}
		fn := work[0]
		work = work[1:]
		res := c.intraKernel(fn)
		if res == nil {
			continue
		}
		for _, t := range res.Terms {
			for _, e := range t.St.events {
				if e.Kind == EvEnter && e.CalleeFn != nil {
					covered[e.CalleeFn] = true
				}
			}
		}
		covered[fn] = true
		if en := c.Engines[len(c.Engines)-1]; en != nil {
			var more []*ssa.Function
			for nf := range en.NotInlined {
				if inCone[nf] && !queued[nf] && nf.Parent() == nil {
					more = append(more, nf)
				}
			}
			sort.Slice(more, func(i, j int) bool { return more[i].String() < more[j].String() })
			for _, nf := range more {
				queued[nf] = true
				work = append(work, nf)
			}
		}
		nFn++
		for _, t := range res.Terms {
			for _, e := range t.St.events {
				if e.Fn == nil || !c.P.inModule(e.Fn) {
					continue
				}
				fname := shortFn(e.Fn)
				pos := c.P.InstrPos(e.Instr)
				switch e.Kind {
				case EvIndex:
					nIdx++
					k.checkIndex(t, e, fname, pos)
				case EvSlice:
					nIdx++
					k.checkSlice(t, e, fname, pos)
				case EvDeref:
					if e.X == nil {
						continue
					}
					if _, triv := e.X.(*AllocV); triv {
						continue
					}
					if _, triv := e.X.(*FieldAddrV); triv {
						continue
					}
					if _, triv := e.X.(*IndexAddrV); triv {
						continue
					}
					if _, triv := e.X.(*GlobalV); triv {
						continue
					}
					if !isPointerLike(e.X.Type()) {
						continue
					}
					nNil++
					what := "deref " + ap(e.X)
					if e.Callee == "invoke" {
						what = "method call on interface " + ap(e.X)
					}
					if s := c.P.exprAt(e.Instr.Pos()); s != "" {
						what = "deref in " + s
					}
					if ok, why := k.nonNil(t, e.NFacts, e.X); ok {
						c.ok("C09-R2", fname, what, pos, why)
					} else {
						o := c.bad("C09-R2", fname, what, pos, "possible nil dereference: "+ap(e.X)+" is not known to be non-nil on this path")
						o.Path = t.pathDesc(c.P)
					}
				case EvMapUpdate:
					nNil++
					if ok, why := k.nonNil(t, e.NFacts, e.X); ok {
						c.ok("C09-R2", fname, "map update "+ap(e.X), pos, why)
					} else {
						c.bad("C09-R2", fname, "map update "+ap(e.X), pos, "assignment to an entry of a possibly nil map")
					}
				case EvMakeSlice:
					nPre++
					k.checkMake(t, e, fname, pos)
				case EvTypeAssert:
					c.bad("C09-R3", fname, "type assertion "+ap(e.X), pos, "type assertion without comma-ok in the inbound cone panics when the dynamic type differs")
				case EvDiv:
					nPre++
					b := newBounds(t, e.Seq)
					d := b.linOf(e.I)
					d.k--
					if b.prove(d) {
						c.ok("C09-R3", fname, "division by "+ap(e.I), pos, "divisor >= 1")
					} else {
						c.bad("C09-R3", fname, "division by "+ap(e.I), pos, "integer division / modulo by a value not known to be non-zero")
					}
				case EvCall:
					k.checkCall(t, e, fname, pos, &nPre, &nNil)
				}
			}
			if t.Kind == "panic" {
				nPre++
				k.checkPanic(t)
			}
			if isRoot[fn] && t.Kind == "return" {
				k.checkReturnShape(t, fn)
			}
		}
	}
	// positive control for the function-value rule (no call through a possibly nil function value exists in the cone today)
	ctlFired := 0
	for _, fn := range controlFns(c, "nilcall") {
		res := c.intraKernel(fn)
		if res == nil {
			continue
		}
		sub := NewCtx(c.P, c.Prop, c.Tier)
		sub.Kernels, sub.KStats = c.Kernels, c.KStats
		k2 := &c09{c: sub, retSummary: map[string]int{}, inProgress: map[string]bool{}}
		var a, b int
		for _, t := range res.Terms {
			for _, e := range t.St.events {
				if e.Kind == EvCall && strings.HasPrefix(e.Callee, "dynamic:") {
					k2.checkCall(t, e, shortFn(fn), c.P.InstrPos(e.Instr), &a, &b)
				}
			}
		}
		for _, o := range sub.Obs {
			if o.Status == "violated" {
				ctlFired++
			}
		}
	}
	c.Controls["C09-R2 nilcall"] = ctlFired > 0
	if ctlFired == 0 {
		c.bad("C09-R2", "controls/nilcall", "positive control", "-", "the function-value rule did not flag the control that calls a map entry without checking it")
	}
	nCov := 0
	for _, fn := range cone {
		if covered[fn] {
			nCov++
		}
	}
	c.count("C09/kernels", nFn)
	c.floor("C09/kernels", 12)
	c.count("C09/functions-in-cone", nCov)
	c.floor("C09/functions-in-cone", 20)
	c.count("C09-R1/index-slice-events", nIdx)
	c.floor("C09-R1/index-slice-events", 14)
	c.count("C09-R2/deref-events", nNil)
	c.floor("C09-R2/deref-events", 25)
	c.count("C09-R3/precondition-events", nPre)
	c.floor("C09-R3/precondition-events", 5)
	c.Extra["cone"] = func() []string {
		var s []string
		for _, f := range cone {
			s = append(s, shortFn(f))
		}
		return s
	}()
}

func (k *c09) checkIndex(t *Terminal, e *Event, fname, pos string) {
	c := k.c
	what := "index " + ap(e.X) + "[" + apIdx(e.I) + "]"
	if s := c.P.exprAt(e.Instr.Pos()); s != "" {
		what = "index " + s
	}
	b := newBounds(t, e.Seq)
	i := b.linOf(e.I)
	var ln lin
	if p, ok := e.X.Type().Underlying().(*types.Pointer); ok {
		if arr, ok := p.Elem().Underlying().(*types.Array); ok {
			ln = lin{t: map[string]int64{}, k: arr.Len()}
		}
	} else if arr, ok := e.X.Type().Underlying().(*types.Array); ok {
		ln = lin{t: map[string]int64{}, k: arr.Len()}
	}
	if ln.t == nil {
		ln = b.linOf(mkLen(t.St, e.X, types.Typ[types.Int]))
	}
	up := ln.add(i, -1)
	up.k--
	if b.prove(i) && b.prove(up) {
		c.ok("C09-R1", fname, what, pos, "0 <= "+ap(e.I)+" < len proven from path facts")
	} else {
		o := c.bad("C09-R1", fname, what, pos, "index may be out of range: no dominating guard establishes 0 <= "+ap(e.I)+" < len("+ap(e.X)+")")
		o.Path = t.pathDesc(c.P)
	}
}

func (k *c09) checkSlice(t *Terminal, e *Event, fname, pos string) {
	c := k.c
	what := "slice " + ap(e.X) + "[" + ap(e.Lo) + ":" + ap(e.Hi) + "]"
	if s := c.P.exprAt(e.Instr.Pos()); s != "" {
		what = "slice " + s
	}
	b := newBounds(t, e.Seq)
	var ln lin
	if p, ok := e.X.Type().Underlying().(*types.Pointer); ok {
		if arr, ok := p.Elem().Underlying().(*types.Array); ok {
			ln = lin{t: map[string]int64{}, k: arr.Len()}
		}
	}
	if ln.t == nil {
		ln = b.linOf(mkLen(t.St, e.X, types.Typ[types.Int]))
	}
	lo := lin{t: map[string]int64{}}
	if e.Lo != nil {
		lo = b.linOf(e.Lo)
	}
	hi := ln
	if e.Hi != nil {
		hi = b.linOf(e.Hi)
	}
	if b.prove(lo) && b.prove(hi.add(lo, -1)) && b.prove(ln.add(hi, -1)) {
		c.ok("C09-R1", fname, what, pos, "0 <= lo <= hi <= len proven from path facts")
	} else {
		o := c.bad("C09-R1", fname, what, pos, "slice bounds may be out of range: path facts do not establish 0 <= "+ap(e.Lo)+" <= "+ap(e.Hi)+" <= len("+ap(e.X)+")")
		o.Path = t.pathDesc(c.P)
	}
}

// checkMake: make([]T, n, m) panics unless 0 <= n <= m and m*sizeof(T) is allocatable. Sizes that are constants or
// lengths of memory that already exists (plus constants) are fine; any other size needs path facts bounding it.
func (k *c09) checkMake(t *Terminal, e *Event, fname, pos string) {
	c := k.c
	what := "make with size " + ap(e.Lo) + " / " + ap(e.Hi)
	if s := c.P.exprAt(e.Instr.Pos()); s != "" {
		what = "allocation " + s
	}
	if ok, why := makeSizeSafe(t, e); ok {
		c.ok("C09-R3", fname, what, pos, why)
	} else {
		o := c.bad("C09-R3", fname, what, pos, "make panics (len/cap out of range) or allocates without bound: "+why)
		o.Path = t.pathDesc(c.P)
	}
}

// makeSizeSafe decides the obligation of a MakeSlice event from the path facts up to it.
func makeSizeSafe(t *Terminal, e *Event) (bool, string) {
	b := newBounds(t, e.Seq)
	ln, cp := b.linOf(e.Lo), b.linOf(e.Hi)
	if !b.prove(ln) {
		return false, "length " + ap(e.Lo) + " is not known to be >= 0"
	}
	if !b.prove(cp.add(ln, -1)) {
		return false, "capacity " + ap(e.Hi) + " is not known to be >= the length"
	}
	existing := true
	for term, coef := range cp.t {
		if coef > 0 && !(strings.HasPrefix(term, "len(") || strings.HasPrefix(term, "cap(") || strings.Contains(term, "base64.Encoding).DecodedLen(") || strings.Contains(term, "base64.Encoding).EncodedLen(")) {
			existing = false // (the base64 length functions are bounded by a small multiple of their argument, a length)
		}
	}
	if existing {
		return true, "size is a constant or the length of existing memory plus a constant"
	}
	lim := lin{t: map[string]int64{}, k: 1 << 31}
	if b.prove(lim.add(cp, -1)) {
		return true, "path facts bound the size by a constant"
	}
	return false, "capacity " + ap(e.Hi) + " comes from data and is not bounded on this path"
}

func (k *c09) checkCall(t *Terminal, e *Event, fname, pos string, nPre, nNil *int) {
	c := k.c
	name := e.Callee
	ct := lookupContract(name)
	short := shortName(name)
	// call through a function value (map entry, field, variable): calling nil panics
	if strings.HasPrefix(name, "dynamic:") && len(e.Args) > 0 {
		*nNil++
		what := "call through function value " + ap(e.Args[0])
		if s := c.P.exprAt(e.Instr.Pos()); s != "" {
			what = "call through function value in " + s
		}
		if ok, why := k.nonNil(t, e.NFacts, e.Args[0]); ok {
			c.ok("C09-R2", fname, what, pos, why)
		} else {
			o := c.bad("C09-R2", fname, what, pos, "the called function value "+ap(e.Args[0])+" is not known to be non-nil on this path (a missing map entry or unset field yields nil, and calling nil panics)")
			o.Path = t.pathDesc(c.P)
		}
		return
	}
	// module callee: pointer and function arguments must be non-nil (callee assumes it)
	if e.CalleeFn != nil && c.P.inModule(e.CalleeFn) {
		for i, a := range e.Args {
			_, isPtr := a.Type().Underlying().(*types.Pointer)
			_, isFn := a.Type().Underlying().(*types.Signature)
			if !isPtr && !isFn {
				continue
			}
			*nNil++
			if ok, why := k.nonNil(t, e.NFacts, a); ok {
				c.ok("C09-R2", fname, fmt.Sprintf("argument %d of %s non-nil", i, short), pos, why)
			} else {
				c.bad("C09-R2", fname, fmt.Sprintf("argument %d of %s non-nil", i, short), pos, "possibly nil pointer "+ap(a)+" passed to "+short+", which dereferences its parameters")
			}
		}
		return
	}
	// external pointer-receiver method on a possibly nil receiver
	if e.CalleeFn != nil && e.CalleeFn.Signature.Recv() != nil && len(e.Args) > 0 {
		if _, isPtr := e.CalleeFn.Signature.Recv().Type().Underlying().(*types.Pointer); isPtr && !(ct != nil && ct.NilSafeRecv) {
			*nNil++
			if ok, why := k.nonNil(t, e.NFacts, e.Args[0]); ok {
				c.ok("C09-R2", fname, "receiver of "+short, pos, why)
			} else {
				o := c.bad("C09-R2", fname, "receiver of "+short, pos, "method "+short+" called on a possibly nil receiver "+ap(e.Args[0]))
				o.Path = t.pathDesc(c.P)
			}
		}
	}
	if ct == nil || ct.Pre == "" {
		return
	}
	*nPre++
	switch short {
	case "crypto/cipher.NewCBCDecrypter":
		// len(iv) == b.BlockSize()
		b := newBounds(t, e.Seq)
		blk := stripIface(e.Args[0])
		bs := mkCall("(crypto/cipher.Block).BlockSize", nil, []Val{e.Args[0]}, "", 0, 1, types.Typ[types.Int])
		_ = blk
		d := b.linOf(mkLen(t.St, e.Args[1], types.Typ[types.Int])).add(b.linOf(bs), -1)
		neg := lin{t: map[string]int64{}}.add(d, -1)
		if b.prove(d) && b.prove(neg) {
			c.ok("C09-R3", fname, "precondition of NewCBCDecrypter: len(iv) == BlockSize()", pos, "iv is data[:BlockSize()] of the same block")
		} else {
			c.bad("C09-R3", fname, "precondition of NewCBCDecrypter: len(iv) == BlockSize()", pos, "IV length is not provably the block size: "+ap(e.Args[1]))
		}
	case "(crypto/cipher.BlockMode).CryptBlocks":
		// len(src) % BlockSize == 0: src = X[B:] (or X) with fact len(X) % B == 0, B the block size of the cipher the mode was built from
		src, dst := e.Args[2], e.Args[1]
		okPre := false
		mode, _ := stripIface(e.Args[0]).(*CallV)
		var blkSize, blkKey string
		if mode != nil && shortName(mode.Callee) == "crypto/cipher.NewCBCDecrypter" {
			blkSize = ap(mkCall("(crypto/cipher.Block).BlockSize", nil, []Val{mode.Args[0]}, "", 0, 1, types.Typ[types.Int]))
			blkKey = mkCall("(crypto/cipher.Block).BlockSize", nil, []Val{mode.Args[0]}, "", 0, 1, types.Typ[types.Int]).Key()
		}
		b := newBounds(t, e.Seq)
		if s, ok := src.(*SliceV); ok && s.Hi == nil && blkSize != "" {
			loOK := s.Lo == nil || ap(s.Lo) == blkSize
			for _, d := range b.divL {
				if d.x.String() == b.linOf(mkLen(t.St, s.X, types.Typ[types.Int])).String() && len(d.m.t) == 1 && d.m.t[blkKey] == 1 && d.m.k == 0 {
					okPre = loOK
				}
			}
		}
		if okPre && src.Key() == dst.Key() {
			c.ok("C09-R3", fname, "precondition of CryptBlocks: len(src) % BlockSize == 0, len(dst) >= len(src)", pos, "src = data[BlockSize():] with len(data) % BlockSize() == 0 on the path; dst is src")
		} else {
			c.bad("C09-R3", fname, "precondition of CryptBlocks: len(src) % BlockSize == 0, len(dst) >= len(src)", pos, "input length is not provably a multiple of the block size (src="+ap(src)+", dst="+ap(dst)+")")
		}
	case "(crypto/cipher.AEAD).Open":
		b := newBounds(t, e.Seq)
		ns := mkCall("(crypto/cipher.AEAD).NonceSize", nil, []Val{e.Args[0]}, "", 0, 1, types.Typ[types.Int])
		d := b.linOf(mkLen(t.St, e.Args[2], types.Typ[types.Int])).add(b.linOf(ns), -1)
		neg := lin{t: map[string]int64{}}.add(d, -1)
		if b.prove(d) && b.prove(neg) {
			c.ok("C09-R3", fname, "precondition of AEAD.Open: len(nonce) == NonceSize()", pos, "nonce is data[:NonceSize()] of the same AEAD")
		} else {
			c.bad("C09-R3", fname, "precondition of AEAD.Open: len(nonce) == NonceSize()", pos, "nonce length is not provably NonceSize(): "+ap(e.Args[2]))
		}
	default:
		c.bad("C09-R3", fname, "call "+short+" (panics unless "+ct.Pre+")", pos, "precondition-bearing call in the inbound cone")
	}
}

func (k *c09) checkPanic(t *Terminal) {
	c := k.c
	fname := shortFn(t.Fn)
	pos := c.P.InstrPos(t.Instr)
	// belief rule: panic guarded by X.RemoveChild(Y) == nil, with Y.Parent() == X on the path and no tree mutation of X / Y in between
	g := Fact{}
	found := false
	for i := len(t.St.facts) - 1; i >= 0; i-- {
		if !t.St.facts[i].Forced {
			g, found = t.St.facts[i], true
			break
		}
	}
	if found && g.Pol {
		if b, ok := g.Cond.(*BinV); ok && b.Op == token.EQL && isNilConst(b.Y) {
			if rc, ok := b.X.(*CallV); ok && shortName(rc.Callee) == "(*etree.Element).RemoveChild" {
				x := rc.Args[0]
				y := stripIface(rc.Args[1])
				var parentSeq = -1
				for _, f := range t.St.facts {
					if !f.Pol {
						continue
					}
					if fb, ok := f.Cond.(*BinV); ok && fb.Op == token.EQL {
						for _, pr := range [][2]Val{{fb.X, fb.Y}, {fb.Y, fb.X}} {
							if pc, ok := pr[0].(*CallV); ok && shortName(pc.Callee) == "(*etree.Element).Parent" && pc.Args[0].Key() == y.Key() && pr[1].Key() == x.Key() {
								parentSeq = f.Seq
							}
						}
					}
				}
				mut := ""
				if parentSeq >= 0 {
					for _, e := range t.St.events {
						if e.Kind != EvCall || e.Seq < parentSeq {
							continue
						}
						if ct := lookupContract(e.Callee); ct != nil && ct.TreeMutator && shortName(e.Callee) != "(*etree.Element).RemoveChild" {
							for _, a := range e.Args {
								if a.Key() == x.Key() || a.Key() == y.Key() {
									mut = shortName(e.Callee)
								}
							}
						}
						if e.CalleeFn != nil && c.P.inModule(e.CalleeFn) {
							for _, a := range e.Args {
								if a.Key() == x.Key() || a.Key() == y.Key() {
									mut = shortFn(e.CalleeFn)
								}
							}
						}
					}
				}
				if parentSeq >= 0 && mut == "" {
					c.ok("C09-R3", fname, "explicit panic after RemoveChild == nil", pos, "unreachable: Parent(child) == parent holds and neither is re-parented before RemoveChild (etree contract)")
					return
				}
			}
		}
	}
	o := c.bad("C09-R3", fname, "explicit panic", pos, "explicit panic reachable in the inbound cone (not the RemoveChild belief check under a Parent()==root guard)")
	o.Path = t.pathDesc(c.P)
}

func (k *c09) checkReturnShape(t *Terminal, fn *ssa.Function) {
	c := k.c
	ei := errIdx(fn)
	if ei < 0 || len(t.Vals) != 2 {
		return
	}
	fname := shortFn(fn)
	pos := c.P.InstrPos(t.Instr)
	res, errv := t.Vals[1-ei], t.Vals[ei]
	label := "return " + labelShape(res, errv)
	_, resIsPtr := res.Type().Underlying().(*types.Pointer)
	_, resIsIface := res.Type().Underlying().(*types.Interface)
	errNil := isNilConst(errv)
	if !errNil {
		// single-exit style: `return x, err` on a path that has established err == nil
		if isNil, known := t.eqFact(errv, nilOf(errv.Type())); known && isNil {
			errNil = true
		}
	}
	switch {
	case errNil:
		if resIsPtr || resIsIface {
			if ok, why := k.nonNil(t, len(t.St.facts), res); ok {
				c.ok("C09-R4", fname, label, pos, "nil error with non-nil result ("+why+")")
			} else {
				o := c.bad("C09-R4", fname, label, pos, "returns a nil error together with a result that is not provably non-nil: "+ap(res))
				o.Path = t.pathDesc(c.P)
			}
		} else {
			c.ok("C09-R4", fname, label, pos, "nil error with a value result")
		}
	default:
		if !t.errNonNil(errv) {
			o := c.bad("C09-R4", fname, label, pos, "returned error is not provably non-nil and the result is "+ap(res))
			o.Path = t.pathDesc(c.P)
			return
		}
		if isNilConst(res) {
			c.ok("C09-R4", fname, label, pos, "non-nil error with nil result")
		} else {
			c.bad("C09-R4", fname, label, pos, "returns both a result ("+ap(res)+") and a non-nil error")
		}
	}
}

func labelShape(res, errv Val) string {
	r := "result"
	if isNilConst(res) {
		r = "nil"
	}
	e := "err"
	if isNilConst(errv) {
		e = "nil"
	} else if cv, ok := errv.(*CallV); ok {
		e = "err:" + shortName(cv.Callee)
	} else if tn, _, ok := structLitOf(errv); ok {
		e = "err:" + tn
	}
	return "(" + r + ", " + e + ")"
}

// checkAttachedRoots: every traversal in the cone starts at the root of a parsed document (raw or verified), so the
// elements visited have non-nil parents. Checked on the kernels that start traversals.
func (k *c09) checkAttachedRoots() bool {
	c := k.c
	ok := true
	n := 0
	res := c.kernel(ssoSpec.Entry, inboundInline...)
	if res == nil {
		return false
	}
	for _, t := range res.Terms {
		for _, e := range t.St.events {
			var root Val
			switch {
			case e.Kind == EvIterEnter:
				root = e.Args[0]
			case e.Kind == EvCall && shortName(e.Callee) == "(*SAMLServiceProvider).decryptAssertions":
				root = e.Args[1]
			default:
				continue
			}
			n++
			p := provOf(t, root)
			good := p == "raw" || p == "verified(raw)"
			if !good {
				ok = false
			}
			c.check(good, "C09-R2/attached-roots", shortFn(res.Root), "traversal root is a document root", c.P.InstrPos(e.Instr), "root is "+p, "traversal starts at "+p+": visited elements may have a nil parent")
		}
	}
	// decryptAssertions is called only from ValidateEncodedResponse
	scanCalls(c.P, c.P.LibFns, func(s string) bool { return shortName(s) == "(*SAMLServiceProvider).decryptAssertions" }, func(s callSite) {
		if !c.P.withinOnly(s.Caller, allowNames("(*SAMLServiceProvider).ValidateEncodedResponse")) {
			ok = false
			c.bad("C09-R2/attached-roots", shortFn(s.Caller), "caller of decryptAssertions", c.P.InstrPos(s.Instr), "decryptAssertions called from an unanalysed site")
		}
	})
	// traversals elsewhere in the library
	scanCalls(c.P, c.P.LibFns, func(s string) bool { return strings.HasSuffix(s, "etreeutils.NSFindIterate") }, func(s callSite) {
		if !c.P.withinOnly(s.Caller, allowNames("(*SAMLServiceProvider).ValidateEncodedResponse", "(*SAMLServiceProvider).decryptAssertions", "(*SAMLServiceProvider).validateAssertionSignatures")) {
			ok = false
			c.bad("C09-R2/attached-roots", shortFn(s.Caller), "traversal site", c.P.InstrPos(s.Instr), "new traversal site outside the analysed kernels")
		}
	})
	c.count("C09-R2/attached-roots", n)
	return ok && n > 0
}
