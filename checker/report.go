package main

// Obligations, verdicts, reports, evidence and known findings (DESIGN.md §2.10).

import (
	"encoding/json"
	"fmt"
	"os"
	"path/filepath"
	"sort"
	"strings"
	"time"

	"golang.org/x/tools/go/ssa"
)

type Obligation struct {
	Rule       string   `json:"rule"`
	Key        string   `json:"key"`
	Fn         string   `json:"function,omitempty"`
	Pos        string   `json:"pos,omitempty"`
	Status     string   `json:"status"` // discharged | violated | undecided
	Detail     string   `json:"detail,omitempty"`
	Path       []string `json:"path,omitempty"`
	NonTrivial bool     `json:"-"`
	Config     string   `json:"config,omitempty"`
}

type Ctx struct {
	P        *Prog
	Prop     string
	Tier     string
	Obs      []*Obligation
	Inst     map[string]int // rule instance counts
	Floors   map[string]int
	Notes    []string
	Kernels  map[string]*Result
	KStats   map[string]string
	Engines  []*Engine
	Unres    []string
	Rules    map[string]string // rule id -> text
	Controls map[string]bool   // positive controls fired
	Assume   map[string]bool
	Extra    map[string]interface{}
	keys     map[string]*Obligation
}

func NewCtx(p *Prog, prop, tier string) *Ctx {
	return &Ctx{P: p, Prop: prop, Tier: tier, Inst: map[string]int{}, Floors: map[string]int{}, Kernels: map[string]*Result{},
		KStats: map[string]string{}, Rules: map[string]string{}, Controls: map[string]bool{}, Assume: map[string]bool{}, Extra: map[string]interface{}{}, keys: map[string]*Obligation{}}
}

func (c *Ctx) rule(id, text string) { c.Rules[id] = text }

// ob records an obligation. Identical keys are merged: violated/undecided wins over discharged.
func (c *Ctx) ob(rule, fn, construct, pos, status, detail string, nontrivial bool) *Obligation {
	key := rule + " | " + fn + " | " + construct
	if o, ok := c.keys[key]; ok {
		if rank(status) > rank(o.Status) {
			o.Status, o.Detail, o.Pos = status, detail, pos
		}
		return o
	}
	o := &Obligation{Rule: rule, Key: key, Fn: fn, Pos: pos, Status: status, Detail: detail, NonTrivial: nontrivial, Config: c.P.Config}
	c.keys[key] = o
	c.Obs = append(c.Obs, o)
	return o
}

func rank(s string) int {
	switch s {
	case "violated":
		return 3
	case "undecided":
		return 2
	}
	return 1
}

func (c *Ctx) ok(rule, fn, construct, pos, detail string) *Obligation {
	return c.ob(rule, fn, construct, pos, "discharged", detail, true)
}
func (c *Ctx) trivial(rule, fn, construct, pos, detail string) *Obligation {
	return c.ob(rule, fn, construct, pos, "discharged", detail, false)
}
func (c *Ctx) bad(rule, fn, construct, pos, detail string) *Obligation {
	return c.ob(rule, fn, construct, pos, "violated", detail, true)
}
func (c *Ctx) undecided(rule, fn, construct, pos, detail string) *Obligation {
	return c.ob(rule, fn, construct, pos, "undecided", detail, true)
}

func (c *Ctx) check(cond bool, rule, fn, construct, pos, okDetail, badDetail string) bool {
	if cond {
		c.ok(rule, fn, construct, pos, okDetail)
	} else {
		c.bad(rule, fn, construct, pos, badDetail)
	}
	return cond
}

// floor declares the minimum number of instances a rule must have matched.
func (c *Ctx) floor(rule string, min int) { c.Floors[rule] = min }
func (c *Ctx) count(rule string, n int)   { c.Inst[rule] += n }

func (c *Ctx) note(format string, a ...interface{}) { c.Notes = append(c.Notes, fmt.Sprintf(format, a...)) }

func (c *Ctx) fn(name string) *ssa.Function {
	f := c.P.Fn(name)
	if f == nil || f.Blocks == nil {
		c.Unres = append(c.Unres, name)
		c.bad("anchor", name, "UNRESOLVED-ANCHOR", "-", "function "+name+" no longer resolves (renamed or removed); the rules anchored on it cannot run")
		return nil
	}
	return f
}

// kernel runs (or reuses) the path simulation of fn with the given inline set.
func (c *Ctx) kernel(name string, inline ...string) *Result {
	key := name + "|" + strings.Join(inline, ",")
	if r, ok := c.Kernels[key]; ok {
		return r
	}
	fn := c.fn(name)
	if fn == nil {
		c.Kernels[key] = nil
		return nil
	}
	return c.kernelOf(fn, key, inline...)
}

// kernelFn: kernel of an already resolved function.
func (c *Ctx) kernelFn(fn *ssa.Function, inline ...string) *Result {
	key := fn.String() + "|" + strings.Join(inline, ",")
	if r, ok := c.Kernels[key]; ok {
		return r
	}
	return c.kernelOf(fn, key, inline...)
}

func (c *Ctx) kernelOf(fn *ssa.Function, key string, inline ...string) *Result {
	name := shortFn(fn)
	en := NewEngine(c.P)
	set := map[*ssa.Function]bool{}
	excl := map[*ssa.Function]bool{}
	all := false
	for _, s := range inline {
		if s == "*" {
			all = true
			continue
		}
		if strings.HasPrefix(s, "-") {
			// excluded from inlining: a sub-kernel analysed on its own. An exclusion that no longer resolves is
			// harmless (the function is gone, so nothing is left un-inlined).
			if f := c.P.Fn(s[1:]); f != nil {
				excl[f] = true
			}
			continue
		}
		if f := c.P.Fn(s); f != nil {
			set[f] = true
		}
	}
	en.Inline = func(caller, callee *ssa.Function, depth int) bool {
		if callee.Parent() != nil {
			return true
		}
		if excl[callee] {
			return false
		}
		if all {
			return true
		}
		return set[callee]
	}
	en.Excluded = excl
	res, err := en.Run(fn)
	c.Engines = append(c.Engines, en)
	if err != nil {
		c.undecided("engine", name, "pathwalk", c.P.Pos(fn.Pos()), err.Error())
		c.Kernels[key] = nil
		return nil
	}
	for _, e := range en.Errors {
		c.undecided("engine", name, "pathwalk: "+e, c.P.Pos(fn.Pos()), e)
	}
	// paths whose integer facts contradict each other are not paths of the program
	kept := res.Terms[:0]
	for _, t := range res.Terms {
		if newBounds(t, -1).inconsistent() || timeInconsistent(t) {
			res.Pruned++
			continue
		}
		kept = append(kept, t)
	}
	res.Terms = kept
	c.Kernels[key] = res
	c.KStats[shortFn(fn)] = fmt.Sprintf("%d paths, %d steps", len(res.Terms), res.Steps)
	return res
}

// ---------------------------------------------------------------- known findings

type Finding struct {
	Property string `json:"property"`
	Key      string `json:"key"`
	What     string `json:"what"`
	Status   string `json:"status"` // known | fixed
	Commit   string `json:"commit,omitempty"`
}

func loadFindings(dir string) []Finding {
	b, err := os.ReadFile(filepath.Join(dir, "known_findings.json"))
	if err != nil {
		return nil
	}
	var f struct {
		Findings []Finding `json:"findings"`
	}
	if json.Unmarshal(b, &f) != nil {
		return nil
	}
	return f.Findings
}

// ---------------------------------------------------------------- output

type propResult struct {
	Prop      string
	Viol      []*Obligation
	Known     []*Obligation
	KnownWhat map[string]string
	Total     int
	Disch     int
	NonTriv   int
	FloorFail []string
}

func (c *Ctx) finish(outDir string, findings []Finding, wall time.Duration, extraCtxs []*Ctx) *propResult {
	r := &propResult{Prop: c.Prop, KnownWhat: map[string]string{}}
	all := []*Ctx{c}
	all = append(all, extraCtxs...)
	known := map[string]string{}
	for _, f := range findings {
		if f.Property == c.Prop && f.Status == "known" {
			known[f.Key] = f.What
		}
	}
	var obs []*Obligation
	seenKey := map[string]bool{}
	for _, cc := range all {
		for rule, min := range cc.Floors {
			if cc.Inst[rule] < min {
				msg := fmt.Sprintf("%s: %d instances, floor %d (config %s)", rule, cc.Inst[rule], min, cc.P.Config)
				r.FloorFail = append(r.FloorFail, msg)
				cc.bad("floor", "-", rule, "-", "rule matched fewer instances than confirmed by hand on the pinned tree: "+msg+" — a rule matching nothing must not pass vacuously")
			}
		}
		for _, o := range cc.Obs {
			obs = append(obs, o)
		}
	}
	nontrivKeys := map[string]bool{}
	for _, o := range obs {
		r.Total++
		if o.Status == "discharged" {
			r.Disch++
			if o.NonTrivial {
				nontrivKeys[o.Key] = true
			}
			continue
		}
		if seenKey[o.Key] {
			continue
		}
		seenKey[o.Key] = true
		if what, ok := known[o.Key]; ok {
			r.Known = append(r.Known, o)
			r.KnownWhat[o.Key] = what
			continue
		}
		r.Viol = append(r.Viol, o)
	}
	r.NonTriv = len(nontrivKeys)

	// report
	repDir := filepath.Join(outDir, "reports")
	os.MkdirAll(repDir, 0o755)
	repPath := filepath.Join(repDir, fmt.Sprintf("%s.%s.json", c.Prop, c.Tier))
	rep := map[string]interface{}{
		"property":   c.Prop,
		"tier":       c.Tier,
		"violations": r.Viol,
		"known":      r.Known,
		"rules":      c.Rules,
		"notes":      c.Notes,
	}
	writeJSON(repPath, rep)

	// evidence
	samples := []interface{}{}
	// a few discharged non-trivial obligations, one per rule first
	perRule := map[string]int{}
	for _, o := range obs {
		if o.Status == "discharged" && o.NonTrivial && perRule[o.Rule] < 2 && len(samples) < 24 {
			perRule[o.Rule]++
			samples = append(samples, map[string]string{"key": o.Key, "pos": o.Pos, "status": o.Status, "discharged_by": o.Detail})
		}
	}
	for _, o := range append(append([]*Obligation{}, r.Viol...), r.Known...) {
		samples = append(samples, map[string]string{"key": o.Key, "pos": o.Pos, "status": o.Status, "detail": o.Detail})
	}
	unmod := map[string]int{}
	kstats := map[string]string{}
	inst := map[string]interface{}{}
	var cfgs []string
	controls := map[string]bool{}
	assume := map[string]bool{}
	for _, cc := range all {
		cfgs = append(cfgs, cc.P.Config)
		for _, en := range cc.Engines {
			for k, v := range en.Unmodelled {
				unmod[shortName(k)] += v
			}
		}
		for k, v := range cc.KStats {
			kstats[k] = v
		}
		for k, v := range cc.Inst {
			inst[k+" ["+cc.P.Config+"]"] = map[string]int{"instances": v, "floor": cc.Floors[k]}
		}
		for k, v := range cc.Controls {
			controls[k] = v
		}
		for k := range cc.Assume {
			assume[k] = true
		}
	}
	ruleTexts := []string{}
	for _, k := range sortedKeys(c.Rules) {
		ruleTexts = append(ruleTexts, k+": "+c.Rules[k])
	}
	cov := map[string]interface{}{
		"explanation":         "Static analysis of /repo's current source (go/packages + go/types + go/ssa, no library code executed). Rules applied: " + strings.Join(ruleTexts, " || "),
		"obligations":         r.Total,
		"discharged":          r.Disch,
		"evaluations":         r.Total,
		"distinct_nontrivial": r.NonTriv,
		"rule":                "one obligation per (rule, function, construct) instance found in the source; non-trivial = its discharge needed at least one path fact, table lookup or value-flow step (not a bare constant); distinct = distinct obligation keys",
		"samples":             samples,
		"checker_cmd":         fmt.Sprintf("/verif/check %s %s", c.Prop, c.Tier),
		"trusted_base":        []string{"go/types + go/ssa (x/tools v0.29.0) faithfully represent the source", "external contract table (checker/contracts.go) for dependencies and std", "pinned dependency versions: " + depString(c.P)},
		"kernels":             kstats,
		"rule_instances":      inst,
		"unmodelled_callees":  unmod,
		"build_configs":       cfgs,
		"positive_controls":   controls,
		"floor_failures":      r.FloorFail,
		"known_findings":      len(r.Known),
		"exhaustive":          true,
	}
	for k, v := range c.Extra {
		cov[k] = v
	}
	as := sortedKeys(assume)
	ev := map[string]interface{}{
		"property_id": c.Prop,
		"tier":        c.Tier,
		"seed":        0,
		"level":       "other",
		"coverage":    cov,
		"assumptions": as,
		"wall_s":      wall.Seconds(),
		"violations":  len(r.Viol),
	}
	os.MkdirAll(filepath.Join(outDir, "evidence"), 0o755)
	writeJSON(filepath.Join(outDir, "evidence", c.Prop+".json"), ev)

	// stdout
	sort.Slice(r.Viol, func(i, j int) bool { return r.Viol[i].Key < r.Viol[j].Key })
	for _, o := range r.Known {
		fmt.Printf("KNOWN-FINDING: property=%s %s [%s at %s]\n", c.Prop, r.KnownWhat[o.Key], o.Key, o.Pos)
	}
	for _, o := range r.Viol {
		tag := "VIOLATED"
		if o.Status == "undecided" {
			tag = "UNDECIDED"
		}
		fmt.Printf("  %s %s\n      at %s: %s\n", tag, o.Key, o.Pos, o.Detail)
	}
	fmt.Printf("%s [%s]: %d obligations, %d discharged, %d distinct non-trivial, %d violations, %d known findings (%.1fs)\n",
		c.Prop, c.Tier, r.Total, r.Disch, r.NonTriv, len(r.Viol), len(r.Known), wall.Seconds())
	if len(r.Viol) > 0 {
		fmt.Printf("VIOLATION property=%s replay=%s\n", c.Prop, repPath)
	}
	return r
}

func depString(p *Prog) string {
	var parts []string
	for _, k := range sortedKeys(p.DepVers) {
		if strings.Contains(k, "goxmldsig") || strings.Contains(k, "etree") || strings.Contains(k, "roundtrip") || strings.Contains(k, "clockwork") {
			parts = append(parts, k+"@"+p.DepVers[k])
		}
	}
	return strings.Join(parts, ", ")
}

func writeJSON(path string, v interface{}) {
	b, err := json.MarshalIndent(v, "", " ")
	if err != nil {
		fmt.Fprintln(os.Stderr, "json:", err)
		return
	}
	os.WriteFile(path, append(b, '\n'), 0o644)
}

// shareFrom runs another property's rule function in a scratch context that shares this context's kernel cache and
// re-files the obligations selected by match under newRule: one analysis, several properties that depend on its result.
var shareDepth int

func shareFrom(c *Ctx, newRule string, ruleFn func(*Ctx), match func(o *Obligation) bool) int {
	// two rule sets that share from each other would recurse for ever: fail as undecided instead
	if shareDepth >= 3 {
		c.undecided(newRule, "-", "shared rule set", "-", "rule sets share from each other (cycle)")
		return 0
	}
	shareDepth++
	defer func() { shareDepth-- }()
	sub := NewCtx(c.P, c.Prop, c.Tier)
	sub.Kernels = c.Kernels
	sub.KStats = c.KStats
	ruleFn(sub)
	c.Engines = append(c.Engines, sub.Engines...)
	n := 0
	for _, o := range sub.Obs {
		if !match(o) {
			continue
		}
		n++
		c.ob(newRule, o.Fn, strings.TrimPrefix(o.Key, o.Rule+" | "+o.Fn+" | "), o.Pos, o.Status, o.Detail, o.NonTrivial)
	}
	return n
}
