package main

// C17: goroutine safety and purity — write effects, lockset, by-value copies, package-level state.

import (
	"os"
	"fmt"
	"go/token"
	"go/types"
	"sort"
	"strings"

	"golang.org/x/tools/go/ssa"
)

// baseChain describes what memory an address-valued SSA value is rooted at.
//
//	kinds: local | freevar | global:<name> | param:<name>:<type> | call:<callee> | loaded(<inner>).<path>
func baseChain(v ssa.Value, depth int) (kind string, path string) {
	if depth > 12 {
		return "unknown", ""
	}
	switch x := v.(type) {
	case *ssa.Alloc, *ssa.MakeMap, *ssa.MakeSlice, *ssa.MakeChan, *ssa.MakeClosure:
		return "local", ""
	case *ssa.FieldAddr:
		k, p := baseChain(x.X, depth+1)
		name := "?"
		if st, ok := derefStruct(x.X.Type()); ok {
			name = st.Underlying().(*types.Struct).Field(x.Field).Name()
		}
		return k, p + "." + name
	case *ssa.IndexAddr:
		k, p := baseChain(x.X, depth+1)
		return k, p + "[]"
	case *ssa.Slice:
		return baseChain(x.X, depth+1)
	case *ssa.Parameter:
		return "param:" + x.Name() + ":" + typeStr(x.Type()), ""
	case *ssa.FreeVar:
		return "freevar:" + x.Name() + ":" + typeStr(x.Type()), ""
	case *ssa.Global:
		return "global:" + x.Name(), ""
	case *ssa.UnOp:
		if x.Op == token.MUL {
			k, p := baseChain(x.X, depth+1)
			if k == "local" || strings.HasPrefix(k, "freevar") {
				// pointer read from a local variable: follow what was stored there is out of reach syntactically;
				// locals holding parameters are handled by go/ssa's register promotion, so this is a spilled cell
				return "cell(" + k + ")", p
			}
			return "loaded(" + k + p + ")", ""
		}
	case *ssa.Call:
		n, callee := calleeName(x.Common())
		if callee == nil || callee.Blocks == nil || callee.Pkg == nil || !strings.HasPrefix(callee.Pkg.Pkg.Path(), modPath) {
			// what a callee outside the module hands back may be (part of) what it was given: the certificates of the
			// configured store, the key of the configured key store, a sub-slice of its argument — unless its contract
			// says the result is a new object
			if ct := lookupContract(n); ct == nil || !ct.Fresh {
				args := x.Common().Args
				if x.Common().IsInvoke() {
					args = append([]ssa.Value{x.Common().Value}, args...)
				}
				for i, a := range args {
					if !mayPointTo(a.Type()) {
						continue
					}
					if ct != nil && ct.ResultOf != nil && !containsInt(ct.ResultOf, i) {
						continue
					}
					k, p := baseChain(a, depth+1)
					if sharedBase(k, p) {
						return "from(" + k + p + " via " + shortName(n) + ")", ""
					}
				}
			}
		}
		// a module function that hands back something it reached through its receiver or a pointer parameter (the cached
		// signing context, a stored key) returns memory its caller shares with everybody else who holds that object
		if callee != nil && callee.Blocks != nil && depth < 6 {
			if idx, ok := returnsViaParam(callee, map[*ssa.Function]bool{}); ok {
				args := x.Common().Args
				if idx < len(args) {
					k, p := baseChain(args[idx], depth+1)
					if isProviderRooted(k) || sharedBase(k, p) {
						return "from(" + k + p + " via " + shortName(n) + ")", ""
					}
				}
			}
		}
		return "call:" + shortName(n), ""
	case *ssa.Extract:
		return baseChain(x.Tuple, depth+1)
	case *ssa.ChangeType:
		return baseChain(x.X, depth+1)
	case *ssa.Convert:
		return baseChain(x.X, depth+1)
	case *ssa.MakeInterface:
		return baseChain(x.X, depth+1)
	case *ssa.TypeAssert:
		return baseChain(x.X, depth+1)
	case *ssa.Phi:
		var ks []string
		for _, e := range x.Edges {
			k, p := baseChain(e, depth+1)
			ks = append(ks, k+p)
		}
		return "phi(" + strings.Join(ks, "|") + ")", ""
	case *ssa.Const:
		return "const", ""
	}
	return "unknown:" + fmt.Sprintf("%T", v), ""
}

// sharedBase: memory reachable from the provider (beyond the provider value itself) or from a package variable.
func sharedBase(kind, path string) bool {
	if strings.HasPrefix(kind, "global:") || strings.Contains(kind, "(global:") {
		return true
	}
	return isProviderRooted(kind) && (path != "" || strings.Contains(kind, "loaded(") || strings.Contains(kind, "from("))
}

func isProviderRooted(kind string) bool {
	return strings.Contains(kind, "*saml2.SAMLServiceProvider")
}

func ruleC17(c *Ctx) {
	c.rule("C17-R1", "write effects: in the cone of every public operation the only store through the provider is sp.signingContext (and the object just stored there), inside SigningContext; no store to package-level variables outside package initialisation; no mutating external call on provider-reachable state elsewhere")
	c.rule("C17-R2", "lockset: in SigningContext every load of sp.signingContext holds signingContextMu (R or W), every store to it or mutation of the context holds it in W mode, each acquire is released on all paths, no double acquire; the two fields are touched nowhere else")
	c.rule("C17-R3", "freshness: nothing created during an operation is stored into the provider or a global (follows from R1); results returned by the validators are fresh allocations")
	c.rule("C17-R4", "no by-value copy of SAMLServiceProvider (it embeds a mutex) in library scope")
	spT := providerEffectScan(c)
	if spT == nil {
		return
	}

	inputsUnmodified(c, "C17-R5", spT)
	providerUnmodifiedPaths(c, "C17-R6", spT)
	c.rule("C17-R8", "every call gets the signing context: each return of SigningContext hands back a value the path knows to be non-nil (the cached one after a nil test of that very value, or the one just created) — a stale local returned after the re-check under the write lock is nil for the goroutine that lost the first-use race")
	if sc := c.kernel("(*SAMLServiceProvider).SigningContext", "*"); sc != nil {
		n := 0
		for _, t := range sc.Terms {
			if t.Kind != "return" || len(t.Vals) != 1 {
				continue
			}
			n++
			c.check(t.nonNil(t.Vals[0]) || contractNonNilVal(t, t.Vals[0]), "C17-R8", shortFn(sc.Root), "returned context is non-nil", c.P.InstrPos(t.Instr), "non-nil on the path", "SigningContext returns "+ap(t.Vals[0])+", which this path does not know to be non-nil (it may be the stale nil read before the lock was taken)")
		}
		c.count("C17-R8/returns", n)
		c.floor("C17-R8/returns", 2)
	}
	c.rule("C17-R7", "results do not share nodes with inputs: each Sign* builds the returned element entirely from its own copy of the argument (shared signPlacement, also C13-R1 / C15-R5) — children taken from the caller's element would make later edits of the result rewrite the input")
	signPlacement(c, "C17-R7")
	// package-level variables, who-may-touch, lockset, by-value copies
	restOfC17(c, spT)
}

// providerEffectScan (C17-R1; filtered views of it serve C02-R5, C15-R6, C16-R5): every store, map update, append
// and mutating or unmodelled external call in the cone of the public operations, classified by the memory it reaches.
func providerEffectScan(c *Ctx) *types.Named {
	spT := c.P.Named("SAMLServiceProvider")
	if spT == nil {
		c.bad("anchor", "SAMLServiceProvider", "UNRESOLVED-ANCHOR", "-", "type no longer resolves")
		return nil
	}
	// operation roots
	var roots []*ssa.Function
	config := map[string]bool{"SetSPKeyStore": true, "SetSPSigningKeyStore": true}
	ms := c.P.SSA.MethodSets.MethodSet(types.NewPointer(spT))
	for i := 0; i < ms.Len(); i++ {
		f := c.P.SSA.MethodValue(ms.At(i))
		if f == nil || f.Blocks == nil || !f.Object().Exported() || config[f.Name()] {
			continue
		}
		roots = append(roots, f)
	}
	for _, m := range c.P.Root.Members {
		if f, ok := m.(*ssa.Function); ok && f.Blocks != nil && f.Object() != nil && f.Object().Exported() {
			roots = append(roots, f)
		}
	}
	for _, pk := range []*ssa.Package{c.P.Types, c.P.UUID} {
		for _, f := range pkgFunctions(pk) {
			if f.Parent() == nil && f.Object() != nil && f.Object().Exported() {
				roots = append(roots, f)
			}
		}
	}
	c.count("C17/operation-roots", len(roots))
	c.floor("C17/operation-roots", 40)
	cone := moduleCone(c.P, roots)
	c.count("C17/functions-in-cone", len(cone))
	c.floor("C17/functions-in-cone", 60)

	guardedFields, lockRoots := guardedState(c.P, spT)
	nStores, nProvider := 0, 0
	for _, fn := range cone {
		if !c.P.inLibrary(fn) {
			continue
		}
		fname := shortFn(fn)
		for _, b := range fn.Blocks {
			for _, in := range b.Instrs {
				switch x := in.(type) {
				case *ssa.Store:
					nStores++
					kind, path := baseChain(x.Addr, 0)
					pos := c.P.InstrPos(x)
					if os.Getenv("VERIF_DEBUG_C17") != "" {
						fmt.Fprintln(os.Stderr, "C17 store", fname, pos, kind, path)
					}
					switch {
					case strings.HasPrefix(kind, "global:"):
						c.bad("C17-R1", fname, "store to package variable "+kind[7:]+path, pos, "a public operation writes package-level state ("+kind[7:]+path+"): concurrent calls race and calls are no longer isolated")
					case isProviderRooted(kind):
						nProvider++
						ok := c.P.withinOnly(fn, allowNames("(*SAMLServiceProvider).SigningContext")) && (path == ".signingContext" || strings.Contains(kind, ".signingContext)"))
						if !ok && strings.HasPrefix(kind, "param:") && strings.Count(path, ".") == 1 && guardedFields[strings.TrimPrefix(path, ".")] && (lockRoots[topFn(fn)] || guardedCovered[topFn(fn)]) && c.P.withinOnly(fn, allowNames("(*SAMLServiceProvider).SigningContext")) {
							// bookkeeping next to the cached context, written where the context is created: R2 demands the write lock
							ok = true
						}
						if ok {
							c.ok("C17-R1", fname, "store through the provider: "+kind+path, pos, "the lazily created signing context (lock discipline checked by R2)")
						} else {
							c.bad("C17-R1", fname, "store through the provider: "+describeBase(kind, path), pos, "a public operation writes provider state ("+describeBase(kind, path)+"): configuration is mutated / cached state is shared between concurrent calls without the signing-context lock discipline")
						}
					}
				case *ssa.MapUpdate:
					kind, path := baseChain(x.Map, 0)
					if strings.HasPrefix(kind, "global:") || isProviderRooted(kind) {
						c.bad("C17-R1", fname, "map update on shared state "+describeBase(kind, path), c.P.InstrPos(x), "a public operation updates a map reachable from the provider or a package variable")
					}
				case ssa.CallInstruction:
					name, callee := calleeName(x.Common())
					if name == "builtin:append" && len(x.Common().Args) > 0 {
						// append writes into the spare capacity of its first argument
						kind, path := baseChain(x.Common().Args[0], 0)
						if sharedBase(kind, path) {
							c.bad("C17-R1", fname, "append onto shared storage "+describeBase(kind, path), c.P.InstrPos(x), "a public operation appends onto a slice that belongs to the provider's configuration (or a package variable): the elements land in storage other calls and the application see")
						}
						continue
					}
					if name == "" || strings.HasPrefix(name, "builtin:") || (callee != nil && c.P.inModule(callee)) {
						continue
					}
					if callee != nil && stdInlined(callee) {
						continue // slices.Contains / Index…: read-only loops, simulated like module code on the kernel paths
					}
					if x.Common().IsInvoke() {
						// an interface only module types can implement: its implementations are in the cone
						if is, sealed := c.P.moduleIface(x.Common().Value.Type()); is && sealed {
							continue
						}
					}
					ct := lookupContract(name)
					args := x.Common().Args
					if x.Common().IsInvoke() {
						args = append([]ssa.Value{x.Common().Value}, args...)
					}
					for i, a := range args {
						if !mayPointTo(a.Type()) {
							continue
						}
						kind, path := baseChain(a, 0)
						if !sharedBase(kind, path) {
							continue
						}
						if i == 0 && x.Common().IsInvoke() && ct == nil && pluginField(a) {
							// a method of an object the application plugged into a provider field (an observer, a store): what
							// that method does to its own receiver is the application's code; the other arguments are examined
							continue
						}
						writes := false
						if ct == nil {
							c.undecided("C17-R1", fname, "unmodelled callee "+shortName(name)+" receives provider-reachable state", c.P.InstrPos(x), "external callee outside the contract table may mutate "+describeBase(kind, path))
							continue
						}
						for _, w := range ct.Writes {
							if w == i {
								writes = true
							}
						}
						if !writes {
							continue
						}
						nProvider++
						ok := c.P.withinOnly(fn, allowNames("(*SAMLServiceProvider).SigningContext"))
						c.check(ok, "C17-R1", fname, "mutating call "+shortName(name)+" on "+describeBase(kind, path), c.P.InstrPos(x), "inside SigningContext (lock discipline checked by R2)", "a public operation mutates provider-reachable state through "+shortName(name))
					}
				}
			}
		}
	}
	c.count("C17-R1/stores-scanned", nStores)
	c.floor("C17-R1/stores-scanned", 150)
	c.count("C17-R1/provider-effects", nProvider)
	c.floor("C17-R1/provider-effects", 1) // at least the cache store sp.signingContext = ctx; how many further effects there are depends on how SigningContext is split up
	return spT
}

// configUntouched: the filtered view of the effect scan for one group of configuration fields: no library function
// writes them (or memory obtained through them). The builders / validators read these fields on every call; a helper
// elsewhere that "fills in a default" or filters a configured list in place changes what later calls see.
func configUntouched(c *Ctx, rule, what string, fields []string) {
	sub := NewCtx(c.P, c.Prop, c.Tier)
	if providerEffectScan(sub) == nil {
		c.bad(rule, "SAMLServiceProvider", "UNRESOLVED-ANCHOR", "-", "type no longer resolves")
		return
	}
	n := 0
	for _, o := range sub.Obs {
		if o.Rule != "C17-R1" || o.Status == "ok" {
			continue
		}
		hit := false
		for _, f := range fields {
			if strings.Contains(o.Key, "."+f) || strings.Contains(o.Detail, "."+f) {
				hit = true
			}
		}
		if hit {
			n++
			c.ob(rule, o.Fn, strings.TrimPrefix(o.Key, o.Rule+" | "+o.Fn+" | "), o.Pos, o.Status, o.Detail, true)
		}
	}
	if n == 0 {
		c.ok(rule, "library", "no library function writes "+what, "-", fmt.Sprintf("effect scan over the cone of all public operations: no store, append, map update or mutating call reaches %v", fields))
	}
}

func restOfC17(c *Ctx, spT *types.Named) {
	// package-level variables
	nG := 0
	for _, pk := range c.P.Lib {
		for _, m := range pk.Members {
			g, ok := m.(*ssa.Global)
			if !ok || strings.HasPrefix(g.Name(), "init$") {
				continue
			}
			nG++
			t := g.Type().Underlying().(*types.Pointer).Elem()
			mutableKind := false
			switch t.Underlying().(type) {
			case *types.Map, *types.Slice, *types.Pointer, *types.Chan, *types.Signature:
				mutableKind = true
			}
			if strings.Contains(typeStr(t), "sync.") {
				mutableKind = true
			}
			if mutableKind {
				// a reference-typed package variable is still immutable state when only the initialiser assigns it and
				// all other code merely reads it (element-wise) or calls concurrency-safe methods on it
				// what a table hands out must itself be immutable: plain values or functions (constructors), never shared
				// objects (a map of hash.Hash instances is one hash state used by every caller)
				immutableElem := func(e types.Type) bool {
					if constLikeType(e) {
						return true
					}
					_, isFn := e.Underlying().(*types.Signature)
					return isFn
				}
				elemOK := true
				switch u := t.Underlying().(type) {
				case *types.Map:
					elemOK = immutableElem(u.Elem())
				case *types.Slice:
					elemOK = immutableElem(u.Elem())
				}
				if ok, why := c.P.globalInitOnly(g); ok && !elemOK {
					c.bad("C17-R1", shortName(pk.Pkg.Path()), "package variable "+g.Name()+" : "+typeStr(t), c.P.Pos(g.Pos()), "package-level table "+g.Name()+" hands out shared mutable objects ("+typeStr(t)+"): every caller works on the same instance")
				} else if ok {
					_ = why
					c.ok("C17-R1", shortName(pk.Pkg.Path()), "package variable "+g.Name()+" : "+typeStr(t), c.P.Pos(g.Pos()), "assigned by the package initialiser only; every use is a read or a concurrency-safe method call")
				} else {
					c.bad("C17-R1", shortName(pk.Pkg.Path()), "package variable "+g.Name()+" : "+typeStr(t), c.P.Pos(g.Pos()), "library declares package-level mutable state ("+g.Name()+" "+typeStr(t)+"): "+why)
				}
				continue
			}
			c.check(!mutableKind, "C17-R1", shortName(pk.Pkg.Path()), "package variable "+g.Name()+" : "+typeStr(t), c.P.Pos(g.Pos()), "plain value, never written by an operation", "library declares package-level mutable state ("+g.Name()+" "+typeStr(t)+")")
		}
	}
	c.count("C17-R1/package-variables", nG)

	// who may touch the lazily created context / its mutex
	guardedF, lockR := guardedState(c.P, spT)
	nAcc := 0
	for _, fn := range c.P.LibFns {
		for _, b := range fn.Blocks {
			for _, in := range b.Instrs {
				fa, ok := in.(*ssa.FieldAddr)
				if !ok {
					continue
				}
				st, ok := derefStruct(fa.X.Type())
				if !ok || !types.Identical(st, spT) {
					continue
				}
				name := st.Underlying().(*types.Struct).Field(fa.Field).Name()
				if guardedF[name] || name == "signingContextMu" {
					nAcc++
					// every function that touches library-written provider state is a root of the lockset rule below
					c.check(lockR[topFn(fn)] || guardedCovered[topFn(fn)], "C17-R2/who-may-access", shortFn(fn), "access to sp."+name, c.P.InstrPos(fa), "inside a function whose every path is checked by the lockset rule", "sp."+name+" is accessed outside the functions analysed for lock discipline")
				}
			}
		}
	}
	c.count("C17-R2/guarded-field-accesses", nAcc)
	c.floor("C17-R2/guarded-field-accesses", 6)
	locksetRule(c, "C17-R2", guardedF, lockR)

	// R3: validators return fresh objects
	for _, spec := range []inboundSpec{ssoSpec, loRespSpec, loReqSpec} {
		res := c.kernel(spec.Entry, inboundInline...)
		if res == nil {
			continue
		}
		for _, t := range res.Terms {
			if t.accepting(res.Root) {
				_, fresh := t.Vals[0].(*AllocV)
				c.check(fresh, "C17-R3", shortFn(res.Root), "returned "+spec.Kind+" is a fresh allocation ["+labelReturn(c, t)+"]", c.P.InstrPos(t.Instr), ap(t.Vals[0]), "validator returns shared state: "+ap(t.Vals[0]))
			}
		}
	}

	// R4 by-value copies
	nCopy := 0
	for _, fn := range c.P.LibFns {
		if recv := fn.Signature.Recv(); recv != nil && types.Identical(recv.Type(), spT) {
			nCopy++
			c.bad("C17-R4", shortFn(fn), "value receiver", c.P.Pos(fn.Pos()), "method with a SAMLServiceProvider value receiver copies the provider and its mutex on every call")
		}
		for _, p := range fn.Params {
			if types.Identical(p.Type(), spT) {
				nCopy++
				c.bad("C17-R4", shortFn(fn), "by-value parameter "+p.Name(), c.P.Pos(p.Pos()), "SAMLServiceProvider passed by value")
			}
		}
		for _, b := range fn.Blocks {
			for _, in := range b.Instrs {
				if u, ok := in.(*ssa.UnOp); ok && u.Op == token.MUL && types.Identical(u.Type(), spT) {
					nCopy++
					c.bad("C17-R4", shortFn(fn), "by-value load", c.P.InstrPos(u), "SAMLServiceProvider copied by value (copies the RWMutex and forks the cached signing context)")
				}
			}
		}
	}
	if nCopy == 0 {
		c.ok("C17-R4", "library", "no by-value copy of SAMLServiceProvider", "-", fmt.Sprintf("%d library functions scanned", len(c.P.LibFns)))
	}
}

func describeBase(kind, path string) string {
	s := kind + path
	s = strings.ReplaceAll(s, "param:sp:*saml2.SAMLServiceProvider", "sp")
	return s
}

func locksetRule(c *Ctx, rule string, guarded map[string]bool, roots map[*ssa.Function]bool) {
	n := 0
	var fns []*ssa.Function
	for f := range roots {
		fns = append(fns, f)
	}
	sort.Slice(fns, func(i, j int) bool { return fns[i].String() < fns[j].String() })
	for _, root := range fns {
		inl := []string{"*"}
		if shortFn(root) != "(*SAMLServiceProvider).SigningContext" {
			inl = append(inl, "-(*SAMLServiceProvider).SigningContext")
		}
		res := c.kernelFn(root, inl...)
		if res == nil {
			continue
		}
		n += locksetPaths(c, rule, res, guarded)
	}
	c.count(rule+"/paths", n)
	c.floor(rule+"/paths", 5)
}

func locksetPaths(c *Ctx, rule string, res *Result, guarded map[string]bool) int {
	fname := shortFn(res.Root)
	n := 0
	for _, t := range res.Terms {
		if t.Kind != "return" {
			continue
		}
		n++
		held := "" // "", "R", "W"
		var published Val
		pathOK := true
		for _, e := range t.St.events {
			pos := c.P.InstrPos(e.Instr)
			switch e.Kind {
			case EvCall:
				s := shortName(e.Callee)
				if strings.HasPrefix(s, "(*sync.RWMutex).") && len(e.Args) == 1 {
					if ap(e.Args[0]) != "&SP.signingContextMu" {
						continue
					}
					switch strings.TrimPrefix(s, "(*sync.RWMutex).") {
					case "RLock":
						if held != "" {
							pathOK = false
							c.bad(rule, fname, "no nested acquire", pos, "RLock while the mutex is already held ("+held+"): sync.RWMutex is not re-entrant")
						}
						held = "R"
					case "Lock":
						if held != "" {
							pathOK = false
							c.bad(rule, fname, "no nested acquire", pos, "Lock while the mutex is already held ("+held+"): deadlock")
						}
						held = "W"
					case "RUnlock":
						if held != "R" {
							pathOK = false
							c.bad(rule, fname, "RUnlock matches RLock", pos, "RUnlock without a matching RLock")
						}
						held = ""
					case "Unlock":
						if held != "W" {
							pathOK = false
							c.bad(rule, fname, "Unlock matches Lock", pos, "Unlock without a matching Lock")
						}
						held = ""
					}
					continue
				}
				// mutation of the context object
				if ct := lookupContract(e.Callee); ct != nil && published != nil {
					for _, w := range ct.Writes {
						if w < len(e.Args) && e.Args[w].Key() == published.Key() {
							c.check(held == "W", rule, fname, "mutation of the shared context by "+s+" under the write lock", pos, "W held", "the shared signing context is mutated by "+s+" without holding signingContextMu in write mode")
						}
					}
				}
			case EvDeref:
				if u, ok := e.Instr.(*ssa.UnOp); ok && u.Op == token.MUL {
					if fa, ok := e.X.(*FieldAddrV); ok && guarded[fa.Name] && ap(fa.X) == "SP" {
						c.check(held != "", rule, fname, "load of sp."+fa.Name+" under the lock", pos, held+" held", "sp."+fa.Name+" is read without holding signingContextMu: data race with the code that writes it")
					}
				}
			case EvStore:
				if fa, ok := e.Addr.(*FieldAddrV); ok && fa.Name == "signingContext" && ap(fa.X) == "SP" {
					c.check(held == "W", rule, fname, "store to sp.signingContext under the write lock", pos, "W held", "sp.signingContext is written without holding signingContextMu in write mode")
					published = e.Val
					continue
				}
				if fa, ok := e.Addr.(*FieldAddrV); ok && guarded[fa.Name] && ap(fa.X) == "SP" {
					c.check(held == "W", rule, fname, "store to sp."+fa.Name+" under the write lock", pos, "W held", "sp."+fa.Name+" is written without holding signingContextMu in write mode")
					continue
				}
				if published != nil && rootOf(e.Addr).Key() == published.Key() {
					c.check(held == "W", rule, fname, "store into the shared context ("+apLval(e.Addr)+") under the write lock", pos, "W held", "the published signing context is modified without the write lock")
				}
			}
		}
		c.check(held == "" && pathOK, rule, fname, "every acquire released on return ["+lockLabel(t)+"]", c.P.InstrPos(t.Instr), "lockset empty at return", "a path returns with signingContextMu still held ("+held+")")
	}
	return n
}

func lockLabel(t *Terminal) string {
	a := t.atoms()
	if a["!(SP.signingContext == nil)"] {
		return "cached"
	}
	if len(t.Vals) == 0 {
		return "path" // a lockset root without results (a setter-like helper)
	}
	return "creating:" + sourceOf(t.Vals[0])
}

// inputsUnmodified (C17-R5): a public operation does not write through what it was handed. For every exported function
// or method of the library that takes a pointer-carrying argument (other than the provider receiver, covered by R1, and
// the configuration setters), every path of its kernel (all helpers inlined) is free of stores, map updates and etree
// mutator calls on memory derived from such an argument — directly, through fields / elements, or through the tree
// observers Root() / Parent() / SelectElement… of it. Copies (Element.Copy) and fresh allocations are the operation's own.
func inputsUnmodified(c *Ctx, rule string, spT *types.Named) {
	c.rule(rule, "inputs are not modified: no store, map update or etree mutation through memory derived from a pointer-carrying argument of an exported operation (documents, elements, decoded messages, certificates); results are built on copies")
	config := map[string]bool{"SetSPKeyStore": true, "SetSPSigningKeyStore": true}
	var roots []*ssa.Function
	add := func(f *ssa.Function) {
		if f == nil || f.Blocks == nil || f.Object() == nil || !f.Object().Exported() || config[f.Name()] {
			return
		}
		// a method with an exported name on an unexported type is a helper, not a public operation
		if recv := f.Signature.Recv(); recv != nil {
			if nt, ok := derefT(recv.Type()).(*types.Named); ok && !nt.Obj().Exported() {
				return
			}
		}
		for i, p := range f.Params {
			if i == 0 && f.Signature.Recv() != nil && types.Identical(derefT(p.Type()), spT) {
				continue
			}
			if mayPointTo(p.Type()) {
				if _, isFn := p.Type().Underlying().(*types.Signature); isFn {
					continue
				}
				roots = append(roots, f)
				return
			}
		}
	}
	for _, pk := range c.P.Lib {
		for _, f := range pkgFunctions(pk) {
			if f.Parent() == nil && !isBoundWrapper(f) && f.Synthetic == "" {
				add(f)
			}
		}
	}
	sort.Slice(roots, func(i, j int) bool { return roots[i].String() < roots[j].String() })
	nRoots, nEff := 0, 0
	observers := map[string]bool{"(*etree.Document).Root": true, "(*etree.Element).Parent": true, "(*etree.Element).SelectElement": true, "(*etree.Element).SelectElements": true,
		"(*etree.Element).ChildElements": true, "(*etree.Element).FindElement": true, "(*etree.Element).FindElements": true, "(*etree.Element).SelectAttr": true}
	// the heavy inbound helpers are kernels of their own (as in C09); a pointer handed to one of them is checked against
	// that helper's write-effect summary at the call
	inline := []string{"*", "-(*SAMLServiceProvider).SigningContext"}
	for _, n := range sortedKeys(c09SubKernels) {
		inline = append(inline, "-"+n)
	}
	for _, f := range roots {
		res := c.kernelFn(f, inline...)
		if res == nil {
			continue
		}
		nRoots++
		isInput := func(pv *ParamV) bool {
			if pv.Fn != f {
				return false
			}
			if pv.Idx == 0 && f.Signature.Recv() != nil && types.Identical(derefT(pv.Type()), spT) {
				return false
			}
			return mayPointTo(pv.Type())
		}
		var derived func(v Val, d int) bool
		derived = func(v Val, d int) bool {
			if v == nil || d > 12 {
				return false
			}
			switch x := v.(type) {
			case *ParamV:
				return isInput(x)
			case *LoadV:
				return derived(x.Addr, d+1)
			case *FieldAddrV:
				return derived(x.X, d+1)
			case *IndexAddrV:
				return derived(x.X, d+1)
			case *FieldV:
				return mayPointTo(x.Type()) && derived(x.X, d+1)
			case *IndexV:
				return mayPointTo(x.Type()) && derived(x.X, d+1)
			case *SliceV:
				return derived(x.X, d+1)
			case *MakeIfaceV:
				return derived(x.X, d+1)
			case *ConvV:
				return mayPointTo(x.Type()) && derived(x.X, d+1)
			case *TypeAssertV:
				return derived(x.X, d+1)
			case *IterElemV:
				return derived(x.Root, d+1)
			case *MapElemV:
				// element of a comprehension: whatever the per-element expression denotes
				return mayPointTo(x.Type()) && derived(x.M.Elem, d+1)
			case *CallV:
				if observers[shortName(x.Callee)] && len(x.Args) > 0 {
					return derived(x.Args[0], d+1)
				}
			}
			return false
		}
		fname := shortFn(f)
		for _, t := range res.Terms {
			for _, e := range t.St.events {
				switch e.Kind {
				case EvStore:
					if derived(e.Addr, 0) {
						nEff++
						c.bad(rule, fname, "store "+apLval(e.Addr), c.P.InstrPos(e.Instr), "a public operation writes through its argument ("+apLval(e.Addr)+"): the caller's object is modified, repeated or concurrent calls on the same input interfere")
					}
				case EvMapUpdate:
					if derived(e.X, 0) {
						nEff++
						c.bad(rule, fname, "map update "+ap(e.X), c.P.InstrPos(e.Instr), "a public operation updates a map reachable from its argument")
					}
				case EvCall:
					if e.CalleeFn != nil && c.P.inModule(e.CalleeFn) && e.CalleeFn.Blocks != nil {
						// summarised module callee: does it write through the parameter that receives the input?
						eff := moduleEffect(c.P, e.CalleeFn, map[*ssa.Function]bool{})
						for i, a := range e.Args {
							if a != nil && eff.params[i] && mayPointTo(a.Type()) && derived(a, 0) {
								nEff++
								c.bad(rule, fname, "callee "+shortFn(e.CalleeFn)+" writes through "+ap(a), c.P.InstrPos(e.Instr), "a public operation hands its argument to "+shortFn(e.CalleeFn)+", which writes through it")
							}
						}
						continue
					}
					ct := lookupContract(e.Callee)
					if ct == nil {
						continue
					}
					if ct.TreeMutator && len(e.Args) > 0 && derived(e.Args[0], 0) {
						nEff++
						c.bad(rule, fname, "tree mutation "+shortName(e.Callee)+" on "+ap(e.Args[0]), c.P.InstrPos(e.Instr), "a public operation restructures the document / element it was given (instead of a copy)")
					}
				}
			}
		}
	}
	c.count(rule+"/operations-with-pointer-inputs", nRoots)
	c.floor(rule+"/operations-with-pointer-inputs", 15)
	if nEff == 0 {
		c.ok(rule, "library", "no write through an input", "-", fmt.Sprintf("%d exported operations with pointer-carrying arguments analysed on all paths", nRoots))
	}
}

func derefT(t types.Type) types.Type {
	if p, ok := t.Underlying().(*types.Pointer); ok {
		return p.Elem()
	}
	return t
}

// providerUnmodifiedPaths (C17-R6): the value-flow counterpart of R1 for memory that reaches a mutating call through
// locals and helper results — the configured private key travelling through a local tls.Certificate, a certificate
// slice handed out by the configured store. On every path of every exported provider method: no store, map update,
// mutating or unmodelled external call on a value derived from the provider (field loads, elements, results of
// non-fresh external calls on such values), SigningContext's cached context excepted (R2).
func providerUnmodifiedPaths(c *Ctx, rule string, spT *types.Named) {
	c.rule(rule, "configuration objects are not modified (value flow): on every path of every exported provider method no store, map update, mutating or unmodelled external call receives memory derived from the provider — including what configured key / certificate stores hand out and what travels through locals")
	config := map[string]bool{"SetSPKeyStore": true, "SetSPSigningKeyStore": true, "SigningContext": true}
	var roots []*ssa.Function
	ms := c.P.SSA.MethodSets.MethodSet(types.NewPointer(spT))
	for i := 0; i < ms.Len(); i++ {
		f := c.P.SSA.MethodValue(ms.At(i))
		if f == nil || f.Blocks == nil || !f.Object().Exported() || config[f.Name()] {
			continue
		}
		roots = append(roots, f)
	}
	// the heavy inbound helpers are analysed as kernels of their own (same split as C09), everything else inline
	inline := []string{"*", "-(*SAMLServiceProvider).SigningContext"}
	for _, n := range sortedKeys(c09SubKernels) {
		inline = append(inline, "-"+n)
		if fn := c.P.Fn(n); fn != nil && fn.Blocks != nil && len(fn.Params) > 0 && types.Identical(derefT(fn.Params[0].Type()), spT) {
			dup := false
			for _, r := range roots {
				if r == fn {
					dup = true
				}
			}
			if !dup {
				roots = append(roots, fn)
			}
		}
	}
	sort.Slice(roots, func(i, j int) bool { return roots[i].String() < roots[j].String() })
	nRoots, nCalls, nEff := 0, 0, 0
	seenSite := map[string]bool{}
	for _, f := range roots {
		res := c.kernelFn(f, inline...)
		if res == nil {
			continue
		}
		nRoots++
		var derived func(v Val, d int) bool
		derived = func(v Val, d int) bool {
			if v == nil || d > 14 {
				return false
			}
			switch x := v.(type) {
			case *ParamV:
				return x.Fn == f && x.Idx == 0
			case *LoadV:
				return derived(x.Addr, d+1)
			case *FieldAddrV:
				return derived(x.X, d+1)
			case *IndexAddrV:
				return derived(x.X, d+1)
			case *FieldV:
				return mayPointTo(x.Type()) && derived(x.X, d+1)
			case *IndexV:
				return mayPointTo(x.Type()) && derived(x.X, d+1)
			case *SliceV:
				return derived(x.X, d+1)
			case *MakeIfaceV:
				return derived(x.X, d+1)
			case *ConvV:
				return mayPointTo(x.Type()) && derived(x.X, d+1)
			case *TypeAssertV:
				return derived(x.X, d+1)
			case *IterElemV:
				return derived(x.Root, d+1)
			case *MapElemV:
				// element of a comprehension: whatever the per-element expression denotes
				return mayPointTo(x.Type()) && derived(x.M.Elem, d+1)
			case *AppendV:
				return derived(x.S, d+1)
			case *CallV:
				if !mayPointTo(x.Type()) {
					return false
				}
				if x.Fn != nil && c.P.inModule(x.Fn) {
					return false // summarised module callee: its own paths are analysed where it is a root or inlined
				}
				if ct := lookupContract(x.Callee); ct != nil && ct.Fresh {
					return false
				}
				for _, a := range x.Args {
					if a != nil && mayPointTo(a.Type()) && derivedDeep(derived, a, d+1) {
						return true
					}
				}
			}
			return false
		}
		fname := shortFn(f)
		report := func(e *Event, what, why string) {
			k := fname + "|" + what + "|" + c.P.InstrPos(e.Instr)
			if seenSite[k] {
				return
			}
			seenSite[k] = true
			nEff++
			c.bad(rule, fname, what, c.P.InstrPos(e.Instr), why)
		}
		for _, t := range res.Terms {
			for _, e := range t.St.events {
				switch e.Kind {
				case EvStore:
					if _, viaLocal := rootOf(e.Addr).(*AllocV); viaLocal {
						continue
					}
					if derived(e.Addr, 0) {
						report(e, "store "+apLval(e.Addr), "a public operation writes provider-reachable memory ("+apLval(e.Addr)+")")
					}
				case EvMapUpdate:
					if derived(e.X, 0) {
						report(e, "map update "+ap(e.X), "a public operation updates a map reachable from the provider")
					}
				case EvCall:
					if e.CalleeFn != nil && c.P.inModule(e.CalleeFn) {
						continue
					}
					if strings.HasPrefix(e.Callee, "dynamic:") {
						continue
					}
					ct := lookupContract(e.Callee)
					nCalls++
					for i, a := range e.Args {
						if a == nil || !mayPointTo(a.Type()) || !derived(a, 0) {
							continue
						}
						if _, isSP := a.(*ParamV); isSP {
							continue
						}
						switch {
						case ct == nil:
							if is, sealed := c.P.moduleIface(a.Type()); i == 0 && is && sealed {
								continue
							}
							if l, isL := a.(*LoadV); i == 0 && isL && strings.HasPrefix(e.Callee, "(") {
								// receiver is the interface value stored in a provider field: the application's plug-in
								if fa, isFA := l.Addr.(*FieldAddrV); isFA && isIfaceType(l.Type()) {
									if _, isP := fa.X.(*ParamV); isP {
										continue
									}
								}
							}
							report(e, "unmodelled callee "+shortName(e.Callee)+" receives "+ap(a), "an external callee outside the contract table receives memory derived from the provider's configuration ("+ap(a)+") and may modify it")
						case ct.TreeMutator && i == 0:
							report(e, "tree mutation "+shortName(e.Callee)+" on "+ap(a), "a public operation restructures a tree reachable from the provider")
						default:
							for _, w := range ct.Writes {
								if w == i {
									report(e, "mutating call "+shortName(e.Callee)+" on "+ap(a), "a public operation mutates configuration-derived memory through "+shortName(e.Callee))
								}
							}
						}
					}
				}
			}
		}
	}
	c.count(rule+"/provider-methods", nRoots)
	c.floor(rule+"/provider-methods", 30)
	c.count(rule+"/external-calls-examined", nCalls)
	c.floor(rule+"/external-calls-examined", 200)
	if nEff == 0 {
		c.ok(rule, "library", "no write to configuration-derived memory", "-", fmt.Sprintf("%d exported provider methods analysed on all paths, %d external call events examined", nRoots, nCalls))
	}
}

// derivedDeep: v, or something stored in a local aggregate v denotes, is derived (struct literals assembled in locals).
func derivedDeep(derived func(Val, int) bool, v Val, d int) bool {
	if derived(v, d) {
		return true
	}
	if sl, ok := v.(*StructLitV); ok {
		for _, f := range sl.Fields {
			if f != nil && mayPointTo(f.Type()) && derived(f, d+1) {
				return true
			}
		}
	}
	return false
}

// guardedState: the provider fields the library itself writes (outside the configuration setters) — the lazily created
// signing context and whatever further cache / bookkeeping fields a refactoring adds — plus the mutex; and the
// top-level functions that touch any of them. Those functions are the roots of the lockset rule (R2): every load of
// such a field holds signingContextMu, every store holds it in write mode.
// guardedCovered: functions touching guarded state that are not roots themselves but only run inside one.
var guardedCovered = map[*ssa.Function]bool{}

func guardedState(p *Prog, spT *types.Named) (fields map[string]bool, roots map[*ssa.Function]bool) {
	guardedCovered = map[*ssa.Function]bool{}
	fields = map[string]bool{"signingContext": true}
	roots = map[*ssa.Function]bool{}
	config := map[string]bool{"SetSPKeyStore": true, "SetSPSigningKeyStore": true}
	spField := func(fa *ssa.FieldAddr) (string, bool) {
		st, ok := derefStruct(fa.X.Type())
		if !ok || !types.Identical(st, spT) {
			return "", false
		}
		return st.Underlying().(*types.Struct).Field(fa.Field).Name(), true
	}
	for _, fn := range p.LibFns {
		if config[topFn(fn).Name()] {
			continue
		}
		for _, b := range fn.Blocks {
			for _, in := range b.Instrs {
				if st, ok := in.(*ssa.Store); ok {
					if fa, ok := st.Addr.(*ssa.FieldAddr); ok {
						if name, ok := spField(fa); ok && name != "signingContextMu" {
							fields[name] = true
						}
					}
				}
			}
		}
	}
	for _, fn := range p.LibFns {
		if config[topFn(fn).Name()] {
			continue
		}
		for _, b := range fn.Blocks {
			for _, in := range b.Instrs {
				if fa, ok := in.(*ssa.FieldAddr); ok {
					if name, ok := spField(fa); ok && (fields[name] || name == "signingContextMu") {
						roots[topFn(fn)] = true
					}
				}
			}
		}
	}
	// a helper that is only ever called from other such functions (an "…Locked" helper invoked with the mutex held) is
	// analysed in their context, where it is stepped through, not on its own
	for f := range roots {
		if isPublicFn(f) || len(p.callerIndex()[f]) == 0 {
			continue
		}
		others := func(g *ssa.Function) bool { return g != f && roots[g] }
		if p.withinOnly(f, others) {
			delete(roots, f)
			guardedCovered[f] = true
		}
	}
	return fields, roots
}

func containsInt(xs []int, k int) bool {
	for _, x := range xs {
		if x == k {
			return true
		}
	}
	return false
}

// pluginField: the value is an interface loaded directly from a field of the provider parameter (sp.Observer).
func pluginField(v ssa.Value) bool {
	if !isIfaceType(v.Type()) {
		return false
	}
	ld, ok := v.(*ssa.UnOp)
	if !ok || ld.Op != token.MUL {
		return false
	}
	fa, ok := ld.X.(*ssa.FieldAddr)
	if !ok {
		return false
	}
	p, ok := fa.X.(*ssa.Parameter)
	return ok && strings.HasSuffix(typeStr(p.Type()), "SAMLServiceProvider")
}

func isIfaceType(t types.Type) bool {
	if t == nil {
		return false
	}
	_, ok := t.Underlying().(*types.Interface)
	return ok
}

// returnsViaParam: some return value of the module function is memory loaded through one of its pointer parameters
// (possibly by way of another module function that does so). Returns that parameter's index.
func returnsViaParam(fn *ssa.Function, seen map[*ssa.Function]bool) (int, bool) {
	if fn == nil || fn.Blocks == nil || seen[fn] {
		return 0, false
	}
	seen[fn] = true
	paramOf := func(v ssa.Value) (int, bool) {
		var walk func(v ssa.Value, depth int, loaded bool) (int, bool)
		walk = func(v ssa.Value, depth int, loaded bool) (int, bool) {
			if depth > 8 {
				return 0, false
			}
			switch x := v.(type) {
			case *ssa.Parameter:
				if !loaded {
					return 0, false
				}
				for i, q := range fn.Params {
					if q == x {
						return i, true
					}
				}
			case *ssa.UnOp:
				if x.Op == token.MUL {
					// a result spilled to a local because of a defer: what was stored there
					if al, isAl := x.X.(*ssa.Alloc); isAl {
						if refs := al.Referrers(); refs != nil {
							for _, r := range *refs {
								if st, isSt := r.(*ssa.Store); isSt && st.Addr == ssa.Value(al) {
									if i, ok := walk(st.Val, depth+1, loaded); ok {
										return i, true
									}
								}
							}
						}
						return 0, false
					}
					return walk(x.X, depth+1, true)
				}
			case *ssa.FieldAddr:
				return walk(x.X, depth+1, loaded)
			case *ssa.IndexAddr:
				return walk(x.X, depth+1, loaded)
			case *ssa.Extract:
				return walk(x.Tuple, depth+1, loaded)
			case *ssa.ChangeType:
				return walk(x.X, depth+1, loaded)
			case *ssa.Phi:
				for _, e := range x.Edges {
					if i, ok := walk(e, depth+1, loaded); ok {
						return i, true
					}
				}
			case *ssa.Call:
				if c := x.Common().StaticCallee(); c != nil && c.Blocks != nil && c.Pkg == fn.Pkg {
					if j, ok := returnsViaParam(c, seen); ok && j < len(x.Common().Args) {
						return walk(x.Common().Args[j], depth+1, true)
					}
				}
			}
			return 0, false
		}
		return walk(v, 0, false)
	}
	for _, b := range fn.Blocks {
		for _, in := range b.Instrs {
			ret, ok := in.(*ssa.Return)
			if !ok {
				continue
			}
			for _, r := range ret.Results {
				if !mayPointTo(r.Type()) {
					continue
				}
				if i, ok := paramOf(r); ok {
					return i, true
				}
			}
		}
	}
	return 0, false
}

// contractNonNilVal: a call result that its contract makes non-nil (always, or when its error is nil on this path).
func contractNonNilVal(t *Terminal, v Val) bool {
	cv, ok := v.(*CallV)
	if !ok {
		return false
	}
	if contractNonNil(cv) {
		return true
	}
	ct := lookupContract(cv.Callee)
	if ct == nil || cv.N < 2 {
		return false
	}
	for _, i := range ct.OkNonNil {
		if i == cv.Idx {
			errV := mkCall(cv.Callee, cv.Fn, cv.Args, cv.Site, cv.N-1, cv.N, nil)
			if isNil, known := t.eqFact(errV, nilOf(nil)); known && isNil {
				return true
			}
		}
	}
	return false
}
