package main

import (
	"flag"
	"fmt"
	"os"
	"sort"
	"strings"

	"golang.org/x/tools/go/ssa"
)

func main() {
	repo := flag.String("repo", "/repo", "repository to analyse")
	prop := flag.String("prop", "", "property id (C01..C20) or 'all'")
	tier := flag.String("tier", "quick", "quick|thorough")
	dump := flag.String("dump", "", "debug: dump path terminals of a function")
	inl := flag.String("inline", "", "debug: comma separated functions to inline for -dump ('*' = all module)")
	verbose := flag.Bool("v", false, "verbose")
	out := flag.String("out", "/verif", "verif directory (evidence/, reports/)")
	explain := flag.String("explain", "", "re-analyse and print the obligations recorded in this report")
	controlsFlag := flag.String("controls", "", "directory with positive-control packages (default <out>/controls)")
	flag.Parse()

	if *dump != "" {
		p, err := Load(LoadOpts{Repo: *repo})
		if err != nil {
			fmt.Fprintln(os.Stderr, err)
			os.Exit(2)
		}
		os.Exit(dumpFn(p, *dump, *inl, *verbose))
	}
	if *prop == "" {
		fmt.Fprintln(os.Stderr, "usage: samlcheck -prop C01 [-tier quick|thorough] [-repo /repo]")
		os.Exit(2)
	}
	controlsOverride = *controlsFlag
	os.Exit(runChecks(*repo, *prop, *tier, *out, *explain, *verbose))
}

func dumpFn(p *Prog, name, inl string, verbose bool) int {
	fn := p.Fn(name)
	if fn == nil {
		fmt.Fprintln(os.Stderr, "no such function", name)
		return 2
	}
	en := NewEngine(p)
	set := map[string]bool{}
	for _, s := range strings.Split(inl, ",") {
		if s != "" {
			set[s] = true
		}
	}
	en.Inline = func(caller, callee *ssa.Function, depth int) bool {
		if set["*"] {
			return true
		}
		if callee.Parent() != nil { // closures follow their parent
			return true
		}
		return set[shortFn(callee)]
	}
	res, err := en.Run(fn)
	if err != nil {
		fmt.Fprintln(os.Stderr, err)
		return 2
	}
	fmt.Printf("kernel %s: %d terminals, %d pruned, %d steps\n", shortFn(fn), len(res.Terms), res.Pruned, res.Steps)
	for i, t := range res.Terms {
		vs := make([]string, len(t.Vals))
		for j, v := range t.Vals {
			vs[j] = shortName(v.Key())
		}
		mark := ""
		if newBounds(t, -1).inconsistent() {
			mark = " [ARITH-INCONSISTENT]"
		}
		if timeInconsistent(t) {
			mark += " [TIME-INCONSISTENT]"
		}
		fmt.Printf("--- #%d %s at %s: (%s)%s\n", i, t.Kind, p.InstrPos(t.Instr), strings.Join(vs, ", "), mark)
		for _, f := range t.St.facts {
			fmt.Printf("    fact %s\n", f)
		}
		if verbose {
			for _, e := range t.St.events {
				if e.Kind == EvCall || e.Kind == EvStore || e.Kind == EvEnter || e.Kind == EvIterEnter || e.Kind == EvLoopEnter || e.Kind == EvLoopBack {
					fmt.Printf("    ev   %s %v\n", e, e.Iters)
				}
			}
		}
	}
	ks := sortedKeys(en.Unmodelled)
	sort.Strings(ks)
	for _, k := range ks {
		fmt.Printf("unmodelled: %s x%d\n", k, en.Unmodelled[k])
	}
	for _, e := range en.Errors {
		fmt.Printf("engine-error: %s\n", e)
	}
	return 0
}
