package main

// Live-object hygiene (seed round 13: "diagnostics" that perturb what they observe). Two library-wide effect scans that
// several properties share:
//
//   treeHygiene  — which mutating entry points of etree / goxmldsig the library uses, and which fields of etree's node
//                  structs it stores to, is a frozen table read off the pinned tree. A call or store outside the table
//                  (Indent, Unindent, SortAttrs, a canonicaliser run over a live element, CharData.Data rewritten) is a
//                  violation unless its receiver is a tree the same function made (NewDocument / Copy / NSDetatch).
//   aliasingAppend — `append(x[:k], …)` over bytes the function did not make itself overwrites x[k:], which the owner
//                  of x still reads.

import (
	"go/token"
	"go/types"
	"os"
	"sort"
	"strings"

	"golang.org/x/tools/go/ssa"
)

// etree methods that only read.
var etreeReadOnly = map[string]bool{
	"Root": true, "Copy": true, "Parent": true, "Index": true, "Text": true, "Tail": true, "ChildElements": true,
	"SelectAttr": true, "SelectAttrValue": true, "SelectElement": true, "SelectElements": true, "FindElement": true,
	"FindElements": true, "FindElementPath": true, "FindElementsPath": true, "GetPath": true, "GetRelativePath": true,
	"WriteTo": true, "WriteToBytes": true, "WriteToString": true, "WriteToFile": true, "FullTag": true, "NamespaceURI": true,
	"FullKey": true, "Element": true, "NotNil": true, "IsCData": true, "IsWhitespace": true, "NextSibling": true, "PrevSibling": true,
}

// the mutating etree / dsig entry points the pinned tree uses (anywhere in library scope), by callee.
var treeMutatorsInUse = map[string]bool{
	"(*etree.Element).AddChild": true, "(*etree.Element).RemoveChild": true, "(*etree.Element).RemoveChildAt": true,
	"(*etree.Element).InsertChildAt": true, "(*etree.Element).CreateAttr": true, "(*etree.Element).CreateElement": true,
	"(*etree.Element).SetText": true, "(*etree.Document).SetRoot": true, "(*etree.Document).ReadFromBytes": true,
	"(*etree.Document).ReadFrom": true, "(*etree.Document).ReadFromString": true, "(*etree.Element).CreateText": true,
}

// the node fields the pinned tree assigns directly (the Sign* functions splice the signature into the copy's child list and
// the builders name their root); what is stored there is C13-R1 / C15's business, wherever the statement lives.
var treeStoresInUse = map[string]bool{"store etree.Element.Child": true, "store etree.Element.Space": true, "store etree.Element.Tag": true}

func isEtreeNodeType(t types.Type) bool {
	ts := typeStr(t)
	ts = strings.TrimPrefix(ts, "*")
	switch ts {
	case "etree.Element", "etree.Document", "etree.CharData", "etree.Attr", "etree.Comment", "etree.Directive", "etree.ProcInst":
		return true
	}
	return false
}

// freshTree: v is a tree this function obtained as its own — NewDocument / NewElement / Copy / NSDetatch / a composite
// literal — possibly through phis of such.
func freshTree(v ssa.Value, depth int) bool {
	if depth > 4 {
		return false
	}
	switch x := v.(type) {
	case *ssa.Call:
		n, _ := calleeName(x.Common())
		sn := shortName(n)
		switch {
		case sn == "etree.NewDocument", sn == "etree.NewElement", sn == "etree.NewDocumentWithRoot", strings.HasSuffix(sn, ").Copy"),
			sn == "etreeutils.NSDetatch", sn == "etree.NewText", sn == "etree.NewCData":
			return true
		case strings.HasSuffix(sn, ").Root"), strings.HasSuffix(sn, ").CreateElement"), strings.HasSuffix(sn, ").CreateAttr"):
			// a node of a tree that is itself fresh
			if len(x.Call.Args) > 0 {
				return freshTree(x.Call.Args[0], depth+1)
			}
		}
	case *ssa.Extract:
		return freshTree(x.Tuple, depth+1)
	case *ssa.Alloc:
		// a local node value — unless it was filled by copying an existing node (`pretty := *doc` shares doc's children)
		if refs := x.Referrers(); refs != nil {
			for _, r := range *refs {
				if st, isSt := r.(*ssa.Store); isSt && st.Addr == ssa.Value(x) {
					if ld, isLd := st.Val.(*ssa.UnOp); isLd && ld.Op == token.MUL && !freshTree(ld.X, depth+1) {
						return false
					}
				}
			}
		}
		return true
	case *ssa.Phi:
		for _, e := range x.Edges {
			if !freshTree(e, depth+1) {
				return false
			}
		}
		return len(x.Edges) > 0
	case *ssa.UnOp:
		if x.Op == token.MUL {
			if al, ok := x.X.(*ssa.Alloc); ok {
				// a local variable: every store to it is a fresh tree
				okAll, n := true, 0
				if refs := al.Referrers(); refs != nil {
					for _, r := range *refs {
						if st, isSt := r.(*ssa.Store); isSt && st.Addr == ssa.Value(al) {
							n++
							if c, isC := st.Val.(*ssa.Const); isC && c.IsNil() {
								continue
							}
							if !freshTree(st.Val, depth+1) {
								okAll = false
							}
						}
					}
				}
				return okAll && n > 0
			}
		}
	}
	return false
}

type hygieneFinding struct {
	fn   *ssa.Function
	pos  token.Pos
	what string
	key  string
}

var hygieneCache []hygieneFinding
var hygieneDone bool
var hygieneSites int

func hygieneScan(c *Ctx) ([]hygieneFinding, int) {
	if hygieneDone {
		return hygieneCache, hygieneSites
	}
	hygieneDone = true
	debug := os.Getenv("VERIF_DEBUG_TREE") != ""
	inv := map[string]int{}
	for _, f := range c.P.LibFns {
		for _, b := range f.Blocks {
			for _, in := range b.Instrs {
				switch x := in.(type) {
				case ssa.CallInstruction:
					name, _ := calleeName(x.Common())
					sn := shortName(name)
					var recv ssa.Value
					if len(x.Common().Args) > 0 {
						recv = x.Common().Args[0]
					}
					switch {
					case strings.HasPrefix(sn, "(*etree."):
						m := sn[strings.LastIndex(sn, ".")+1:]
						if etreeReadOnly[m] {
							continue
						}
						hygieneSites++
						inv[sn]++
						if treeMutatorsInUse[sn] || (recv != nil && freshTree(recv, 0)) {
							continue
						}
						hygieneCache = append(hygieneCache, hygieneFinding{f, in.Pos(), "call " + sn + " on a tree the function did not make: not among the tree-changing operations the library uses (" + m + " rewrites the live message)", sn})
					case strings.HasSuffix(sn, ").Canonicalize") && x.Common().IsInvoke() || strings.HasSuffix(sn, "Canonicalizer).Canonicalize"):
						hygieneSites++
						inv[sn]++
						args := x.Common().Args
						var el ssa.Value
						if x.Common().IsInvoke() && len(args) > 0 {
							el = args[0]
						} else if len(args) > 1 {
							el = args[1]
						}
						if el != nil && freshTree(el, 0) {
							continue
						}
						hygieneCache = append(hygieneCache, hygieneFinding{f, in.Pos(), "canonicaliser run over a live element: goxmldsig's canonicalisers rewrite the element they are given", sn})
					}
				case *ssa.Store:
					// stores into fields / slots of etree node structs
					var base ssa.Value = x.Addr
					field := ""
					for {
						switch a := base.(type) {
						case *ssa.FieldAddr:
							if st, ok := derefStruct(a.X.Type()); ok && isEtreeNodeType(st) && field == "" {
								field = strings.TrimPrefix(typeStr(st), "*") + "." + st.Underlying().(*types.Struct).Field(a.Field).Name()
							}
							base = a.X
							continue
						case *ssa.IndexAddr:
							base = a.X
							continue
						case *ssa.UnOp:
							if a.Op == token.MUL {
								// element of a slice loaded from a node field (el.Attr[i].Value = …)
								if fa, ok := a.X.(*ssa.FieldAddr); ok {
									if st, ok := derefStruct(fa.X.Type()); ok && isEtreeNodeType(st) && field == "" {
										field = strings.TrimPrefix(typeStr(st), "*") + "." + st.Underlying().(*types.Struct).Field(fa.Field).Name() + "[]"
									}
									base = fa.X
									continue
								}
							}
						}
						break
					}
					if field == "" {
						continue
					}
					hygieneSites++
					inv["store "+field]++
					if treeStoresInUse["store "+field] || freshTree(base, 0) || constructionOnly(x) {
						continue
					}
					hygieneCache = append(hygieneCache, hygieneFinding{f, in.Pos(), "store to " + field + " of a tree the function did not make", "store " + field})
				}
			}
		}
	}
	if debug {
		var ks []string
		for k := range inv {
			ks = append(ks, k)
		}
		sort.Strings(ks)
		for _, k := range ks {
			println("TREE-INV", k, inv[k])
		}
		for _, h := range hygieneCache {
			println("TREE-FINDING", shortFn(h.fn), h.what)
		}
	}
	return hygieneCache, hygieneSites
}

// treeHygiene reports the findings of the scan that lie in the call-graph cone of the given roots.
func treeHygiene(c *Ctx, rule string, roots []string) {
	finds, sites := hygieneScan(c)
	var rf []*ssa.Function
	for _, r := range roots {
		if f := c.P.Fn(r); f != nil {
			rf = append(rf, f)
		}
	}
	cone := map[*ssa.Function]bool{}
	for _, f := range moduleCone(c.P, rf) {
		cone[f] = true
	}
	for _, h := range finds {
		if cone[h.fn] || cone[topFn(h.fn)] {
			c.bad(rule, shortFn(h.fn), h.key, c.P.Pos(h.pos), h.what)
		}
	}
	c.count(rule+"/tree-changing sites", sites)
	c.floor(rule+"/tree-changing sites", 20)
	if len(finds) == 0 {
		c.ok(rule, "library", "tree-changing operations within the frozen table", "-", "every mutating etree / canonicaliser call and node-field store is in the table or on a tree made by the same function")
	}
	// positive control
	fired := 0
	saveC, saveS, saveD := hygieneCache, hygieneSites, hygieneDone
	hygieneCache, hygieneSites, hygieneDone = nil, 0, false
	lib := c.P.LibFns
	c.P.LibFns = controlFns(c, "treemut")
	ctl, _ := hygieneScan(c)
	c.P.LibFns = lib
	for _, h := range ctl {
		if strings.Contains(h.key, "SortAttrs") || strings.Contains(h.key, "Indent") {
			fired++
		}
	}
	hygieneCache, hygieneSites, hygieneDone = saveC, saveS, saveD
	c.Controls[rule+" treemut"] = fired >= 2
	if fired < 2 {
		c.bad(rule, "controls/treemut", "positive control", "-", "scan did not flag the control that sorts / indents a live tree")
	}
}

// outboundRoots: the exported message-building operations of the service provider (Build*, Sign*, AuthRedirect).
func outboundRoots(c *Ctx) []string {
	var out []string
	for _, f := range c.P.LibFns {
		if f.Parent() != nil || f.Signature.Recv() == nil || !isPublicFn(f) {
			continue
		}
		if !strings.HasSuffix(typeStr(f.Signature.Recv().Type()), "SAMLServiceProvider") {
			continue
		}
		n := f.Name()
		if strings.HasPrefix(n, "Build") || strings.HasPrefix(n, "Sign") || n == "AuthRedirect" {
			out = append(out, shortFn(f))
		}
	}
	sort.Strings(out)
	return out
}

// ownBytes: v is a byte slice this function made (make, a literal, a conversion, append onto nil/own) — re-slicing it
// and appending overwrites nothing anybody else holds.
func ownBytes(v ssa.Value, depth int) bool {
	if depth > 6 {
		return false
	}
	switch x := v.(type) {
	case *ssa.MakeSlice:
		return true
	case *ssa.Const:
		return true // nil
	case *ssa.Convert:
		return true // []byte(string) allocates
	case *ssa.Slice:
		if al, ok := x.X.(*ssa.Alloc); ok {
			_ = al
			return true // slice of a local array
		}
		return ownBytes(x.X, depth+1)
	case *ssa.Call:
		if b, ok := x.Common().Value.(*ssa.Builtin); ok && b.Name() == "append" {
			return ownBytes(x.Common().Args[0], depth+1)
		}
		n, _ := calleeName(x.Common())
		switch shortName(n) {
		case "bytes.Repeat", "bytes.Clone", "slices.Clone", "io.ReadAll", "(*encoding/base64.Encoding).DecodeString", "encoding/hex.DecodeString":
			return false // made by the callee, but handed on: the caller's "own" only if nobody else reads it — not decided here
		}
	case *ssa.Phi:
		for _, e := range x.Edges {
			if e == ssa.Value(x) {
				continue
			}
			if !ownBytes(e, depth+1) {
				return false
			}
		}
		return true
	}
	return false
}

// aliasingAppend (C11-R11, C12-R7): in the cone of the roots there is no `append(x[:k], …)` over a byte slice x the
// function did not make — the appended bytes land in x[k:], which the holder of x still reads (a "preview" helper that
// truncates with an ellipsis rewrites the plaintext / the inflated document it was shown).
func aliasingAppend(c *Ctx, rule string, roots []string, ctl bool) {
	var rf []*ssa.Function
	for _, r := range roots {
		if f := c.P.Fn(r); f != nil {
			rf = append(rf, f)
		}
	}
	scan := func(fns []*ssa.Function, report func(f *ssa.Function, in ssa.Instruction, what string)) int {
		n := 0
		for _, f := range fns {
			for _, b := range f.Blocks {
				for _, in := range b.Instrs {
					call, ok := in.(*ssa.Call)
					if !ok {
						continue
					}
					bi, ok := call.Common().Value.(*ssa.Builtin)
					if !ok || bi.Name() != "append" || len(call.Common().Args) == 0 {
						continue
					}
					n++
					sl, ok := call.Common().Args[0].(*ssa.Slice)
					if !ok || sl.High == nil || sl.Max != nil {
						continue // append(x, …) grows x itself; a three-index slice caps what append may overwrite
					}
					if et, ok := sl.Type().Underlying().(*types.Slice); !ok || typeStr(et.Elem()) != "byte" {
						continue
					}
					if hc, isC := sl.High.(*ssa.Const); isC && hc.Int64() == 0 {
						if ownBytes(sl.X, 0) {
							continue
						}
					}
					if ownBytes(sl.X, 0) {
						continue
					}
					report(f, in, "append onto the prefix "+renderOperand(sl.X)+"[:"+renderOperand(sl.High)+"] of bytes this function did not make: the appended bytes overwrite what follows the prefix in the caller's data")
				}
			}
		}
		return n
	}
	nbad := 0
	n := scan(moduleCone(c.P, rf), func(f *ssa.Function, in ssa.Instruction, what string) {
		nbad++
		c.bad(rule, shortFn(f), "append over a prefix of live bytes", c.P.InstrPos(in), what)
	})
	c.count(rule+"/appends", n)
	if nbad == 0 {
		c.ok(rule, "inbound cone", "no append over a prefix of live bytes", "-", "every append extends its own operand, a three-index slice, or bytes the function made")
	}
	if ctl {
		fired := 0
		scan(controlFns(c, "treemut"), func(f *ssa.Function, in ssa.Instruction, what string) { fired++ })
		c.Controls[rule+" treemut"] = fired > 0
		if fired == 0 {
			c.bad(rule, "controls/treemut", "positive control", "-", "scan did not flag the control that truncates with append(b[:16], …)")
		}
	}
}

// rawXMLFields (C19-R5): no field in the type tree of the published descriptor is emitted raw by encoding/xml —
// `,comment` (Marshal fails on "--", and on a trailing "-") and `,innerxml` (verbatim) take configuration strings out of
// the escaping that attributes, elements and `,chardata` get.
func rawXMLFields(c *Ctx, rule string, root types.Type) int {
	seen := map[string]bool{}
	n := 0
	var walk func(t types.Type, path string, depth int)
	walk = func(t types.Type, path string, depth int) {
		if depth > 8 {
			return
		}
		switch u := t.(type) {
		case *types.Pointer:
			walk(u.Elem(), path, depth)
			return
		case *types.Slice:
			walk(u.Elem(), path, depth)
			return
		case *types.Array:
			walk(u.Elem(), path, depth)
			return
		case *types.Named:
			if seen[u.String()] {
				return
			}
			seen[u.String()] = true
			if u.Obj().Pkg() != nil && u.Obj().Pkg().Path() == "time" {
				return
			}
			path = u.Obj().Name()
		}
		st, ok := t.Underlying().(*types.Struct)
		if !ok {
			return
		}
		for i := 0; i < st.NumFields(); i++ {
			f := st.Field(i)
			tag := reflectTag(st.Tag(i), "xml")
			n++
			opts := strings.Split(tag, ",")
			raw := ""
			for _, o := range opts[1:] {
				if o == "comment" || o == "innerxml" {
					raw = o
				}
			}
			if tag == "-" {
				continue
			}
			if raw != "" {
				c.bad(rule, path+"."+f.Name(), "field emitted through encoding/xml's escaping", c.P.Pos(f.Pos()), "field "+path+"."+f.Name()+" is tagged `,"+raw+"`: its text is emitted without escaping (a comment containing \"--\" makes Marshal fail; innerxml is verbatim), so some issuer / URL strings no longer serialise to well-formed metadata")
				continue
			}
			walk(f.Type(), path+"."+f.Name(), depth+1)
		}
	}
	walk(root, "", 0)
	return n
}
