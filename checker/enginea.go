package main

// Engine A: type-resolved API-usage scans (who-may-call, argument shape, package identity).

import (
	"go/types"

	"golang.org/x/tools/go/ssa"
)

type callSite struct {
	Caller *ssa.Function
	Callee string // resolved name: pkg.Func, (*pkg.T).M or (pkg.I).M for interface invokes
	Fn     *ssa.Function
	Instr  ssa.CallInstruction
}

func calleeName(c *ssa.CallCommon) (string, *ssa.Function) {
	if c.IsInvoke() {
		return "(" + types.TypeString(c.Value.Type(), nil) + ")." + c.Method.Name(), nil
	}
	switch v := c.Value.(type) {
	case *ssa.Function:
		return v.String(), v
	case *ssa.MakeClosure:
		f := v.Fn.(*ssa.Function)
		return f.String(), f
	case *ssa.Builtin:
		return "builtin:" + v.Name(), nil
	}
	return "", nil
}

// scanCalls visits every call instruction (call, go, defer) in fns whose resolved callee satisfies pred.
func scanCalls(p *Prog, fns []*ssa.Function, pred func(string) bool, visit func(callSite)) int {
	n := 0
	for _, f := range fns {
		for _, b := range f.Blocks {
			for _, in := range b.Instrs {
				ci, ok := in.(ssa.CallInstruction)
				if !ok {
					continue
				}
				name, fn := calleeName(ci.Common())
				if name != "" && pred(name) {
					n++
					visit(callSite{Caller: f, Callee: name, Fn: fn, Instr: ci})
				}
			}
		}
		// function values referenced without being called (method values, callbacks)
		for _, b := range f.Blocks {
			for _, in := range b.Instrs {
				if _, isCall := in.(ssa.CallInstruction); isCall {
					continue
				}
				for _, op := range in.Operands(nil) {
					if op == nil || *op == nil {
						continue
					}
					if fv, ok := (*op).(*ssa.Function); ok && pred(fv.String()) {
						n++
						visit(callSite{Caller: f, Callee: fv.String(), Fn: fv})
					}
				}
			}
		}
	}
	return n
}

func controlFns(c *Ctx, name string) []*ssa.Function {
	fns := c.P.Ctl[name]
	if len(fns) == 0 {
		c.bad("controls", name, "positive control package", "-", "control package "+name+" was not loaded (controls directory missing?)")
	}
	return fns
}

// topFn returns the outermost enclosing function of fn.
func topFn(fn *ssa.Function) *ssa.Function {
	for fn != nil && fn.Parent() != nil {
		fn = fn.Parent()
	}
	return fn
}
