package main

// Engine A: type-resolved API-usage scans (who-may-call, argument shape, package identity).

import (
	"fmt"
	"go/token"
	"go/types"
	"strings"

	"golang.org/x/tools/go/ssa"
)

type callSite struct {
	Caller *ssa.Function
	Callee string // resolved name: pkg.Func, (*pkg.T).M or (pkg.I).M for interface invokes
	Fn     *ssa.Function
	Instr  ssa.CallInstruction
}

func calleeName(c *ssa.CallCommon) (string, *ssa.Function) {
	if c.IsInvoke() {
		return "(" + types.TypeString(c.Value.Type(), nil) + ")." + c.Method.Name(), nil
	}
	switch v := c.Value.(type) {
	case *ssa.Function:
		return v.String(), v
	case *ssa.MakeClosure:
		f := v.Fn.(*ssa.Function)
		return f.String(), f
	case *ssa.Builtin:
		return "builtin:" + v.Name(), nil
	}
	return "", nil
}

// scanCalls visits every call instruction (call, go, defer) in fns whose resolved callee satisfies pred.
func scanCalls(p *Prog, fns []*ssa.Function, pred func(string) bool, visit func(callSite)) int {
	n := 0
	for _, f := range fns {
		for _, b := range f.Blocks {
			for _, in := range b.Instrs {
				ci, ok := in.(ssa.CallInstruction)
				if !ok {
					continue
				}
				name, fn := calleeName(ci.Common())
				if name != "" && pred(name) {
					n++
					visit(callSite{Caller: f, Callee: name, Fn: fn, Instr: ci})
				}
			}
		}
		// function values referenced without being called (method values, callbacks)
		for _, b := range f.Blocks {
			for _, in := range b.Instrs {
				if _, isCall := in.(ssa.CallInstruction); isCall {
					continue
				}
				for _, op := range in.Operands(nil) {
					if op == nil || *op == nil {
						continue
					}
					if fv, ok := (*op).(*ssa.Function); ok && pred(fv.String()) {
						n++
						visit(callSite{Caller: f, Callee: fv.String(), Fn: fv})
					}
				}
			}
		}
	}
	return n
}

func controlFns(c *Ctx, name string) []*ssa.Function {
	fns := c.P.Ctl[name]
	if len(fns) == 0 {
		c.bad("controls", name, "positive control package", "-", "control package "+name+" was not loaded (controls directory missing?)")
	}
	return fns
}

// topFn returns the outermost enclosing function of fn.
func topFn(fn *ssa.Function) *ssa.Function {
	for fn != nil && fn.Parent() != nil {
		fn = fn.Parent()
	}
	return fn
}

// ---------------------------------------------------------------- caller closure

// callerIndex maps every library function to the functions that call it or take its value.
func (p *Prog) callerIndex() map[*ssa.Function]map[*ssa.Function]bool {
	if p.callers != nil {
		return p.callers
	}
	idx := map[*ssa.Function]map[*ssa.Function]bool{}
	add := func(callee, caller *ssa.Function) {
		if callee == nil {
			return
		}
		if idx[callee] == nil {
			idx[callee] = map[*ssa.Function]bool{}
		}
		idx[callee][caller] = true
	}
	var fns []*ssa.Function
	for _, pk := range p.All {
		if pk.Module != nil && pk.Module.Path == modPath {
			if sp := p.SSA.Package(pk.Types); sp != nil {
				fns = append(fns, pkgFunctions(sp)...)
			}
		}
	}
	fns = p.withInstances(fns)
	for _, f := range fns {
		for _, b := range f.Blocks {
			for _, in := range b.Instrs {
				if ci, ok := in.(ssa.CallInstruction); ok && ci.Common().IsInvoke() {
					// interface call on an interface declared in the module: every module implementation is a callee
					for _, m := range p.moduleImpls(ci.Common()) {
						add(m, f)
					}
				}
				for _, op := range in.Operands(nil) {
					if op == nil || *op == nil {
						continue
					}
					switch v := (*op).(type) {
					case *ssa.Function:
						add(v, f)
						// bound-method / thunk wrappers stand for the method they wrap
						if v.Synthetic != "" {
							for _, bb := range v.Blocks {
								for _, ii := range bb.Instrs {
									if ci, ok := ii.(ssa.CallInstruction); ok {
										if sc := ci.Common().StaticCallee(); sc != nil {
											add(sc, f)
										}
									}
								}
							}
						}
					case *ssa.MakeClosure:
						fn := v.Fn.(*ssa.Function)
						add(fn, f)
						if fn.Synthetic != "" {
							for _, bb := range fn.Blocks {
								for _, ii := range bb.Instrs {
									if ci, ok := ii.(ssa.CallInstruction); ok {
										if sc := ci.Common().StaticCallee(); sc != nil {
											add(sc, f)
										}
									}
								}
							}
						}
					}
				}
			}
		}
		if f.Parent() != nil {
			add(f, f.Parent())
		}
	}
	p.callers = idx
	return idx
}

// withinOnly: fn is one of the allowed functions, a closure of one, or a helper ALL of whose (library and example)
// callers are — transitively — within the allowed set. A helper extracted from an allowed function therefore
// stays allowed; a new caller from elsewhere breaks it.
func (p *Prog) withinOnly(fn *ssa.Function, allowed func(*ssa.Function) bool) bool {
	return p.withinOnlyRec(fn, allowed, map[*ssa.Function]bool{})
}

func (p *Prog) withinOnlyRec(fn *ssa.Function, allowed func(*ssa.Function) bool, seen map[*ssa.Function]bool) bool {
	if fn == nil {
		return false
	}
	if allowed(fn) {
		return true
	}
	if seen[fn] {
		return true
	}
	seen[fn] = true
	if fn.Parent() != nil {
		return p.withinOnlyRec(fn.Parent(), allowed, seen)
	}
	// exported functions can be called by anyone — except that an exported function which an allowed function merely
	// hands its work to (`return g(args)`, results unchanged) is that function's body under another name: the kernels
	// rooted at the allowed function analyse it inlined, for argument values they do not constrain
	if fn.Object() != nil && fn.Object().Exported() {
		if !p.tailDelegated(fn) {
			return false
		}
	}
	cs := p.callerIndex()[fn]
	if len(cs) == 0 {
		return false
	}
	for c := range cs {
		if !p.withinOnlyRec(c, allowed, seen) {
			return false
		}
	}
	return true
}

// tailDelegated: every module caller of g returns g's results unchanged (`return g(...)`), and there is at least one.
func (p *Prog) tailDelegated(g *ssa.Function) bool {
	cs := p.callerIndex()[g]
	if len(cs) == 0 {
		return false
	}
	for caller := range cs {
		found := false
		for _, b := range caller.Blocks {
			for _, in := range b.Instrs {
				call, ok := in.(*ssa.Call)
				if !ok || call.Common().StaticCallee() != g {
					continue
				}
				found = true
				if !onlyReturned(call) {
					return false
				}
			}
		}
		if !found {
			return false // the value of g is taken, not called: not a plain delegation
		}
	}
	return true
}

func onlyReturned(v ssa.Value) bool {
	refs := v.Referrers()
	if refs == nil || len(*refs) == 0 {
		return false
	}
	for _, r := range *refs {
		switch x := r.(type) {
		case *ssa.Return, *ssa.DebugRef:
		case *ssa.Extract:
			if !onlyReturned(x) {
				return false
			}
		default:
			return false
		}
	}
	return true
}

func allowNames(names ...string) func(*ssa.Function) bool {
	set := map[string]bool{}
	for _, n := range names {
		set[n] = true
	}
	return func(f *ssa.Function) bool { return set[shortFn(f)] }
}

// ---------------------------------------------------------------- decoded objects are written by the decoder only

// decodedTypes: the struct types of package types reachable from the decoded message roots.
func decodedTypes(p *Prog) map[string]bool {
	set := map[string]bool{}
	var visit func(t types.Type)
	visit = func(t types.Type) {
		switch u := t.(type) {
		case *types.Pointer:
			visit(u.Elem())
			return
		case *types.Slice:
			visit(u.Elem())
			return
		case *types.Array:
			visit(u.Elem())
			return
		case *types.Map:
			visit(u.Elem())
			return
		case *types.Named:
			if u.Obj().Pkg() == nil || (u.Obj().Pkg() != p.Types.Pkg && u.Obj().Pkg() != p.Root.Pkg) {
				return
			}
			st, ok := u.Underlying().(*types.Struct)
			if !ok {
				return
			}
			k := typeStr(u)
			if set[k] {
				return
			}
			set[k] = true
			for i := 0; i < st.NumFields(); i++ {
				visit(st.Field(i).Type())
			}
		}
	}
	for _, r := range []string{"types.Response", "types.Assertion", "LogoutRequest", "types.LogoutResponse", "types.UnverifiedBaseResponse"} {
		if n := p.Named(r); n != nil {
			visit(n)
		}
	}
	return set
}

// literalInit: the store fills a field of a composite literal that has not been handed to anything yet — same block as
// the allocation, and between the two only field addressing / stores / value construction, no call or escape.
// intoOwnMake: the store fills (a field of) an element of a slice this function made itself — construction, like a
// composite literal written out as make + index stores.
func intoOwnMake(st *ssa.Store) bool {
	var base ssa.Value = st.Addr
	sawIndex := false
	for {
		switch a := base.(type) {
		case *ssa.FieldAddr:
			base = a.X
			continue
		case *ssa.IndexAddr:
			base = a.X
			sawIndex = true
			continue
		}
		break
	}
	_, isMake := base.(*ssa.MakeSlice)
	if sl, isSl := base.(*ssa.Slice); isSl {
		// make with constant size is compiled to new([n]T)[:]
		if al, isAl := sl.X.(*ssa.Alloc); isAl && al.Comment == "makeslice" {
			isMake = true
		}
	}
	return isMake && sawIndex
}

// constructionOnly: the store fills an object this function allocated and only ever fills, reads and returns — it is
// never handed to a callee (a decoder, say), stored elsewhere or merged with another value. Building a value field by
// field is construction, exactly like a composite literal.
func constructionOnly(st *ssa.Store) bool {
	var base ssa.Value = st.Addr
	for {
		switch a := base.(type) {
		case *ssa.FieldAddr:
			base = a.X
			continue
		case *ssa.IndexAddr:
			base = a.X
			continue
		}
		break
	}
	al, ok := base.(*ssa.Alloc)
	if !ok {
		return false
	}
	seen := map[ssa.Value]bool{}
	var okUse func(v ssa.Value) bool
	okUse = func(v ssa.Value) bool {
		if seen[v] {
			return true
		}
		seen[v] = true
		refs := v.Referrers()
		if refs == nil {
			return false
		}
		for _, r := range *refs {
			switch x := r.(type) {
			case *ssa.FieldAddr, *ssa.IndexAddr:
				if !okUse(x.(ssa.Value)) {
					return false
				}
			case *ssa.Store:
				if x.Val == v {
					return false // the address itself is stored somewhere
				}
			case *ssa.UnOp:
				if x.Op != token.MUL {
					return false
				}
			case *ssa.Return, *ssa.DebugRef:
			default:
				return false
			}
		}
		return true
	}
	return okUse(al)
}

func literalInit(st *ssa.Store) bool {
	var base ssa.Value = st.Addr
	for {
		switch a := base.(type) {
		case *ssa.FieldAddr:
			base = a.X
			continue
		case *ssa.IndexAddr:
			base = a.X
			continue
		}
		break
	}
	al, ok := base.(*ssa.Alloc)
	if !ok || al.Block() != st.Block() {
		return false
	}
	seen := false
	for _, in := range st.Block().Instrs {
		if in == ssa.Instruction(al) {
			seen = true
			continue
		}
		if !seen {
			continue
		}
		if in == ssa.Instruction(st) {
			return true
		}
		switch x := in.(type) {
		case ssa.CallInstruction:
			for _, a := range x.Common().Args {
				if a == ssa.Value(al) {
					return false
				}
			}
			if x.Common().Value == ssa.Value(al) {
				return false
			}
		case *ssa.MakeInterface:
			if x.X == ssa.Value(al) {
				return false
			}
		case *ssa.Store:
			if x.Val == ssa.Value(al) {
				return false
			}
		case *ssa.MakeClosure:
			for _, b := range x.Bindings {
				if b == ssa.Value(al) {
					return false
				}
			}
		}
	}
	return false
}

// decodedImmutable: no library code stores to a field (or element) of a decoded message object, except the
// enumerated trust flags and the two assertion lists of Response, inside the validators; composite-literal
// initialisation and fills of fresh local slices are construction, not mutation.
func decodedImmutable(c *Ctx, rule string) {
	c.rule(rule, "decoded objects are written by the XML decoder only: in library scope no store to a field or element of types.Response / Assertion / LogoutRequest / LogoutResponse / UnverifiedBaseResponse or any struct reachable from them, except SignatureValidated and Response.Assertions / EncryptedAssertions inside the validators (checked by C04-R1 / C01-R1); literal initialisation is construction (positive control: hdrwrite)")
	set := decodedTypes(c.P)
	c.count(rule+"/decoded-struct-types", len(set))
	c.floor(rule+"/decoded-struct-types", 25)
	allowed := map[string]bool{"types.Response.SignatureValidated": true, "types.Assertion.SignatureValidated": true, "saml2.LogoutRequest.SignatureValidated": true,
		"types.LogoutResponse.SignatureValidated": true, "types.Response.Assertions": true, "types.Response.EncryptedAssertions": true}
	validators := allowNames("(*SAMLServiceProvider).ValidateEncodedResponse", "(*SAMLServiceProvider).ValidateEncodedLogoutRequestPOST", "(*SAMLServiceProvider).ValidateEncodedLogoutResponsePOST")
	scan := func(fns []*ssa.Function, report bool) (nAllowed, nBad int) {
		for _, f := range fns {
			for _, b := range f.Blocks {
				for _, in := range b.Instrs {
					st, ok := in.(*ssa.Store)
					if !ok {
						continue
					}
					what := ""
					switch a := st.Addr.(type) {
					case *ssa.FieldAddr:
						owner, _ := derefStruct(a.X.Type())
						if owner == nil || !set[typeStr(owner)] {
							continue
						}
						what = typeStr(owner) + "." + owner.Underlying().(*types.Struct).Field(a.Field).Name()
					case *ssa.IndexAddr:
						var et types.Type
						switch u := a.X.Type().Underlying().(type) {
						case *types.Slice:
							et = u.Elem()
						case *types.Pointer:
							if arr, ok := u.Elem().Underlying().(*types.Array); ok {
								et = arr.Elem()
							}
						}
						if et == nil || !set[typeStr(et)] {
							continue
						}
						// element of a slice/array that this function created itself: construction
						switch bx := a.X.(type) {
						case *ssa.MakeSlice, *ssa.Alloc:
							continue
						case *ssa.Slice:
							if _, isAlloc := bx.X.(*ssa.Alloc); isAlloc {
								continue
							}
						}
						what = "element of []" + typeStr(et)
					default:
						continue
					}
					if literalInit(st) || intoOwnMake(st) || constructionOnly(st) {
						continue
					}
					if allowed[what] && c.P.withinOnly(f, validators) {
						nAllowed++
						continue
					}
					nBad++
					if report {
						c.bad(rule, shortFn(f), "store "+what, c.P.InstrPos(st), "library code assigns "+what+" of a decoded object outside the decoder: what the caller receives is no longer what was decoded from the (signed) element")
					}
				}
			}
		}
		return
	}
	nA, nB := scan(c.P.LibFns, true)
	c.count(rule+"/allowed-writers", nA)
	c.floor(rule+"/allowed-writers", 5)
	if nB == 0 {
		c.ok(rule, "library", "no other store into decoded objects", "-", fmt.Sprintf("%d library functions scanned, %d enumerated validator stores", len(c.P.LibFns), nA))
	}
	_, fired := scan(controlFns(c, "hdrwrite"), false)
	c.Controls[rule+" hdrwrite"] = fired > 0
	if fired == 0 {
		c.bad(rule, "controls/hdrwrite", "positive control", "-", "matcher did not flag the control that rewrites Response.Issuer")
	}
}

// unreachable: an unexported function (or closure of one) that nothing in the module calls or takes the value of,
// transitively.
func (p *Prog) unreachable(fn *ssa.Function) bool {
	return p.unreachableRec(fn, map[*ssa.Function]bool{})
}

func (p *Prog) unreachableRec(fn *ssa.Function, seen map[*ssa.Function]bool) bool {
	if fn == nil || seen[fn] {
		return true
	}
	seen[fn] = true
	if fn.Parent() != nil {
		return p.unreachableRec(fn.Parent(), seen)
	}
	if fn.Object() == nil || fn.Object().Exported() || fn.Name() == "init" || fn.Name() == "main" {
		return false
	}
	for c := range p.callerIndex()[fn] {
		if !p.unreachableRec(c, seen) {
			return false
		}
	}
	return true
}

// globalInitOnly: package-level variable g is assigned only by its package initialiser and every other reference to
// it is a plain load whose result is only (a) read element-wise / measured (index, lookup, range, len, comparison), or
// (b) used as the receiver of a method the contract table documents as safe on a shared receiver. Nothing stores it,
// passes it on, takes its address or writes through it.
func (p *Prog) globalInitOnly(g *ssa.Global) (bool, string) {
	pk := g.Pkg
	for _, f := range pkgFunctions(pk) {
		isInit := f.Name() == "init" && f.Synthetic != ""
		for _, b := range f.Blocks {
			for _, in := range b.Instrs {
				uses := false
				for _, op := range in.Operands(nil) {
					if op != nil && *op == ssa.Value(g) {
						uses = true
					}
				}
				if !uses {
					continue
				}
				switch x := in.(type) {
				case *ssa.Store:
					if x.Addr == ssa.Value(g) && isInit {
						continue
					}
					return false, "stored in " + shortFn(f)
				case *ssa.UnOp:
					if isInit {
						continue
					}
					for _, r := range *x.Referrers() {
						if ok, why := readOnlyUse(x, r); !ok {
							return false, why + " in " + shortFn(f)
						}
					}
				case *ssa.IndexAddr, *ssa.FieldAddr:
					v := in.(ssa.Value)
					for _, r := range *v.Referrers() {
						if u, isLoad := r.(*ssa.UnOp); !isLoad || u.Op != token.MUL {
							if _, isDbg := r.(*ssa.DebugRef); !isDbg && !isInit {
								return false, "element address escapes in " + shortFn(f)
							}
						}
					}
				case *ssa.DebugRef:
				default:
					if !isInit {
						return false, fmt.Sprintf("used by %T in %s", in, shortFn(f))
					}
				}
			}
		}
	}
	return true, ""
}

func readOnlyUse(v ssa.Value, r ssa.Instruction) (bool, string) {
	switch x := r.(type) {
	case *ssa.DebugRef, *ssa.Index, *ssa.Lookup, *ssa.Range, *ssa.BinOp, *ssa.If:
		return true, ""
	case *ssa.IndexAddr:
		for _, rr := range *x.Referrers() {
			if u, isLoad := rr.(*ssa.UnOp); !isLoad || u.Op != token.MUL {
				if _, isDbg := rr.(*ssa.DebugRef); !isDbg {
					return false, "element address of the shared value escapes or is written"
				}
			}
		}
		return true, ""
	case *ssa.FieldAddr:
		for _, rr := range *x.Referrers() {
			if u, isLoad := rr.(*ssa.UnOp); !isLoad || u.Op != token.MUL {
				if _, isDbg := rr.(*ssa.DebugRef); !isDbg {
					return false, "field address of the shared value escapes or is written"
				}
			}
		}
		return true, ""
	case ssa.CallInstruction:
		c := x.Common()
		if b, isB := c.Value.(*ssa.Builtin); isB && (b.Name() == "len" || b.Name() == "cap") {
			return true, ""
		}
		name, sc := calleeName(c)
		if sc != nil && stdInlined(sc) {
			return true, "" // read-only search helpers of package slices
		}
		ct := lookupContract(name)
		if ct != nil && ct.ConcSafeRecv && len(c.Args) > 0 && c.Args[0] == v && !c.IsInvoke() {
			for _, a := range c.Args[1:] {
				if a == v {
					return false, "shared value passed as an argument of " + shortName(name)
				}
			}
			return true, ""
		}
		return false, "shared value handed to " + shortName(name)
	}
	return false, fmt.Sprintf("shared value used by %T", r)
}

// isPublicFn: callable from outside the module — an exported package-level function, or an exported method of an
// exported type (an exported method name on an unexported type is a helper).
func isPublicFn(f *ssa.Function) bool {
	if f == nil || f.Object() == nil || !f.Object().Exported() {
		return false
	}
	if recv := f.Signature.Recv(); recv != nil {
		t := recv.Type()
		if p, ok := t.Underlying().(*types.Pointer); ok {
			t = p.Elem()
		}
		if nt, ok := t.(*types.Named); ok && !nt.Obj().Exported() {
			return false
		}
	}
	return true
}

// moduleIface: is t a named interface declared in the module? sealed reports whether it can only be implemented by
// module types (the interface or one of its methods is unexported).
func (p *Prog) moduleIface(t types.Type) (is bool, sealed bool) {
	n, ok := types.Unalias(t).(*types.Named)
	if !ok || n.Obj().Pkg() == nil || !strings.HasPrefix(n.Obj().Pkg().Path(), modPath) {
		return false, false
	}
	it, ok := n.Underlying().(*types.Interface)
	if !ok {
		return false, false
	}
	sealed = !n.Obj().Exported()
	for i := 0; i < it.NumMethods(); i++ {
		if !it.Method(i).Exported() {
			sealed = true
		}
	}
	return true, sealed
}

// moduleImpls: for an invoke on an interface declared in the module, the methods of the module's named types that
// implement it (nil for interfaces declared elsewhere).
func (p *Prog) moduleImpls(c *ssa.CallCommon) []*ssa.Function {
	if !c.IsInvoke() {
		return nil
	}
	if is, _ := p.moduleIface(c.Value.Type()); !is {
		return nil
	}
	it := c.Value.Type().Underlying().(*types.Interface)
	var out []*ssa.Function
	for _, pk := range p.All {
		if pk.Module == nil || pk.Module.Path != modPath || pk.Types == nil {
			continue
		}
		sc := pk.Types.Scope()
		for _, name := range sc.Names() {
			tn, ok := sc.Lookup(name).(*types.TypeName)
			if !ok || tn.IsAlias() {
				continue
			}
			if _, isI := tn.Type().Underlying().(*types.Interface); isI {
				continue
			}
			for _, t := range []types.Type{tn.Type(), types.NewPointer(tn.Type())} {
				if !types.Implements(t, it) {
					continue
				}
				if sel := p.SSA.MethodSets.MethodSet(t).Lookup(c.Method.Pkg(), c.Method.Name()); sel != nil {
					if m := p.SSA.MethodValue(sel); m != nil {
						out = append(out, m)
					}
				}
				break
			}
		}
	}
	return out
}
