package main

// Engine A: type-resolved API-usage scans (who-may-call, argument shape, package identity).

import (
	"go/types"

	"golang.org/x/tools/go/ssa"
)

type callSite struct {
	Caller *ssa.Function
	Callee string // resolved name: pkg.Func, (*pkg.T).M or (pkg.I).M for interface invokes
	Fn     *ssa.Function
	Instr  ssa.CallInstruction
}

func calleeName(c *ssa.CallCommon) (string, *ssa.Function) {
	if c.IsInvoke() {
		return "(" + types.TypeString(c.Value.Type(), nil) + ")." + c.Method.Name(), nil
	}
	switch v := c.Value.(type) {
	case *ssa.Function:
		return v.String(), v
	case *ssa.MakeClosure:
		f := v.Fn.(*ssa.Function)
		return f.String(), f
	case *ssa.Builtin:
		return "builtin:" + v.Name(), nil
	}
	return "", nil
}

// scanCalls visits every call instruction (call, go, defer) in fns whose resolved callee satisfies pred.
func scanCalls(p *Prog, fns []*ssa.Function, pred func(string) bool, visit func(callSite)) int {
	n := 0
	for _, f := range fns {
		for _, b := range f.Blocks {
			for _, in := range b.Instrs {
				ci, ok := in.(ssa.CallInstruction)
				if !ok {
					continue
				}
				name, fn := calleeName(ci.Common())
				if name != "" && pred(name) {
					n++
					visit(callSite{Caller: f, Callee: name, Fn: fn, Instr: ci})
				}
			}
		}
		// function values referenced without being called (method values, callbacks)
		for _, b := range f.Blocks {
			for _, in := range b.Instrs {
				if _, isCall := in.(ssa.CallInstruction); isCall {
					continue
				}
				for _, op := range in.Operands(nil) {
					if op == nil || *op == nil {
						continue
					}
					if fv, ok := (*op).(*ssa.Function); ok && pred(fv.String()) {
						n++
						visit(callSite{Caller: f, Callee: fv.String(), Fn: fv})
					}
				}
			}
		}
	}
	return n
}

func controlFns(c *Ctx, name string) []*ssa.Function {
	fns := c.P.Ctl[name]
	if len(fns) == 0 {
		c.bad("controls", name, "positive control package", "-", "control package "+name+" was not loaded (controls directory missing?)")
	}
	return fns
}

// topFn returns the outermost enclosing function of fn.
func topFn(fn *ssa.Function) *ssa.Function {
	for fn != nil && fn.Parent() != nil {
		fn = fn.Parent()
	}
	return fn
}

// ---------------------------------------------------------------- caller closure

// callerIndex maps every library function to the functions that call it or take its value.
func (p *Prog) callerIndex() map[*ssa.Function]map[*ssa.Function]bool {
	if p.callers != nil {
		return p.callers
	}
	idx := map[*ssa.Function]map[*ssa.Function]bool{}
	add := func(callee, caller *ssa.Function) {
		if callee == nil {
			return
		}
		if idx[callee] == nil {
			idx[callee] = map[*ssa.Function]bool{}
		}
		idx[callee][caller] = true
	}
	var fns []*ssa.Function
	for _, pk := range p.All {
		if pk.Module != nil && pk.Module.Path == modPath {
			if sp := p.SSA.Package(pk.Types); sp != nil {
				fns = append(fns, pkgFunctions(sp)...)
			}
		}
	}
	for _, f := range fns {
		for _, b := range f.Blocks {
			for _, in := range b.Instrs {
				for _, op := range in.Operands(nil) {
					if op == nil || *op == nil {
						continue
					}
					switch v := (*op).(type) {
					case *ssa.Function:
						add(v, f)
						// bound-method / thunk wrappers stand for the method they wrap
						if v.Synthetic != "" {
							for _, bb := range v.Blocks {
								for _, ii := range bb.Instrs {
									if ci, ok := ii.(ssa.CallInstruction); ok {
										if sc := ci.Common().StaticCallee(); sc != nil {
											add(sc, f)
										}
									}
								}
							}
						}
					case *ssa.MakeClosure:
						fn := v.Fn.(*ssa.Function)
						add(fn, f)
						if fn.Synthetic != "" {
							for _, bb := range fn.Blocks {
								for _, ii := range bb.Instrs {
									if ci, ok := ii.(ssa.CallInstruction); ok {
										if sc := ci.Common().StaticCallee(); sc != nil {
											add(sc, f)
										}
									}
								}
							}
						}
					}
				}
			}
		}
		if f.Parent() != nil {
			add(f, f.Parent())
		}
	}
	p.callers = idx
	return idx
}

// withinOnly: fn is one of the allowed functions, a closure of one, or a helper ALL of whose (library and example)
// callers are — transitively — within the allowed set. A helper extracted from an allowed function therefore
// stays allowed; a new caller from elsewhere breaks it.
func (p *Prog) withinOnly(fn *ssa.Function, allowed func(*ssa.Function) bool) bool {
	return p.withinOnlyRec(fn, allowed, map[*ssa.Function]bool{})
}

func (p *Prog) withinOnlyRec(fn *ssa.Function, allowed func(*ssa.Function) bool, seen map[*ssa.Function]bool) bool {
	if fn == nil {
		return false
	}
	if allowed(fn) {
		return true
	}
	if seen[fn] {
		return true
	}
	seen[fn] = true
	if fn.Parent() != nil {
		return p.withinOnlyRec(fn.Parent(), allowed, seen)
	}
	// exported functions can be called by anyone
	if fn.Object() != nil && fn.Object().Exported() {
		return false
	}
	cs := p.callerIndex()[fn]
	if len(cs) == 0 {
		return false
	}
	for c := range cs {
		if !p.withinOnlyRec(c, allowed, seen) {
			return false
		}
	}
	return true
}

func allowNames(names ...string) func(*ssa.Function) bool {
	set := map[string]bool{}
	for _, n := range names {
		set[n] = true
	}
	return func(f *ssa.Function) bool { return set[shortFn(f)] }
}
