package main

// ABCD-lite (DESIGN.md A.7): linear inequalities over symbolic integers collected from the facts of
// one path; an obligation E >= 0 is discharged by subtracting known non-negative forms until a
// non-negative constant remains. No solver, sound by construction (every step uses a fact F >= 0).

import (
	"fmt"
	"go/token"
	"go/types"
	"sort"
	"strings"
)

type lin struct {
	t map[string]int64
	k int64
}

func (l lin) clone() lin {
	n := lin{t: map[string]int64{}, k: l.k}
	for a, c := range l.t {
		n.t[a] = c
	}
	return n
}

func (l lin) add(o lin, scale int64) lin {
	n := l.clone()
	for a, c := range o.t {
		n.t[a] += c * scale
		if n.t[a] == 0 {
			delete(n.t, a)
		}
	}
	n.k += o.k * scale
	return n
}

func (l lin) String() string {
	var parts []string
	var ks []string
	for a := range l.t {
		ks = append(ks, a)
	}
	sort.Strings(ks)
	for _, a := range ks {
		parts = append(parts, fmt.Sprintf("%+d*%s", l.t[a], a))
	}
	parts = append(parts, fmt.Sprintf("%+d", l.k))
	return strings.Join(parts, " ")
}

type boundsCtx struct {
	atoms map[string]Val // atom key -> value (for implicit facts)
	facts []lin          // each >= 0
	div   [][2]string    // divisible(x atom-lin string, modulus atom)
	divL  []struct {
		x lin
		m lin
	}
	neq []lin // forms known to be != 0
}

func isIntType(t types.Type) bool {
	if t == nil {
		return false
	}
	b, ok := t.Underlying().(*types.Basic)
	return ok && b.Info()&types.IsInteger != 0
}

func (b *boundsCtx) atom(v Val) lin {
	// full identity (call site, memory epoch): two reads of a buffer's length at different times are different numbers
	k := v.Key()
	if _, ok := b.atoms[k]; !ok {
		b.atoms[k] = v
		if q, isQ := v.(*BinV); isQ && q.Op == token.QUO {
			b.linOf(q.X) // the dividend's atoms take part in the quotient's implicit facts
		}
	}
	return lin{t: map[string]int64{k: 1}}
}

// linOf converts an integer-valued Val to a linear form.
func (b *boundsCtx) linOf(v Val) lin {
	switch x := v.(type) {
	case *ConstV:
		if i, ok := constInt(x); ok {
			return lin{t: map[string]int64{}, k: i}
		}
	case *BinV:
		switch x.Op {
		case token.ADD:
			return b.linOf(x.X).add(b.linOf(x.Y), 1)
		case token.SUB:
			return b.linOf(x.X).add(b.linOf(x.Y), -1)
		case token.MUL:
			if c, ok := constInt(x.Y); ok {
				return lin{t: map[string]int64{}}.add(b.linOf(x.X), c)
			}
			if c, ok := constInt(x.X); ok {
				return lin{t: map[string]int64{}}.add(b.linOf(x.Y), c)
			}
		}
	case *ConvV:
		if isIntType(x.Type()) && isIntType(x.X.Type()) && widens(x.X.Type(), x.Type()) {
			return b.linOf(x.X)
		}
	case *CallV:
		if x.Callee == "len" && len(x.Args) == 1 {
			if s, ok := x.Args[0].(*SliceV); ok {
				var hi, lo lin
				if s.Hi != nil {
					hi = b.linOf(s.Hi)
				} else {
					hi = b.linOf(mkLen(nil, s.X, types.Typ[types.Int]))
				}
				if s.Lo != nil {
					lo = b.linOf(s.Lo)
				} else {
					lo = lin{t: map[string]int64{}}
				}
				return hi.add(lo, -1)
			}
			if c, ok := x.Args[0].(*ConvV); ok {
				// len([]byte(s)) == len(s), len(string(b)) == len(b)
				if isByteSliceOrString(c.Type()) && isByteSliceOrString(c.X.Type()) {
					return b.linOf(mkLen(nil, c.X, types.Typ[types.Int]))
				}
			}
		}
	}
	return b.atom(v)
}

func isByteSliceOrString(t types.Type) bool {
	if t == nil {
		return false
	}
	switch u := t.Underlying().(type) {
	case *types.Basic:
		return u.Info()&types.IsString != 0
	case *types.Slice:
		if e, ok := u.Elem().Underlying().(*types.Basic); ok {
			return e.Kind() == types.Uint8
		}
	}
	return false
}

// widens: conversion from -> to preserves the value for all values of from.
func widens(from, to types.Type) bool {
	fb := from.Underlying().(*types.Basic)
	tb := to.Underlying().(*types.Basic)
	size := func(k types.BasicKind) (bits int, unsigned bool) {
		switch k {
		case types.Int8:
			return 8, false
		case types.Int16:
			return 16, false
		case types.Int32:
			return 32, false
		case types.Int64:
			return 64, false
		case types.Int:
			return 32, false // conservative: at least 32
		case types.Uint8:
			return 8, true
		case types.Uint16:
			return 16, true
		case types.Uint32:
			return 32, true
		case types.Uint64, types.Uintptr:
			return 64, true
		case types.Uint:
			return 64, true // conservative: treat as wide
		case types.UntypedInt:
			return 64, false
		}
		return 64, false
	}
	fbits, fu := size(fb.Kind())
	tbits, tu := size(tb.Kind())
	if fb.Kind() == tb.Kind() {
		return true
	}
	if fb.Kind() == types.Int && tb.Kind() == types.Int64 {
		return true
	}
	switch {
	case fu && !tu:
		return tbits > fbits
	case fu == tu:
		return tbits >= fbits
	}
	return false
}

func newBounds(t *Terminal, upto int) *boundsCtx {
	b := &boundsCtx{atoms: map[string]Val{}}
	for _, f := range t.St.facts {
		if upto >= 0 && f.Seq > upto {
			continue
		}
		bv, ok := f.Cond.(*BinV)
		if !ok {
			continue
		}
		switch bv.Op {
		case token.LSS:
			if !isIntType(bv.X.Type()) && !isIntType(bv.Y.Type()) {
				continue
			}
			x, y := b.linOf(bv.X), b.linOf(bv.Y)
			if f.Pol { // x < y  =>  y - x - 1 >= 0
				l := y.add(x, -1)
				l.k--
				b.facts = append(b.facts, l)
			} else { // x >= y
				b.facts = append(b.facts, x.add(y, -1))
			}
		case token.EQL:
			if !(isIntType(bv.X.Type()) || isIntType(bv.Y.Type())) {
				continue
			}
			// (x % m) == 0
			if r, ok := bv.X.(*BinV); ok && r.Op == token.REM && isConstInt(bv.Y, 0) {
				if f.Pol {
					b.divL = append(b.divL, struct {
						x lin
						m lin
					}{b.linOf(r.X), b.linOf(r.Y)})
				}
				continue
			}
			x, y := b.linOf(bv.X), b.linOf(bv.Y)
			if f.Pol {
				b.facts = append(b.facts, x.add(y, -1), y.add(x, -1))
			}
			// x != y with x >= y known would give x > y; handled in prove via neq list
			if !f.Pol {
				b.neq = append(b.neq, x.add(y, -1))
			}
		}
	}
	return b
}

// implicit facts for atoms appearing in l.
func (b *boundsCtx) implicit() []lin {
	var out []lin
	for k, v := range b.atoms {
		one := lin{t: map[string]int64{k: 1}}
		// the range of a narrow unsigned type: a byte indexes a [256]T table safely
		if v.Type() != nil {
			if bt, isB := v.Type().Underlying().(*types.Basic); isB {
				switch bt.Kind() {
				case types.Uint8:
					out = append(out, one, lin{t: map[string]int64{k: -1}, k: 255})
				case types.Uint16:
					out = append(out, one, lin{t: map[string]int64{k: -1}, k: 65535})
				}
			}
		}
		switch x := v.(type) {
		case *CallV:
			switch {
			case x.Callee == "len" || x.Callee == "cap":
				out = append(out, one)
				// lengths fixed by the standard library: hex text is twice its input (and stays ASCII under ToLower /
				// ToUpper), a digest is as long as its hash says
				if len(x.Args) == 1 {
					if n, ok := knownLen(x.Args[0]); ok {
						eq := one.clone()
						eq.k = -n
						out = append(out, eq, lin{t: map[string]int64{k: -1}, k: n})
					}
				}
				// len(bytes.TrimRight(s, cut)) <= len(s)
				if len(x.Args) == 1 {
					if tr, ok := x.Args[0].(*CallV); ok && (tr.Callee == "bytes.TrimRight" || tr.Callee == "bytes.TrimLeft" || tr.Callee == "bytes.TrimSpace" || tr.Callee == "bytes.Trim") {
						inner := b.linOf(mkLen(nil, tr.Args[0], types.Typ[types.Int]))
						out = append(out, inner.add(one, -1))
					}
				}
			case strings.HasSuffix(x.Callee, "base64.Encoding).DecodedLen") && len(x.Args) == 2:
				// 0 <= DecodedLen(n) <= n for n >= 0
				out = append(out, one)
				out = append(out, b.linOf(x.Args[1]).add(one, -1))
			case strings.HasSuffix(x.Callee, "base64.Encoding).EncodedLen") && len(x.Args) == 2:
				// 0 <= EncodedLen(n) <= 2n + 4
				out = append(out, one)
				up := lin{t: map[string]int64{}, k: 4}.add(b.linOf(x.Args[1]), 2)
				out = append(out, up.add(one, -1))
			case strings.HasSuffix(x.Callee, ".BlockSize"):
				l := one.clone()
				l.k = -1
				out = append(out, l) // BlockSize() >= 1
			case strings.HasSuffix(x.Callee, ".NonceSize"), strings.HasSuffix(x.Callee, ".Overhead"), strings.HasSuffix(x.Callee, ".Size"):
				out = append(out, one)
			}
		case *BinV:
			// q = x / c for a constant c >= 1 and a dividend made of lengths (so x >= 0): 0 <= c*q <= x <= c*q + c - 1
			if c, isC := constInt(x.Y); x.Op == token.QUO && isC && c >= 1 && isIntType(x.X.Type()) {
				xl := b.linOf(x.X)
				nonNeg := xl.k >= 0
				for a, co := range xl.t {
					cv, isCall := b.atoms[a].(*CallV)
					if co < 0 || !isCall || (cv.Callee != "len" && cv.Callee != "cap") {
						nonNeg = false
					}
				}
				if nonNeg {
					out = append(out, one)
					out = append(out, xl.add(one, -c))
					up := lin{t: map[string]int64{}, k: c - 1}.add(one, c)
					out = append(out, up.add(xl, -1))
				}
			}
		case *ConvV:
			if bt, ok := x.X.Type().Underlying().(*types.Basic); ok && bt.Info()&types.IsUnsigned != 0 {
				out = append(out, one)
			}
		case *IndexV:
			if bt, ok := x.Type().Underlying().(*types.Basic); ok && bt.Info()&types.IsUnsigned != 0 {
				out = append(out, one)
			}
		case *LoadV:
			if bt, ok := x.Type().Underlying().(*types.Basic); ok && bt.Info()&types.IsUnsigned != 0 {
				out = append(out, one)
			}
		}
	}
	return out
}

// prove E >= 0.
func (b *boundsCtx) prove(e lin) bool {
	// make sure atoms of e are registered before computing implicit facts
	facts := append([]lin{}, b.facts...)
	facts = append(facts, b.implicit()...)
	// divisibility: x % m == 0 ∧ x >= 1 ∧ m >= 1  =>  x - m >= 0
	for _, d := range b.divL {
		x1 := d.x.clone()
		x1.k--
		if b.proveWith(x1, facts, 0, map[string]bool{}) {
			facts = append(facts, d.x.add(d.m, -1))
		}
	}
	// x != y ∧ x - y >= 0  =>  x - y - 1 >= 0
	for _, n := range b.neq {
		if b.proveWith(n, facts, 0, map[string]bool{}) {
			s := n.clone()
			s.k--
			facts = append(facts, s)
		}
		neg := lin{t: map[string]int64{}}.add(n, -1)
		if b.proveWith(neg, facts, 0, map[string]bool{}) {
			s := neg.clone()
			s.k--
			facts = append(facts, s)
		}
	}
	return b.proveWith(e, facts, 0, map[string]bool{})
}

func (b *boundsCtx) proveWith(e lin, facts []lin, depth int, seen map[string]bool) bool {
	if len(e.t) == 0 {
		return e.k >= 0
	}
	if depth > 6 {
		return false
	}
	key := e.String()
	if seen[key] {
		return false
	}
	seen[key] = true
	for _, f := range facts {
		if len(f.t) == 0 {
			continue
		}
		// useful only if it cancels something: shares an atom with the same sign
		useful := false
		for a, c := range f.t {
			if ec, ok := e.t[a]; ok && (ec > 0) == (c > 0) {
				useful = true
			}
		}
		if !useful {
			continue
		}
		if b.proveWith(e.add(f, -1), facts, depth+1, seen) {
			return true
		}
	}
	return false
}

func (b *boundsCtx) describe() string {
	var s []string
	for _, f := range b.facts {
		s = append(s, f.String()+" >= 0")
	}
	return strings.Join(s, "; ")
}

// inconsistent: the integer facts of the path contradict each other (some fact's negation follows from the others),
// e.g. "the loop over C ran" (0 <= i < len(C)) together with "a loop over C did not run" (len(C) <= 0).
func (b *boundsCtx) inconsistent() bool {
	all := b.facts
	defer func() { b.facts = all }()
	for i, f := range all {
		if len(f.t) == 0 {
			if f.k < 0 {
				return true
			}
			continue
		}
		rest := make([]lin, 0, len(all)-1)
		rest = append(rest, all[:i]...)
		rest = append(rest, all[i+1:]...)
		b.facts = rest
		neg := lin{t: map[string]int64{}}.add(f, -1)
		neg.k--
		if b.prove(neg) {
			return true
		}
	}
	return false
}

// knownLen: length of a value produced by a standard-library function whose output length is fixed by its contract.
func knownLen(v Val) (int64, bool) {
	cv, ok := stripIface(v).(*CallV)
	if !ok {
		return 0, false
	}
	switch cv.Callee {
	case "strings.ToLower", "strings.ToUpper":
		// length-preserving on ASCII: only claimed for hex text
		if in, ok := stripIface(cv.Args[0]).(*CallV); ok && in.Callee == "encoding/hex.EncodeToString" {
			return knownLen(in)
		}
	case "encoding/hex.EncodeToString":
		if n, ok := knownLen(cv.Args[0]); ok {
			return 2 * n, true
		}
	case "(hash.Hash).Sum":
		if len(cv.Args) == 2 && isNilConst(cv.Args[1]) {
			if h, ok := stripIface(cv.Args[0]).(*CallV); ok {
				switch h.Callee {
				case "crypto/sha1.New":
					return 20, true
				case "crypto/sha256.New":
					return 32, true
				case "crypto/sha512.New":
					return 64, true
				}
			}
		}
	}
	return 0, false
}
