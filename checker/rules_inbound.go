package main

// C01 (provenance), C02 (trusted certificates / fatal errors), C04 (trust flags), C10 (logout messages).

import (
	"fmt"
	"go/token"
	"go/types"
	"reflect"
	"strings"

	"golang.org/x/tools/go/ssa"
)

const dsigValidate = "(*dsig.ValidationContext).Validate"

// ---------------------------------------------------------------- provenance

// provOf classifies an element-valued expression on a path.
func provOf(t *Terminal, v Val) string {
	switch x := v.(type) {
	case *CallV:
		name := shortName(x.Callee)
		switch {
		case name == "parseResponse" && x.Idx == 0:
			return "rawdoc"
		case name == "parseResponse" && x.Idx == 1:
			return "raw"
		case name == "(*etree.Document).Root":
			if p := provOf(t, x.Args[0]); p == "rawdoc" {
				return "raw"
			} else {
				return "root(" + p + ")"
			}
		case name == dsigValidate && x.Idx == 0:
			errV := mkCall(x.Callee, x.Fn, x.Args, x.Site, 1, x.N, nil)
			if isNil, known := t.eqFact(errV, nilOf(nil)); known && isNil {
				return "verified(" + provOf(t, x.Args[1]) + ")"
			}
			return "unchecked-validate(" + provOf(t, x.Args[1]) + ")"
		case strings.HasSuffix(name, "etreeutils.NSDetatch") && x.Idx == 0:
			// a detached copy that carries the namespace declarations in scope at the element
			return "nscopy(" + provOf(t, x.Args[1]) + ")"
		case name == "(*etree.Element).Copy":
			return "copy(" + provOf(t, x.Args[0]) + ")"
		}
	case *FieldV:
		// the parse helper may hand its results back in a small struct
		if cv, ok := x.X.(*CallV); ok && shortName(cv.Callee) == "parseResponse" {
			switch typeStr(x.Type()) {
			case "*etree.Document":
				return "rawdoc"
			case "*etree.Element":
				return "raw"
			}
		}
	case *IterElemV:
		return "desc(" + provOf(t, x.Root) + ")"
	case *ParamV:
		return "param:" + x.Name
	}
	return "other:" + ap(v)
}

func trusted(p string) bool { return strings.HasPrefix(p, "verified(") }

type decode struct {
	Obj  Val
	El   Val // element serialised into the decoder (nil: raw bytes)
	Data Val
	Ev   *Event
	Prov string
}

// decodes lists the xml.Unmarshal events of a path with the element each one serialises.
func decodes(t *Terminal) []decode {
	var out []decode
	for _, e := range t.St.events {
		if e.Kind != EvCall || e.Callee != "encoding/xml.Unmarshal" {
			continue
		}
		d := decode{Obj: stripIface(e.Args[1]), Data: e.Args[0], Ev: e}
		if cv, ok := e.Args[0].(*CallV); ok && shortName(cv.Callee) == "(*etree.Document).WriteToBytes" {
			doc := cv.Args[0]
			for _, s := range t.St.events {
				if s.Seq < e.Seq && s.Kind == EvCall && shortName(s.Callee) == "(*etree.Document).SetRoot" && s.Args[0].Key() == doc.Key() {
					d.El = s.Args[1]
				}
			}
		}
		if d.El != nil {
			d.Prov = provOf(t, d.El)
		} else {
			d.Prov = "bytes:" + ap(d.Data)
		}
		out = append(out, d)
	}
	return out
}

func skipFact(t *Terminal) (skip bool, known bool) {
	a := t.atoms()
	if a["SP.SkipSignatureValidation"] {
		return true, true
	}
	if a["!(SP.SkipSignatureValidation)"] {
		return false, true
	}
	return false, false
}

func isEmptySliceValT(t *Terminal, v Val) bool {
	if a, ok := v.(*AllocV); ok && a.Comment == "makeslice" {
		if c, ok := t.St.heap["len:"+a.Key()]; ok {
			return isConstInt(c.val, 0)
		}
		return false
	}
	return isEmptySliceVal(v)
}

func isEmptySliceVal(v Val) bool {
	if isNilConst(v) {
		return true
	}
	if s, ok := v.(*SliceV); ok {
		if a, ok := s.X.(*AllocV); ok {
			if p, ok := a.Type().Underlying().(*types.Pointer); ok {
				if arr, ok := p.Elem().Underlying().(*types.Array); ok && arr.Len() == 0 {
					return true
				}
			}
		}
		if hi, ok := constInt(s.Hi); ok && hi == 0 {
			return true
		}
	}
	return false
}

// ---------------------------------------------------------------- shared rule bodies

type inboundSpec struct {
	Entry     string
	Validator string
	Kind      string // Response | LogoutResponse | LogoutRequest
	ObjType   string
	Floor     int // accepting paths
}

var ssoSpec = inboundSpec{Entry: "(*SAMLServiceProvider).ValidateEncodedResponse", Validator: "(*SAMLServiceProvider).Validate", Kind: "Response", ObjType: "*types.Response", Floor: 3}
var loRespSpec = inboundSpec{Entry: "(*SAMLServiceProvider).ValidateEncodedLogoutResponsePOST", Validator: "(*SAMLServiceProvider).ValidateDecodedLogoutResponse", Kind: "LogoutResponse", ObjType: "*types.LogoutResponse", Floor: 3}
var loReqSpec = inboundSpec{Entry: "(*SAMLServiceProvider).ValidateEncodedLogoutRequestPOST", Validator: "(*SAMLServiceProvider).ValidateDecodedLogoutRequest", Kind: "LogoutRequest", ObjType: "*saml2.LogoutRequest", Floor: 3}

// errorDiscipline: at every dsig Validate call, only err==nil proceeds as verified; only err==ErrMissingSignature at a
// root site may continue (as unverified); everything else ends in a rejecting return.
func errorDiscipline(c *Ctx, rule string, res *Result) int {
	if res == nil {
		return 0
	}
	fname := shortFn(res.Root)
	sites := map[string]bool{}
	for _, t := range res.Terms {
		for _, e := range t.calls(dsigValidate) {
			if e.Kind != EvCall || len(e.Res) < 2 {
				continue
			}
			site := "verify " + provOf(t, e.Args[1])
			sites[site] = true
			errV := e.Res[1]
			pos := c.P.InstrPos(e.Instr)
			isNil, knownNil := t.eqFact(errV, nilOf(errV.Type()))
			missing := false
			for _, f := range t.St.facts {
				a := atom(f)
				if f.Pol && (a == ap(errV)+" == dsig.ErrMissingSignature" || a == "dsig.ErrMissingSignature == "+ap(errV) ||
					a == "errors.Is("+ap(errV)+", dsig.ErrMissingSignature)") {
					missing = true
				}
			}
			acc := t.accepting(res.Root)
			switch {
			case knownNil && isNil:
				c.ok(rule, fname, site+": err == nil proceeds", pos, "verified branch")
			case missing:
				inIter := len(e.Iters) > 0
				if inIter && acc {
					o := c.bad(rule, fname, site+": missing signature on an assertion must reject", pos, "an unsigned assertion inside an unsigned Response does not lead to rejection")
					o.Path = t.pathDesc(c.P)
				} else {
					c.ok(rule, fname, site+": only ErrMissingSignature continues (unverified)", pos, "continuation guarded by err == dsig.ErrMissingSignature")
				}
			default:
				if acc {
					o := c.bad(rule, fname, site+": verification error must be fatal", pos,
						"a path accepts although the signature check returned an error other than ErrMissingSignature (or its result is not consulted): bad signature downgraded to 'unsigned'")
					o.Path = t.pathDesc(c.P)
				} else {
					ei := errIdx(res.Root)
					if t.Kind == "return" && ei >= 0 && t.errNonNil(t.Vals[ei]) {
						c.ok(rule, fname, site+": verification error is fatal", pos, "rejecting return with non-nil error")
					} else if t.Kind == "return" {
						c.bad(rule, fname, site+": verification error is fatal", pos, "path after a failed verification returns an error that is not provably non-nil: "+ap(t.Vals[ei]))
					}
				}
			}
		}
	}
	return len(sites)
}

// flagRule: SignatureValidated of the returned object is a constant: true <=> decoded from the verified root.
func flagRule(c *Ctx, rule string, res *Result, spec inboundSpec) {
	if res == nil {
		return
	}
	fname := shortFn(res.Root)
	n := 0
	for _, t := range res.Terms {
		if !t.accepting(res.Root) {
			continue
		}
		n++
		obj := t.Vals[0]
		pos := c.P.InstrPos(t.Instr)
		label := labelReturn(c, t)
		fv, ok := t.finalField(obj, "SignatureValidated")
		b, isConst := false, false
		if ok {
			b, isConst = constBool(fv)
			// a stored condition the path has decided (`flag := !sp.SkipSignatureValidation` kept on the validating arm)
			if _, isU := fv.(*UnknownV); !isConst && !isU && isBoolType(fv.Type()) {
				b, isConst = t.factTrue(fv)
			}
		}
		if !ok || !isConst {
			o := c.undecided(rule, fname, "flag of returned "+spec.Kind+" ["+label+"]", pos, "SignatureValidated of the returned object is not a known constant on this path: "+ap(fv))
			o.Path = t.pathDesc(c.P)
			continue
		}
		// decoded-from of the returned object: last decode into it
		var last *decode
		for _, d := range decodes(t) {
			if d.Obj.Key() == obj.Key() {
				dd := d
				last = &dd
			}
		}
		prov := "none"
		if last != nil {
			prov = last.Prov
		}
		skip, skipKnown := skipFact(t)
		want := trusted(prov) && strings.HasPrefix(prov, "verified(raw") && skipKnown && !skip
		if b == want {
			c.ok(rule, fname, "flag of returned "+spec.Kind+" ["+label+"]", pos, fmt.Sprintf("SignatureValidated=%v, decoded from %s, skip=%v", b, prov, skip))
		} else if b {
			o := c.bad(rule, fname, "flag of returned "+spec.Kind+" ["+label+"]", pos,
				fmt.Sprintf("SignatureValidated is true on a path where the returned %s was decoded from %s (skip=%v known=%v): the indicator overstates what was verified", spec.Kind, prov, skip, skipKnown))
			o.Path = t.pathDesc(c.P)
		} else {
			o := c.bad(rule, fname, "flag of returned "+spec.Kind+" ["+label+"]", pos,
				fmt.Sprintf("SignatureValidated is false although the returned %s was decoded from the verified root (%s)", spec.Kind, prov))
			o.Path = t.pathDesc(c.P)
		}
		// the decode must precede the flag store (decode havocs the object)
	}
	c.count(rule+"/accepting", n)
	c.floor(rule+"/accepting", spec.Floor)
}

// decodeProvenance (logout kinds and the Response header): with validation enabled the returned object is decoded
// from the verified root or — on the missing-signature continuation — from the raw root with the flag false.
func decodeProvenance(c *Ctx, rule string, res *Result, spec inboundSpec) {
	if res == nil {
		return
	}
	fname := shortFn(res.Root)
	for _, t := range res.Terms {
		if !t.accepting(res.Root) {
			continue
		}
		obj := t.Vals[0]
		pos := c.P.InstrPos(t.Instr)
		label := labelReturn(c, t)
		var ds []decode
		for _, d := range decodes(t) {
			if d.Obj.Key() == obj.Key() {
				ds = append(ds, d)
			}
		}
		if len(ds) != 1 {
			c.bad(rule, fname, "returned "+spec.Kind+" decoded exactly once ["+label+"]", pos, fmt.Sprintf("%d decodes into the returned object", len(ds)))
			continue
		}
		if typeStr(obj.Type()) != spec.ObjType {
			c.bad(rule, fname, "returned object kind ["+label+"]", pos, "returns "+typeStr(obj.Type())+", want "+spec.ObjType)
		}
		d := ds[0]
		skip, known := skipFact(t)
		switch {
		case known && skip:
			c.check(d.Prov == "raw", rule, fname, "skip: decode the parsed root ["+label+"]", pos, "decoded from raw root", "decoded from "+d.Prov)
		case !known:
			c.bad(rule, fname, "decode path selects on SkipSignatureValidation ["+label+"]", pos, "accepting path does not test sp.SkipSignatureValidation")
		case d.Prov == "verified(raw)":
			c.ok(rule, fname, "validate: decode the verified root ["+label+"]", pos, "decoded from "+d.Prov)
		case d.Prov == "raw" && strings.Contains(label, "unsigned-root"):
			c.ok(rule, fname, "validate: unsigned root decoded as unverified ["+label+"]", pos, "decoded from raw root on the ErrMissingSignature continuation")
		default:
			o := c.bad(rule, fname, "validate: decode source ["+label+"]", pos, "with validation enabled the returned "+spec.Kind+" is decoded from "+d.Prov+" (want the element returned by the successful signature check, or the raw root only on the missing-signature continuation)")
			o.Path = t.pathDesc(c.P)
		}
	}
}

// decodedComplete: on every accepting path the returned object is the target of exactly one xml.Unmarshal and that
// call's error is nil on the path (a decode whose failure is swallowed returns a partially filled object).
func decodedComplete(c *Ctx, rule string, specs ...inboundSpec) {
	for _, spec := range specs {
		res := c.kernel(spec.Entry, inboundInline...)
		if res == nil {
			continue
		}
		fname := shortFn(res.Root)
		n := 0
		for _, t := range res.Terms {
			if !t.accepting(res.Root) {
				continue
			}
			n++
			obj := t.Vals[0]
			pos := c.P.InstrPos(t.Instr)
			label := labelReturn(c, t)
			var ds []decode
			for _, d := range decodes(t) {
				if d.Obj.Key() == obj.Key() {
					ds = append(ds, d)
				}
			}
			what := "returned " + spec.Kind + " is the product of one successful decode [" + label + "]"
			switch {
			case len(ds) != 1:
				o := c.bad(rule, fname, what, pos, fmt.Sprintf("%d decodes into the returned object on an accepting path", len(ds)))
				o.Path = t.pathDesc(c.P)
			case len(ds[0].Ev.Res) != 1:
				c.bad(rule, fname, what, pos, "decoder call without an error result")
			default:
				if isNil, known := t.eqFact(ds[0].Ev.Res[0], nilOf(ds[0].Ev.Res[0].Type())); known && isNil {
					c.ok(rule, fname, what, pos, "xml.Unmarshal error is nil on the path")
				} else {
					o := c.bad(rule, fname, what, pos, "the path accepts without having established that xml.Unmarshal returned nil: a failed decode leaves a partially filled "+spec.Kind)
					o.Path = t.pathDesc(c.P)
				}
			}
		}
		c.count(rule+"/"+spec.Kind, n)
		c.floor(rule+"/"+spec.Kind, spec.Floor)
	}
}

// ---------------------------------------------------------------- C01

func ruleC01(c *Ctx) {
	c.rule("C01-R10", "the tree between verification and decode is changed only by the operations the library uses for that (frozen table of mutating etree / canonicaliser calls and node-field stores; anything else must act on a tree the function made itself): a debug dump that indents, abbreviates or re-roots the verified element changes what is decoded")
	treeHygiene(c, "C01-R10", c09Roots[:6])
	c.rule("C01-R1", "decode-from-verified: with validation on, the returned Response is decoded from the element returned by a successful dsig Validate of the parsed root; or (unsigned root) from the raw root with Assertions and EncryptedAssertions reset to empty before any append")
	c.rule("C01-R2", "append-only-verified: every append to Response.Assertions appends an Assertion decoded from Validate(NSDetatch(child)) with nil error, where child is a direct child of the traversed root")
	c.rule("C01-R3", "single continuation: only err == dsig.ErrMissingSignature at the root site continues; every other verification error (and a missing signature on an assertion) rejects")
	c.rule("C01-R4", "direct child: traversal handlers return an error unless element.Parent() == the traversed root")
	c.rule("C01-R5", "screen: parseResponse accepts only after rtvalidator.Validate over the very bytes given to ReadFromBytes, and a nil root is an error; etree ReadFrom* is called nowhere else")
	c.rule("C01-R6", "no side door: xml.Unmarshal into types.Response / types.Assertion happens only at the enumerated sites; RetrieveAssertionInfo takes everything from ValidateEncodedResponse's result")
	res := c.kernel(ssoSpec.Entry, inboundInline...)
	if res != nil {
		fname := shortFn(res.Root)
		nSigned, nUnsigned := 0, 0
		for _, t := range res.Terms {
			if !t.accepting(res.Root) {
				continue
			}
			skip, known := skipFact(t)
			pos := c.P.InstrPos(t.Instr)
			label := labelReturn(c, t)
			if !known {
				c.bad("C01-R1", fname, "accepting path selects on SkipSignatureValidation ["+label+"]", pos, "accepting path does not test sp.SkipSignatureValidation")
				continue
			}
			if skip {
				continue // outside the property's region
			}
			obj := t.Vals[0]
			var ds []decode
			for _, d := range decodes(t) {
				if d.Obj.Key() == obj.Key() {
					ds = append(ds, d)
				}
			}
			if len(ds) != 1 {
				c.bad("C01-R1", fname, "returned Response decoded exactly once ["+label+"]", pos, fmt.Sprintf("%d decodes into the returned object", len(ds)))
				continue
			}
			d := ds[0]
			// appends and resets on the returned object
			var resetA, resetE *Event
			var appends []*Event
			for _, e := range t.St.events {
				if e.Kind != EvStore || e.Seq < d.Ev.Seq {
					continue
				}
				fa, ok := e.Addr.(*FieldAddrV)
				if !ok || fa.X.Key() != obj.Key() {
					continue
				}
				switch fa.Name {
				case "EncryptedAssertions":
					if isEmptySliceValT(t, e.Val) {
						resetE = e
					} else {
						c.bad("C01-R2", fname, "store to Response.EncryptedAssertions ["+label+"]", c.P.InstrPos(e.Instr), "EncryptedAssertions overwritten with "+ap(e.Val))
					}
				}
			}
			{
				apps, rs, other := assertionListStores(t, obj, d.Ev.Seq)
				appends, resetA = apps, rs
				for _, e := range other {
					c.bad("C01-R2", fname, "store to Response.Assertions ["+label+"]", c.P.InstrPos(e.Instr), "Assertions overwritten with "+ap(e.Val))
				}
			}
			switch {
			case d.Prov == "verified(raw)":
				nSigned++
				c.ok("C01-R1", fname, "signed root: decode the verified element ["+label+"]", pos, "decoded from "+d.Prov)
				c.check(len(appends) == 0, "C01-R2", fname, "signed root: no appends ["+label+"]", pos, "assertion list comes from the verified element only", "assertions appended on top of the verified decode")
			case d.Prov == "raw" && strings.Contains(label, "unsigned-root"):
				nUnsigned++
				headerBeforeMutation(c, "C01-R1", t, fname, label, d)
				if resetA != nil && resetE != nil {
					c.ok("C01-R1", fname, "unsigned root: pre-verification lists discarded ["+label+"]", pos, "Assertions and EncryptedAssertions reset to empty after the header decode")
				} else {
					miss := []string{}
					if resetA == nil {
						miss = append(miss, "Assertions")
					}
					if resetE == nil {
						miss = append(miss, "EncryptedAssertions")
					}
					o := c.bad("C01-R1", fname, "unsigned root: pre-verification lists discarded ["+label+"]", pos,
						"the Response header is decoded from the unverified root and "+strings.Join(miss, ", ")+" is not reset to empty before verified assertions are appended: unverified assertions are returned")
					o.Path = t.pathDesc(c.P)
				}
				for _, ae := range appends {
					checkAppend(c, t, fname, label, obj, ae, d)
				}
			default:
				o := c.bad("C01-R1", fname, "decode source ["+label+"]", pos, "with validation enabled the returned Response is decoded from "+d.Prov+": not the element returned by a successful signature check")
				o.Path = t.pathDesc(c.P)
			}
			// direct-child guard for every generic handler invocation on an accepting path
			for _, e := range t.St.events {
				if e.Kind == EvIterEnter {
					checkDirectChild(c, "C01-R4", t, fname, e)
				}
			}
		}
		c.count("C01-R1/signed-accepting", nSigned)
		c.count("C01-R1/unsigned-accepting", nUnsigned)
		c.floor("C01-R1/signed-accepting", 1)
		c.floor("C01-R1/unsigned-accepting", 1) // the iterating path; a zero-assertion accepting path exists only as long as nothing re-checks what Validate guarantees
		n := errorDiscipline(c, "C01-R3", res)
		c.count("C01-R3/verify-sites", n)
		c.floor("C01-R3/verify-sites", 2)
	}
	// the EncryptedAssertion handler promotes plaintext to a direct child of the element it processes: the same
	// direct-child requirement applies to it (shared with C07-R3)
	c.rule("C01-R9", "what decryption puts into a (possibly verified) tree is the plaintext of the very ciphertext it replaces: every element decryptAssertions adds is Root(parseResponse(DecryptBytes(EncryptedAssertion decoded from the handler's element))) (shared with C07-R1)")
	c.count("C01-R9/tree-additions", plaintextProvenance(c, "C01-R9"))
	c.floor("C01-R9/tree-additions", 1)
	encryptedDirectChild(c, "C01-R4")
	decodedImmutable(c, "C01-R8")
	screenRule(c, "C01-R5")
	sideDoors(c, "C01-R6")
	c.rule("C01-R7", "signatures are checked against the store and clock configured NOW: the validation context is built per call in validationContext() from sp.IDPCertificateStore / sp.Clock (no caching), and every Validate receiver comes from it")
	ctxWiring(c, "C01-R7")
}

// headerBeforeMutation: on the unsigned-root path the Response header is decoded from the parsed root before anything
// is added to that tree (decrypted plaintext is attacker-chosen XML and would otherwise be decoded as header content).
func headerBeforeMutation(c *Ctx, rule string, t *Terminal, fname, label string, hdr decode) {
	mut := ""
	for _, e := range t.St.events {
		if e.Seq >= hdr.Ev.Seq || e.Kind != EvCall {
			continue
		}
		touches := false
		for _, a := range e.Args {
			if hdr.El != nil && a.Key() == hdr.El.Key() {
				touches = true
			}
		}
		if !touches {
			continue
		}
		if ct := lookupContract(e.Callee); ct != nil && ct.TreeMutator && shortName(e.Callee) != "(*etree.Document).SetRoot" {
			mut = shortName(e.Callee)
		}
		if e.CalleeFn != nil && c.P.inModule(e.CalleeFn) && !moduleTreePure(c.P, e.CalleeFn, map[*ssa.Function]bool{}) {
			mut = shortFn(e.CalleeFn)
		}
	}
	c.check(mut == "", rule, fname, "unsigned root: header decoded before the tree is modified ["+label+"]", c.P.InstrPos(hdr.Ev.Instr), "decode precedes decryptAssertions / any mutation of the root",
		"the Response header is decoded after "+mut+" has modified the parsed root: content of decrypted (attacker-encryptable) plaintext can be decoded as Issuer / Status of the Response")
}

func checkAppend(c *Ctx, t *Terminal, fname, label string, obj Val, ae *Event, hdr decode) {
	pos := c.P.InstrPos(ae.Instr)
	app := ae.Val.(*AppendV)
	// appended to the field itself
	if _, isAcc := accumulatorAppends(t, ae.Val); !strings.HasSuffix(apLvalOfLoad(app.S), ".Assertions") && !isAcc {
		c.bad("C01-R2", fname, "append target ["+label+"]", pos, "append does not extend the returned Response's own Assertions: "+ap(app.S))
	}
	if len(app.Elems) != 1 || app.Spread {
		c.bad("C01-R2", fname, "append shape ["+label+"]", pos, "append of "+ap(ae.Val))
		return
	}
	// element: load of *assertionObj
	l, ok := app.Elems[0].(*LoadV)
	if !ok {
		c.bad("C01-R2", fname, "appended value ["+label+"]", pos, "appended value is not a decoded Assertion object: "+ap(app.Elems[0]))
		return
	}
	aobj := l.Addr
	var src *decode
	for _, d := range decodes(t) {
		if d.Obj.Key() == aobj.Key() && d.Ev.Seq < ae.Seq {
			dd := d
			src = &dd
		}
	}
	if src == nil {
		c.bad("C01-R2", fname, "appended assertion is decoded ["+label+"]", pos, "appended object was never decoded: "+ap(aobj))
		return
	}
	// the decode target must be allocated inside the same generic iteration: encoding/xml merges into
	// existing non-nil state, so a target shared across iterations yields hybrids nobody signed
	fresh := false
	if a, ok := aobj.(*AllocV); ok {
		for _, it := range ae.Iters {
			if strings.HasSuffix(it, "/iter") && strings.HasPrefix(a.Site, strings.TrimSuffix(it, "/iter")+"/") {
				fresh = true
			}
		}
	}
	if fresh {
		c.ok("C01-R2", fname, "decode target is fresh per assertion ["+label+"]", pos, "allocated inside the handler invocation")
	} else {
		c.bad("C01-R2", fname, "decode target is fresh per assertion ["+label+"]", pos,
			"the Assertion object decoded into ("+ap(aobj)+") is not allocated inside the handler invocation: it is shared by all iterations and encoding/xml merges successive assertions into it")
	}
	want := "verified(nscopy(desc(raw)))"
	if src.Prov == want {
		c.ok("C01-R2", fname, "appended assertion decoded from its own verified element ["+label+"]", pos, "decoded from "+src.Prov)
	} else {
		o := c.bad("C01-R2", fname, "appended assertion decoded from its own verified element ["+label+"]", pos,
			"an assertion appended on the unsigned-Response path is decoded from "+src.Prov+", want "+want+" (the element returned by the successful signature check of that assertion)")
		o.Path = t.pathDesc(c.P)
	}
}

func apLvalOfLoad(v Val) string {
	switch x := v.(type) {
	case *LoadV:
		return apLval(x.Addr)
	case *UnknownV:
		return x.Why
	}
	return ap(v)
}

// checkDirectChild: on a path where the generic handler invocation returned nil, the path carries
// Parent(elem) == traversed root.
func checkDirectChild(c *Ctx, rule string, t *Terminal, fname string, enter *Event) {
	// find matching iter-exit
	var exit *Event
	for _, e := range t.St.events {
		if e.Kind == EvIterExit && e.Callee == enter.Callee && e.Seq > enter.Seq {
			exit = e
			break
		}
	}
	if exit != nil && len(exit.Res) == 1 && isHaltSentinel(exit.Res[0]) {
		o := c.bad(rule, fname, "handler "+shortFn(enter.CalleeFn)+" lets the traversal visit every element", c.P.InstrPos(enter.Instr),
			"the handler returns etreeutils.ErrTraversalHalted on an accepting path: the walk stops with success and the elements after this one are never examined")
		o.Path = t.pathDesc(c.P)
		return
	}
	if exit == nil || len(exit.Res) == 0 || !isNilConst(exit.Res[0]) {
		return // handler returned an error on this path
	}
	elem := enter.X
	root := enter.Args[0]
	ok := false
	for _, f := range t.St.facts {
		if !f.Pol {
			continue
		}
		b, isB := f.Cond.(*BinV)
		if !isB {
			continue
		}
		for _, pair := range [][2]Val{{b.X, b.Y}, {b.Y, b.X}} {
			if cv, isC := pair[0].(*CallV); isC && shortName(cv.Callee) == "(*etree.Element).Parent" && cv.Args[0].Key() == elem.Key() && pair[1].Key() == root.Key() {
				ok = true
			}
		}
	}
	pos := c.P.InstrPos(enter.Instr)
	h := shortFn(enter.CalleeFn)
	if ok {
		c.ok(rule, fname, "handler "+h+" requires element.Parent() == traversed root", pos, "fact Parent(elem) == root on the nil-returning handler path")
	} else {
		o := c.bad(rule, fname, "handler "+h+" requires element.Parent() == traversed root", pos,
			"a traversal handler accepts an element without establishing that it is a direct child of the element the traversal started on: nested / relocated assertions are honoured")
		o.Path = t.pathDesc(c.P)
	}
	c.count(rule+"/handlers", 1)
}

// screenRule: parseResponse.
func screenRule(c *Ctx, rule string) {
	res := c.kernel("parseResponse", "*")
	if res == nil {
		return
	}
	fname := shortFn(res.Root)
	n := 0
	for _, t := range res.Terms {
		if !t.accepting(res.Root) {
			continue
		}
		n++
		pos := c.P.InstrPos(t.Instr)
		var lastRead *Event
		docs := map[string]int{}
		for _, e := range t.calls("(*etree.Document).ReadFromBytes") {
			lastRead = e
			docs[e.Args[0].Key()]++
			// each parse attempt fills its own, freshly created document (a failed first attempt must leave nothing behind)
			cv, isNew := e.Args[0].(*CallV)
			fresh := isNew && shortName(cv.Callee) == "etree.NewDocument" && docs[e.Args[0].Key()] == 1
			c.check(fresh, rule, fname, "each parse attempt reads into a fresh document", c.P.InstrPos(e.Instr), "etree.NewDocument() per attempt",
				"a parse attempt reads into "+ap(e.Args[0])+", a document that is not created for this attempt: tokens of a failed first attempt stay in the tree and the compressed form is not treated like the plain one")
		}
		if lastRead == nil {
			c.bad(rule, fname, "accepting path parses", pos, "accepting path without ReadFromBytes")
			continue
		}
		readErrNil, k := t.eqFact(lastRead.Res[0], nilOf(nil))
		c.check(k && readErrNil, rule, fname, "accept requires ReadFromBytes == nil", pos, "last parse succeeded", "accepts although the last ReadFromBytes result is not known nil")
		doc, bytesV := lastRead.Args[0], lastRead.Args[1]
		retDoc, retEl := resultOfType(t, "*etree.Document"), resultOfType(t, "*etree.Element")
		c.check(retDoc != nil && retDoc.Key() == doc.Key(), rule, fname, "returned document is the parsed one", pos, "doc == receiver of the successful ReadFromBytes", "returns "+apOrNone(retDoc))
		rootOK := false
		if cv, ok := retEl.(*CallV); ok && shortName(cv.Callee) == "(*etree.Document).Root" && cv.Args[0].Key() == doc.Key() {
			rootOK = t.nonNil(retEl)
		}
		c.check(rootOK, rule, fname, "returned element is doc.Root() and non-nil", pos, "nil root is an error", "returned element "+apOrNone(retEl)+" is not the non-nil root of the parsed document")
		screened := false
		for _, e := range t.calls("rtvalidator.Validate") {
			if cv, ok := e.Args[0].(*MakeIfaceV); ok {
				if rd, ok := cv.X.(*CallV); ok && rd.Callee == "bytes.NewReader" && rd.Args[0].Key() == bytesV.Key() {
					if isNil, kn := t.eqFact(e.Res[0], nilOf(nil)); kn && isNil {
						screened = true
					}
				}
			}
		}
		if screened {
			c.ok(rule, fname, "round-trip screen over the parsed bytes", pos, "rtvalidator.Validate(bytes.NewReader(b)) == nil with b the bytes given to ReadFromBytes")
		} else {
			o := c.bad(rule, fname, "round-trip screen over the parsed bytes", pos, "parseResponse accepts without a successful rtvalidator.Validate over the very bytes that were parsed")
			o.Path = t.pathDesc(c.P)
		}
	}
	c.count(rule+"/accepting", n)
	c.floor(rule+"/accepting", 2)
	// who-may-call: etree readers
	readers := func(n string) bool {
		s := shortName(n)
		return strings.HasPrefix(s, "(*etree.Document).ReadFrom")
	}
	cnt := scanCalls(c.P, c.P.LibFns, readers, func(s callSite) {
		if !c.P.withinOnly(s.Caller, allowNames("parseResponse")) {
			c.bad(rule+"/who-may-parse", shortFn(s.Caller), "call "+shortName(s.Callee), c.P.InstrPos(s.Instr), "XML is parsed into an etree outside parseResponse (no round-trip screen, no size bound)")
		} else {
			c.ok(rule+"/who-may-parse", shortFn(s.Caller), "call "+shortName(s.Callee), c.P.InstrPos(s.Instr), "inside parseResponse")
		}
	})
	c.count(rule+"/who-may-parse", cnt)
	c.floor(rule+"/who-may-parse", 1)
	fired := 0
	scanCalls(c.P, controlFns(c, "rawparse"), readers, func(s callSite) { fired++ })
	c.Controls[rule+" rawparse"] = fired > 0
	if fired == 0 {
		c.bad(rule+"/who-may-parse", "controls/rawparse", "positive control", "-", "matcher did not flag the control that calls ReadFromBytes")
	}
}

// sideDoors: enumerated producers of Response / Assertion values from bytes.
func sideDoors(c *Ctx, rule string) {
	// raw xml.Unmarshal: only inside the generic element decoder, the two pre-decoders (their own types) and the
	// exported Decrypt helper — or helpers that only those call
	type site struct {
		Within []string
		Types  map[string]bool
		Why    string
	}
	rawSites := []site{
		{[]string{"xmlUnmarshalElement"}, nil, "generic helper: target classified at its call sites"},
		{[]string{"DecodeUnverifiedBaseResponse", "DecodeUnverifiedLogoutResponse"}, nil, "pre-decode: documented as unverified; its target types are checked on the kernel paths by C20"},
		{[]string{"(*types.EncryptedAssertion).Decrypt"}, map[string]bool{"*types.Assertion": true}, "exported decrypt helper: caller-side trust (documented), not used by the validators"},
	}
	targetType := func(s callSite) string {
		if s.Instr == nil || len(s.Instr.Common().Args) != 2 {
			return "?"
		}
		a := s.Instr.Common().Args[1]
		if mi, ok := a.(*ssa.MakeInterface); ok {
			return typeStr(mi.X.Type())
		}
		return typeStr(a.Type())
	}
	n := 0
	scanCalls(c.P, c.P.LibFns, func(s string) bool { return s == "encoding/xml.Unmarshal" || s == "(*encoding/xml.Decoder).Decode" }, func(s callSite) {
		n++
		tt := targetType(s)
		for _, rs := range rawSites {
			if c.P.withinOnly(s.Caller, allowNames(rs.Within...)) && (rs.Types == nil || rs.Types[tt]) {
				c.ok(rule, shortFn(s.Caller), "xml.Unmarshal into "+tt, c.P.InstrPos(s.Instr), rs.Why)
				return
			}
		}
		if !validatorCone(c)[topFn(s.Caller)] {
			// a decoder the validators cannot reach: what it returns never becomes a validated result, and no trust flag can
			// be set on it outside the validators (C04-R1)
			c.ok(rule, shortFn(s.Caller), "xml.Unmarshal into "+tt, c.P.InstrPos(s.Instr), "separate unverified decoder, outside the call cone of the validators")
			return
		}
		if strings.Contains(tt, "Response") || strings.Contains(tt, "Assertion") || strings.Contains(tt, "LogoutRequest") || tt == "interface{}" || tt == "any" {
			c.bad(rule, shortFn(s.Caller), "xml.Unmarshal into "+tt, c.P.InstrPos(s.Instr), "new producer of "+tt+" values from bytes outside the validated decode paths")
		} else {
			c.ok(rule, shortFn(s.Caller), "xml.Unmarshal into "+tt, c.P.InstrPos(s.Instr), "unrelated type")
		}
	})
	c.count(rule+"/unmarshal-sites", n)
	c.floor(rule+"/unmarshal-sites", 3)
	// element decodes: inside a validator (its provenance is then decided by R1/R2 / C10 on the kernel paths)
	elemSites := []site{
		{[]string{"(*SAMLServiceProvider).ValidateEncodedResponse"}, map[string]bool{"*types.Response": true, "*types.Assertion": true}, ""},
		{[]string{"(*SAMLServiceProvider).decryptAssertions"}, map[string]bool{"*types.EncryptedAssertion": true}, ""},
		{[]string{"(*SAMLServiceProvider).ValidateEncodedLogoutResponsePOST"}, map[string]bool{"*types.LogoutResponse": true}, ""},
		{[]string{"(*SAMLServiceProvider).ValidateEncodedLogoutRequestPOST"}, map[string]bool{"*saml2.LogoutRequest": true}, ""},
	}
	m := 0
	scanCalls(c.P, c.P.LibFns, func(s string) bool { return shortName(s) == "xmlUnmarshalElement" }, func(s callSite) {
		m++
		// a helper that only forwards its own interface-typed parameter is classified at its call sites
		for _, eff := range effectiveTargets(c.P, s, 1, 0) {
			tt := eff.Type
			okSite := false
			for _, es := range elemSites {
				if eff.Resolved && c.P.withinOnly(eff.Site.Caller, allowNames(es.Within...)) && es.Types[tt] {
					c.ok(rule, shortFn(eff.Site.Caller), "xmlUnmarshalElement into "+tt, c.P.InstrPos(eff.Site.Instr), "decode site inside "+es.Within[0]+" (its provenance is checked on the kernel paths)")
					okSite = true
					break
				}
			}
			if !okSite {
				c.bad(rule, shortFn(eff.Site.Caller), "xmlUnmarshalElement into "+tt, c.P.InstrPos(eff.Site.Instr), "new decode site outside the analysed validators")
			}
		}
	})
	c.count(rule+"/element-decode-sites", m)
	c.floor(rule+"/element-decode-sites", 4)

	// RetrieveAssertionInfo sources
	ri := c.kernel("(*SAMLServiceProvider).RetrieveAssertionInfo", retrieveInline...)
	if ri != nil {
		resp := "(*SAMLServiceProvider).ValidateEncodedResponse(SP, $encodedResponse)#0"
		for _, t := range ri.Terms {
			if !t.accepting(ri.Root) {
				continue
			}
			pos := c.P.InstrPos(t.Instr)
			as, _ := t.finalField(t.Vals[0], "Assertions")
			c.check(as != nil && ap(as) == resp+".Assertions", rule, shortFn(ri.Root), "AssertionInfo.Assertions source", pos, "whole validated list", "Assertions <- "+ap(as))
			nm, _ := t.finalField(t.Vals[0], "NameID")
			c.check(nm != nil && ap(nm) == resp+".Assertions[0].Subject.NameID.Value", rule, shortFn(ri.Root), "AssertionInfo.NameID source", pos, "first validated assertion", "NameID <- "+ap(nm))
		}
	}
}

// ---------------------------------------------------------------- C02

func ruleC02(c *Ctx) {
	c.rule("C02-R1", "context wiring: dsig validation contexts are constructed only in validationContext(), over sp.IDPCertificateStore, with ctx.Clock = sp.Clock; every Validate receiver in library scope is a validationContext() result")
	c.rule("C02-R2", "fatal errors at all four verify sites (SSO root, per-assertion, LogoutResponse, LogoutRequest): only ErrMissingSignature at a root site continues")
	c.rule("C02-R3", "no downgrade: on the ErrMissingSignature continuation the trust flag of the returned object is the constant false")
	c.rule("C02-R5", "the trust store is read-only for the library: no store, append or mutating call reaches sp.IDPCertificateStore or the certificates it hands out (filtered view of the C17-R1 effect scan) — an in-place filter over Certificates() rewrites the application's Roots and un-trusts a key")
	configUntouched(c, "C02-R5", "the IdP certificate store", []string{"IDPCertificateStore"})
	c.rule("C02-R4", "only goxmldsig decides that a message is unsigned: with validation enabled every accepting path of the three validators has called dsig Validate on the parsed root element (no cheaper pre-check may classify a message as unsigned and skip the verification of a signature that is present but placed unusually)")
	c.rule("C02-R6", "the tree handed to the root-level signature check is the parsed tree: on every path of the three validators no tree-changing operation (mutating etree call, module function that is not tree-pure, unmodelled call that can reach the tree) lies between parseResponse and the first dsig Validate")
	ctxWiring(c, "C02-R1")
	total := 0
	for _, spec := range []inboundSpec{ssoSpec, loRespSpec, loReqSpec} {
		res := c.kernel(spec.Entry, inboundInline...)
		total += errorDiscipline(c, "C02-R2", res)
		if res == nil {
			continue
		}
		nR4 := 0
		for _, t := range res.Terms {
			if !t.accepting(res.Root) {
				continue
			}
			if skip, known := skipFact(t); !known || skip {
				continue
			}
			nR4++
			rootChecked := false
			for _, e := range t.St.events {
				if e.Kind == EvCall && shortName(e.Callee) == dsigValidate && len(e.Args) > 1 && provOf(t, e.Args[1]) == "raw" {
					rootChecked = true
				}
			}
			if rootChecked {
				c.ok("C02-R4", shortFn(res.Root), "validation enabled => the parsed root went through dsig Validate ["+labelReturn(c, t)+"]", c.P.InstrPos(t.Instr), "Validate(parsed root) on the path")
			} else {
				o := c.bad("C02-R4", shortFn(res.Root), "validation enabled => the parsed root went through dsig Validate ["+labelReturn(c, t)+"]", c.P.InstrPos(t.Instr),
					"an accepting path with signature validation enabled never hands the parsed root to dsig Validate: whether the message is signed is decided by something else, so a present-but-invalid signature can be treated as absent")
				o.Path = t.pathDesc(c.P)
			}
		}
		// R6: the tree handed to the root-level check is the tree that was parsed — nothing between parseResponse and the
		// first dsig Validate changes it (a diagnostics helper that re-roots the Signature element to decode its KeyInfo
		// takes the signature out of the message, and goxmldsig then reports "no signature")
		nR6 := 0
		for _, t := range res.Terms {
			var parsed, first *Event
			for _, e := range t.St.events {
				if (e.Kind == EvCall || e.Kind == EvExit) && shortName(e.Callee) == "parseResponse" {
					parsed = e
				}
				if first == nil && parsed != nil && e.Kind == EvCall && shortName(e.Callee) == dsigValidate {
					first = e
				}
			}
			if parsed == nil || first == nil {
				continue
			}
			nR6++
			// a tree-changing call (mutating etree contract, or an external callee without a contract) that is handed a node
			// of the parsed tree — not a copy of one
			var culprit *Event
			for _, e := range t.St.events {
				if e.Seq <= parsed.Seq || e.Seq >= first.Seq || e.Kind != EvCall || culprit != nil {
					continue
				}
				if e.CalleeFn != nil && c.P.inModule(e.CalleeFn) {
					if !moduleTreePure(c.P, e.CalleeFn, map[*ssa.Function]bool{}) {
						for _, a := range e.Args {
							if a != nil && touchesParsed(a, 0) {
								culprit = e
							}
						}
					}
					continue
				}
				ct := lookupContract(e.Callee)
				if ct != nil && !ct.TreeMutator {
					continue
				}
				if sn := shortName(e.Callee); strings.HasPrefix(sn, "(*etree.") && etreeReadOnly[sn[strings.LastIndex(sn, ".")+1:]] {
					continue // Copy, Root, FindElement, WriteTo…: the tree is only read
				}
				for i, a := range e.Args {
					if a == nil || !mayPointTo(a.Type()) {
						continue
					}
					if ct == nil && i == 0 && (pluginRecv(a) || pluginHook(a)) {
						continue
					}
					if touchesParsed(a, 0) {
						culprit = e
					}
				}
			}
			if culprit == nil {
				c.ok("C02-R6", shortFn(res.Root), "parsed tree unchanged up to the root signature check", c.P.InstrPos(first.Instr), "no tree-changing operation reaches the parsed tree between parseResponse and dsig Validate")
			} else {
				o := c.bad("C02-R6", shortFn(res.Root), "parsed tree unchanged up to the root signature check", c.P.InstrPos(culprit.Instr),
					"the message tree is changed between parsing and the root-level signature check ("+shortName(culprit.Callee)+" is handed a node of the parsed tree): what goxmldsig examines is not what was received, so a present signature can go unnoticed")
				o.Path = t.pathDesc(c.P)
			}
		}
		c.count("C02-R6/paths "+shortFn(res.Root), nR6)
		c.floor("C02-R6/paths "+shortFn(res.Root), 2)
		c.count("C02-R4/validating-accepting-paths "+shortFn(res.Root), nR4)
		c.floor("C02-R4/validating-accepting-paths "+shortFn(res.Root), 2)
		for _, t := range res.Terms {
			if !t.accepting(res.Root) || !strings.Contains(labelReturn(c, t), "unsigned-root") {
				continue
			}
			fv, ok := t.finalField(t.Vals[0], "SignatureValidated")
			b, isC := false, false
			if ok {
				b, isC = constBool(fv)
			}
			c.check(ok && isC && !b, "C02-R3", shortFn(res.Root), "missing-signature continuation leaves the flag false ["+labelReturn(c, t)+"]", c.P.InstrPos(t.Instr),
				"flag is constant false", "on the missing-signature continuation the trust flag is "+ap(fv))
			c.count("C02-R3", 1)
		}
	}
	c.count("C02-R2/verify-sites", total)
	c.floor("C02-R2/verify-sites", 4)
	c.floor("C02-R3", 3)
}

func ctxWiring(c *Ctx, rule string) {
	isCtor := func(n string) bool {
		s := shortName(n)
		return s == "dsig.NewDefaultValidationContext"
	}
	// every construction site is visited below through the Validate call that uses its result; here: count them,
	// reject literal construction (no default clock / store wiring at all), and keep the positive control alive
	n := scanCalls(c.P, c.P.LibFns, isCtor, func(s callSite) {})
	// a context written as a literal is the constructor's own body (&ValidationContext{CertificateStore: s, IdAttribute:
	// DefaultIdAttr, Clock: c}); whether a literal is wired like that is decided at each use below
	for _, f := range c.P.LibFns {
		for _, b := range f.Blocks {
			for _, in := range b.Instrs {
				if a, ok := in.(*ssa.Alloc); ok {
					if strings.HasSuffix(typeStr(a.Type()), "dsig.ValidationContext") || strings.HasSuffix(typeStr(a.Type()), "goxmldsig.ValidationContext") {
						n++
					}
				}
			}
		}
	}
	c.count(rule+"/who-may-construct", n)
	c.floor(rule+"/who-may-construct", 1)
	fired := 0
	scanCalls(c.P, controlFns(c, "ownctx"), isCtor, func(s callSite) { fired++ })
	c.Controls[rule+" ownctx"] = fired > 0
	if fired == 0 {
		c.bad(rule+"/who-may-construct", "controls/ownctx", "positive control", "-", "matcher did not flag the control that builds its own validation context")
	}
	// at the use: on every path of the three inbound validators, each dsig Validate call has as receiver a context
	// built on that path by NewDefaultValidationContext(sp.IDPCertificateStore) whose Clock was last stored from
	// sp.Clock — whatever helper functions or helper types the construction goes through
	seen := map[ssa.Instruction]bool{}
	uses := 0
	for _, spec := range []inboundSpec{ssoSpec, loRespSpec, loReqSpec} {
		res := c.kernel(spec.Entry, inboundInline...)
		if res == nil {
			continue
		}
		fname := shortFn(res.Root)
		for _, t := range res.Terms {
			for _, e := range t.St.events {
				if e.Kind != EvCall || shortName(e.Callee) != dsigValidate {
					continue
				}
				seen[e.Instr] = true
				uses++
				pos := c.P.InstrPos(e.Instr)
				recv := e.Args[0]
				want := "dsig.NewDefaultValidationContext(SP.IDPCertificateStore)"
				site := shortFn(e.Fn)
				literalOK := false
				if a, isLit := recv.(*AllocV); isLit && strings.HasSuffix(typeStr(a.Type()), "ValidationContext") {
					// the literal form: the fields the constructor sets, as they stand when the signature is checked
					fieldAt := func(name string) Val {
						var v Val
						for _, s := range t.St.events {
							if s.Seq >= e.Seq {
								break
							}
							if s.Kind == EvStore && isFieldAddrOf(s.Addr, recv, name) {
								v = s.Val
							}
						}
						return v
					}
					store, idAttr := fieldAt("CertificateStore"), fieldAt("IdAttribute")
					idOK := false
					if idAttr != nil {
						if sv, isC := constString(idAttr); isC && sv == "ID" {
							idOK = true
						}
					}
					literalOK = store != nil && ap(stripIface(store)) == "SP.IDPCertificateStore" && idOK
				}
				if ap(recv) == want || literalOK {
					c.ok(rule, site, "context over sp.IDPCertificateStore", pos, want)
				} else {
					o := c.bad(rule, site, "context over sp.IDPCertificateStore", pos, "in "+fname+" a signature is checked with "+ap(recv)+", want a context built in this call by "+want+" (a cached / filtered / foreign store changes which certificates vouch)")
					o.Path = t.pathDesc(c.P)
				}
				var clk Val
				for _, s := range t.St.events {
					if s.Seq >= e.Seq {
						break
					}
					if s.Kind == EvStore && isFieldAddrOf(s.Addr, recv, "Clock") {
						clk = s.Val
					}
				}
				clockOK := clk != nil && ap(clk) == "SP.Clock"
				if clk == nil {
					// `if sp.Clock != nil { ctx.Clock = sp.Clock }`: on the other path the fresh context's nil Clock IS sp.Clock
					a := t.atoms()
					clockOK = a["SP.Clock == nil"] && (ap(recv) == want || literalOK)
				}
				c.check(clockOK, rule, site, "ctx.Clock = sp.Clock", pos, "clock injected before the check", "ctx.Clock is "+apOrNone(clk)+" when the signature is checked (unset => wall clock decides certificate validity)")
			}
		}
	}
	c.count(rule+"/validate-uses", uses)
	c.floor(rule+"/validate-uses", 4)
	// every static Validate call site of the library was met on some kernel path, or is unreachable code
	isValidate := func(n string) bool { return shortName(n) == dsigValidate }
	m := scanCalls(c.P, c.P.LibFns, isValidate, func(s callSite) {
		if s.Instr == nil {
			c.bad(rule+"/receivers", shortFn(s.Caller), "method value of Validate", "-", "Validate taken as a value")
			return
		}
		switch {
		case seen[s.Instr]:
			c.ok(rule+"/receivers", shortFn(s.Caller), "receiver of dsig Validate", c.P.InstrPos(s.Instr), "met on the paths of an inbound validator (receiver checked there)")
		case c.P.unreachable(s.Caller):
			c.ok(rule+"/receivers", shortFn(s.Caller), "receiver of dsig Validate", c.P.InstrPos(s.Instr), "unreachable: unexported and never called")
		default:
			c.bad(rule+"/receivers", shortFn(s.Caller), "receiver of dsig Validate", c.P.InstrPos(s.Instr), "a signature check outside the paths of the three inbound validators: its context is not shown to be built over sp.IDPCertificateStore / sp.Clock")
		}
	})
	c.count(rule+"/receivers", m) // informational: a site behind an interface is met through devirtualisation on the kernel paths (floor on validate-uses)
}

func apOrNone(v Val) string {
	if v == nil {
		return "never stored"
	}
	return ap(v)
}

// ---------------------------------------------------------------- C04

var flagFields = []struct{ Type, Field string }{
	{"types.Response", "SignatureValidated"},
	{"types.Assertion", "SignatureValidated"},
	{"types.LogoutResponse", "SignatureValidated"},
	{"LogoutRequest", "SignatureValidated"},
	{"AssertionInfo", "ResponseSignatureValidated"},
}

func ruleC04(c *Ctx) {
	c.rule("C04-R1", "who-may-write: the five trust-indicator fields are stored only inside the three validators (and their closures) and the mirror in RetrieveAssertionInfo")
	c.rule("C04-R2", "flag <=> verified: on every accepting path the flag of the returned object is a constant, true exactly when it was decoded from the element returned by the successful check of the parsed root with validation enabled; per-assertion flag stored true after that assertion's own decode-from-verified and before the append")
	c.rule("C04-R3", "input cannot set it: the five fields carry xml:\"-\"")
	c.rule("C04-R4", "mirror: AssertionInfo.ResponseSignatureValidated is stored once, from response.SignatureValidated of the validated result")
	// R1
	allowedTop := map[string]bool{
		"(*SAMLServiceProvider).ValidateEncodedResponse":           true,
		"(*SAMLServiceProvider).ValidateEncodedLogoutResponsePOST": true,
		"(*SAMLServiceProvider).ValidateEncodedLogoutRequestPOST":  true,
		"(*SAMLServiceProvider).RetrieveAssertionInfo":             true,
	}
	n := 0
	perField := map[string]int{}
	for _, f := range c.P.LibFns {
		for _, b := range f.Blocks {
			for _, in := range b.Instrs {
				st, ok := in.(*ssa.Store)
				if !ok {
					continue
				}
				fa, ok := st.Addr.(*ssa.FieldAddr)
				if !ok {
					continue
				}
				owner, _ := derefStruct(fa.X.Type())
				if owner == nil {
					continue
				}
				fname := owner.Underlying().(*types.Struct).Field(fa.Field).Name()
				for _, ff := range flagFields {
					if fname == ff.Field && c.P.Named(ff.Type) != nil && types.Identical(owner, c.P.Named(ff.Type)) {
						n++
						perField[ff.Type+"."+ff.Field]++
						var tops []string
						for k := range allowedTop {
							tops = append(tops, k)
						}
						c.check(c.P.withinOnly(f, allowNames(tops...)), "C04-R1", shortFn(f), "store "+ff.Type+"."+ff.Field, c.P.InstrPos(st), "writer is a validator", "trust indicator written outside the validators: "+shortFn(f))
					}
				}
			}
		}
	}
	c.count("C04-R1/writers", n)
	c.floor("C04-R1/writers", 5)
	// every indicator has a writer (a field nobody sets could not be compared with anything in R2)
	for _, ff := range flagFields {
		c.check(perField[ff.Type+"."+ff.Field] > 0, "C04-R1", ff.Type, "indicator "+ff.Field+" has a writer", "-", fmt.Sprintf("%d store(s)", perField[ff.Type+"."+ff.Field]), "no store to "+ff.Type+"."+ff.Field+" found in library scope")
	}
	// R2
	for _, spec := range []inboundSpec{ssoSpec, loRespSpec, loReqSpec} {
		res := c.kernel(spec.Entry, inboundInline...)
		flagRule(c, "C04-R2", res, spec)
	}
	assertionFlags(c, "C04-R2")
	c.rule("C04-R5", "what is marked validated is what was verified: appended assertions are freshly allocated objects decoded from their own verified element (shared with C01-R2); the verification context is the configured one (shared with C02-R1)")
	appendProvenance(c, "C04-R5")
	decodedImmutable(c, "C04-R6")
	ctxWiring(c, "C04-R5/context")
	// R3
	for _, ff := range flagFields[:4] {
		nt := c.P.Named(ff.Type)
		if nt == nil {
			c.bad("C04-R3", ff.Type, "type resolves", "-", "UNRESOLVED-ANCHOR type "+ff.Type)
			continue
		}
		st := nt.Underlying().(*types.Struct)
		found := false
		for i := 0; i < st.NumFields(); i++ {
			if st.Field(i).Name() == ff.Field {
				found = true
				tag := reflect.StructTag(st.Tag(i)).Get("xml")
				c.check(tag == "-", "C04-R3", ff.Type, "tag of "+ff.Field, c.P.Pos(st.Field(i).Pos()), `xml:"-"`, "field "+ff.Type+"."+ff.Field+" has xml tag "+fmt.Sprintf("%q", tag)+": the XML input can set the trust indicator")
			}
		}
		if !found {
			c.bad("C04-R3", ff.Type, "field "+ff.Field, "-", "UNRESOLVED-ANCHOR field")
		}
	}
	// R4
	ri := c.kernel("(*SAMLServiceProvider).RetrieveAssertionInfo", retrieveInline...)
	if ri != nil {
		k := 0
		for _, t := range ri.Terms {
			if !t.accepting(ri.Root) {
				continue
			}
			k++
			want := "(*SAMLServiceProvider).ValidateEncodedResponse(SP, $encodedResponse)#0.SignatureValidated"
			var vals []string
			for _, e := range storesToField(t, "ResponseSignatureValidated") {
				v := ap(e.Val)
				// read through an accessor of the response: a module function of the response alone every return of which is
				// the flag itself (or false for a nil receiver)
				if cv, isCall := e.Val.(*CallV); isCall && cv.Fn != nil && c.P.inModule(cv.Fn) && len(cv.Args) == 1 && ap(cv.Args[0])+".SignatureValidated" == want && flagGetter(c, cv.Fn, "SignatureValidated") {
					v = want
				}
				// a nil-safe accessor inlined: on the (infeasible) path that takes the response for nil it answers false, which
				// cannot overstate anything
				if b, isC := constBool(e.Val); isC && !b {
					for _, f := range t.St.facts {
						if bv, isB := f.Cond.(*BinV); isB && bv.Op == token.EQL && f.Pol && isNilConst(bv.Y) && ap(bv.X)+".SignatureValidated" == want {
							v = want
						}
					}
				}
				vals = append(vals, v)
			}
			c.check(len(vals) == 1 && vals[0] == want, "C04-R4", shortFn(ri.Root), "mirror of the Response flag", c.P.InstrPos(t.Instr), "stored once from response.SignatureValidated", fmt.Sprintf("ResponseSignatureValidated stores: %v, want exactly [%s]", vals, want))
		}
		c.count("C04-R4", k)
		c.floor("C04-R4", 1)
	}
}

// appendProvenance: every append to the returned Response's Assertions passes C01-R2's analysis (fresh target,
// decoded from its own verified element), reported under the given rule.
func appendProvenance(c *Ctx, rule string) {
	res := c.kernel(ssoSpec.Entry, inboundInline...)
	if res == nil {
		return
	}
	fname := shortFn(res.Root)
	n := 0
	for _, t := range res.Terms {
		if !t.accepting(res.Root) {
			continue
		}
		skip, known := skipFact(t)
		if !known || skip {
			continue
		}
		label := labelReturn(c, t)
		obj := t.Vals[0]
		var hdr decode
		for _, d := range decodes(t) {
			if d.Obj.Key() == obj.Key() {
				hdr = d
			}
		}
		apps, _, _ := assertionListStores(t, obj, 0)
		for _, e := range apps {
			n++
			checkAppendFor(c, rule, t, fname, label, obj, e, hdr)
		}
	}
	c.count(rule+"/appends", n)
	c.floor(rule+"/appends", 1)
}

// assertionFlags: in ValidateEncodedResponse every appended assertion has SignatureValidated = true stored after its
// decode-from-verified and before the append; no other store of `true` into an Assertion flag.
func assertionFlags(c *Ctx, rule string) {
	res := c.kernel(ssoSpec.Entry, inboundInline...)
	if res == nil {
		return
	}
	fname := shortFn(res.Root)
	n := 0
	for _, t := range res.Terms {
		if !t.accepting(res.Root) {
			continue
		}
		label := labelReturn(c, t)
		for _, e := range t.St.events {
			if e.Kind != EvStore {
				continue
			}
			fa, ok := e.Addr.(*FieldAddrV)
			if !ok || fa.Name != "SignatureValidated" || typeStr(fa.Owner) != "types.Assertion" {
				continue
			}
			n++
			b, isC := constBool(e.Val)
			aobj := fa.X
			var src *decode
			for _, d := range decodes(t) {
				if d.Obj.Key() == aobj.Key() && d.Ev.Seq < e.Seq {
					dd := d
					src = &dd
				}
			}
			skip, known := skipFact(t)
			good := isC && (!b || (src != nil && trusted(src.Prov) && known && !skip))
			prov := "never decoded"
			if src != nil {
				prov = src.Prov
			}
			c.check(good, rule, fname, "per-assertion flag ["+label+"]", c.P.InstrPos(e.Instr), "true only after decode from "+prov,
				"Assertion.SignatureValidated stored "+ap(e.Val)+" for an assertion decoded from "+prov)
		}
		// every append on the unsigned path has the flag true at append time
		for _, e := range t.St.events {
			if e.Kind != EvStore {
				continue
			}
			app, ok := e.Val.(*AppendV)
			fa, ok2 := e.Addr.(*FieldAddrV)
			if !ok || !ok2 || fa.Name != "Assertions" || len(app.Elems) != 1 {
				continue
			}
			l, ok := app.Elems[0].(*LoadV)
			if !ok {
				continue
			}
			flagTrue := false
			for _, s := range t.St.events {
				if s.Kind == EvStore && s.Seq < e.Seq && isFieldAddrOf(s.Addr, l.Addr, "SignatureValidated") {
					b, isC := constBool(s.Val)
					flagTrue = isC && b
				}
			}
			c.check(flagTrue, rule, fname, "appended assertion marked validated ["+label+"]", c.P.InstrPos(e.Instr), "flag stored true before the append", "an individually verified assertion is appended without SignatureValidated = true")
		}
	}
	c.count(rule+"/assertion-flag-stores", n)
	c.floor(rule+"/assertion-flag-stores", 1)
}

// ---------------------------------------------------------------- C10

func logoutRows(obj, sloField string, withStatus bool) []Row {
	rows := []Row{
		{ID: "Version == 2.0", Alts: []string{obj + `.Version == "2.0"`}, Err: &ErrSpec{Type: "saml2.ErrInvalidValue", Fields: map[string][]string{"Key": {"SAML version", "Version"}, "Reason": {"Unsupported"}}}},
		{ID: "Destination empty or == SP SLO URL", Alts: []string{obj + `.Destination == ""`, obj + ".Destination == SP." + sloField}, Err: invVal("Destination")},
		{ID: "Issuer present", Alts: []string{"!(" + obj + ".Issuer == nil)"}, Err: missEl("Issuer")},
		{ID: "Issuer == configured IdP issuer (when configured)", Alts: []string{`SP.IdentityProviderIssuer == ""`, obj + ".Issuer.Value == SP.IdentityProviderIssuer"}, Err: invVal("Issuer")},
	}
	if withStatus {
		rows = append(rows,
			Row{ID: "Status present", Alts: []string{"!(" + obj + ".Status == nil)"}, Err: missEl("Status")},
			Row{ID: "StatusCode present", Alts: []string{"!(" + obj + ".Status.StatusCode == nil)"}, Err: missEl("StatusCode")},
			Row{ID: "StatusCode == Success", Alts: []string{obj + ".Status.StatusCode.Value == " + kSuccess}, Err: invVal("StatusCode")})
	}
	return rows
}

func ruleC10(c *Ctx) {
	c.rule("C10-R1", "guard inventory of ValidateDecodedLogoutResponse / ValidateDecodedLogoutRequest (attribute validators inlined): Version, Destination vs ServiceProviderSLOURL, Issuer present and equal when configured, Status Success for responses; typed errors")
	c.rule("C10-R2", "validation dominates acceptance; fatal verification errors; decode from the verified root or the raw root on the missing-signature continuation; flag <=> verified root, false under skip")
	c.rule("C10-R3", "kind separation: root structs carry a tagged XMLName (namespace, local name), pairwise distinct except Response/UnverifiedBaseResponse; each validator decodes its own kind")
	c.rule("C10-R4", "sibling agreement: the two logout validators have the same path skeleton (skip handling, error discipline, flag rule)")
	decodedImmutable(c, "C10-R6")
	c.rule("C10-R7", "the fields the logout checks read are decoded from where the schema puts them: LogoutRequest / LogoutResponse ID, Version, Destination, InResponseTo as attributes, Issuer, Status, NameID as child elements with these names and Go types (rows of the C08-R1 schema table) — a Destination that is never decoded is empty, and an empty Destination passes")
	var logoutSchema []typeSpec
	for _, ts := range schemaTable {
		if ts.Type == "types.LogoutResponse" || ts.Type == "LogoutRequest" || ts.Type == "types.Status" || ts.Type == "types.StatusCode" || ts.Type == "types.Issuer" {
			logoutSchema = append(logoutSchema, ts)
		}
	}
	checkSchemaTableF(c, "C10-R7", logoutSchema, false, 10)
	lr := c.kernel("(*SAMLServiceProvider).ValidateDecodedLogoutResponse", "*")
	guardInventory(c, "C10-R1", lr, logoutRows("LR", "ServiceProviderSLOURL", true), nil)
	lq := c.kernel("(*SAMLServiceProvider).ValidateDecodedLogoutRequest", "*")
	guardInventory(c, "C10-R1", lq, logoutRows("LQ", "ServiceProviderSLOURL", false), nil)
	c.floor("C10-R1/accepting-paths", 4)
	sk := map[string][]string{}
	sites := 0
	for _, spec := range []inboundSpec{loRespSpec, loReqSpec} {
		validationDominates(c, "C10-R2/dominates "+spec.Kind, spec.Entry, spec.Validator, 3)
		res := c.kernel(spec.Entry, inboundInline...)
		sites += errorDiscipline(c, "C10-R2/errors", res)
		decodeProvenance(c, "C10-R2/decode", res, spec)
		flagRule(c, "C10-R2/flag", res, spec)
		if res != nil {
			// parse through parseResponse
			for _, t := range res.Terms {
				if t.accepting(res.Root) {
					nParse := 0
					for _, e := range t.calls("parseResponse") {
						if e.Kind == EvCall {
							nParse++ // the summarised parse helper itself (a wrapper stepped through on the way does not count twice)
						}
					}
					c.check(nParse == 1, "C10-R2/parse", shortFn(res.Root), "input parsed by parseResponse", c.P.InstrPos(t.Instr), "screened, bounded parse", "accepting path does not go through parseResponse")
				}
			}
			sk[spec.Kind] = skeleton(c, res)
		}
	}
	c.count("C10-R2/verify-sites", sites)
	c.floor("C10-R2/verify-sites", 2)
	// R4 sibling agreement
	a, b := sk["LogoutResponse"], sk["LogoutRequest"]
	if a != nil && b != nil {
		// accepting classes agree with their multiplicities; rejecting classes agree as sets (how many paths lead into
		// one kind of rejection depends on how many redundant guards a function carries, not on what it accepts)
		norm := func(xs []string) []string {
			set := map[string]bool{}
			for _, x := range xs {
				// classes agree as sets: how many paths lead into one class depends on how many guards, options and hooks a
				// function carries, not on how it treats a situation
				if i := strings.LastIndex(x, "×"); i >= 0 {
					x = x[:i]
				}
				if x == "reject:early:other" {
					// an input pre-check before anything is decoded or verified (a size cap, say) may exist on one side only:
					// it narrows what reaches the validator, it does not treat a signature situation differently
					continue
				}
				set[x] = true
			}
			return sortedStrings(set)
		}
		na, nb := norm(a), norm(b)
		same := len(na) == len(nb)
		if same {
			for i := range na {
				if na[i] != nb[i] {
					same = false
				}
			}
		}
		c.check(same, "C10-R4", "logout validators", "path skeletons agree", "-", fmt.Sprintf("%d terminal classes each", len(a)),
			fmt.Sprintf("the two logout validators treat the same situations differently:\n   LogoutResponse: %v\n   LogoutRequest:  %v", a, b))
	}
	kindSeparation(c, "C10-R3")
	c.rule("C10-R5", "logout signatures are checked with the configured store and clock (shared with C02-R1)")
	ctxWiring(c, "C10-R5")
}

// skeleton: sorted multiset of terminal classes (kind of return, skip / verify outcome, flag).
func skeleton(c *Ctx, res *Result) []string {
	m := map[string]int{}
	for _, t := range res.Terms {
		cls := t.Kind
		if t.accepting(res.Root) {
			cls = "accept:" + labelReturn(c, t)
			if fv, ok := t.finalField(t.Vals[0], "SignatureValidated"); ok {
				cls += ":flag=" + ap(fv)
			}
		} else if t.Kind == "return" {
			cls = "reject"
			a := t.atoms()
			switch {
			case a["SP.SkipSignatureValidation"]:
				cls += ":skip"
			case a["!(SP.SkipSignatureValidation)"]:
				cls += ":validate"
			default:
				cls += ":early"
			}
			last := lastFact(t)
			switch {
			case strings.Contains(last, "dsig.ErrMissingSignature"), strings.Contains(last, "ValidationContext).Validate"):
				cls += ":verify-error"
			case strings.Contains(last, "Unmarshal") || strings.Contains(last, "WriteToBytes"):
				cls += ":decode-error"
			case strings.Contains(last, "ValidateDecoded"):
				cls += ":profile-error"
			case strings.Contains(last, "parseResponse"):
				cls += ":parse-error"
			case strings.Contains(last, "DecodeString"):
				cls += ":base64-error"
			default:
				cls += ":other"
			}
		}
		m[cls]++
	}
	var out []string
	for _, k := range sortedKeys(m) {
		out = append(out, fmt.Sprintf("%s×%d", k, m[k]))
	}
	return out
}

func kindSeparation(c *Ctx, rule string) {
	kinds := []struct{ T, NS, Local string }{
		{"types.Response", "urn:oasis:names:tc:SAML:2.0:protocol", "Response"},
		{"types.UnverifiedBaseResponse", "urn:oasis:names:tc:SAML:2.0:protocol", "Response"},
		{"types.LogoutResponse", "urn:oasis:names:tc:SAML:2.0:protocol", "LogoutResponse"},
		{"LogoutRequest", "urn:oasis:names:tc:SAML:2.0:protocol", "LogoutRequest"},
		{"types.Assertion", "urn:oasis:names:tc:SAML:2.0:assertion", "Assertion"},
		{"types.EncryptedAssertion", "urn:oasis:names:tc:SAML:2.0:assertion", "EncryptedAssertion"},
	}
	for _, k := range kinds {
		nt := c.P.Named(k.T)
		if nt == nil {
			c.bad(rule, k.T, "type resolves", "-", "UNRESOLVED-ANCHOR type "+k.T)
			continue
		}
		st := nt.Underlying().(*types.Struct)
		tag := ""
		pos := c.P.Pos(nt.Obj().Pos())
		for i := 0; i < st.NumFields(); i++ {
			if st.Field(i).Name() == "XMLName" && typeStr(st.Field(i).Type()) == "xml.Name" {
				tag = reflect.StructTag(st.Tag(i)).Get("xml")
				pos = c.P.Pos(st.Field(i).Pos())
			}
		}
		want := k.NS + " " + k.Local
		c.check(tag == want, rule, k.T, "XMLName tag", pos, want, "root struct "+k.T+" has XMLName tag "+fmt.Sprintf("%q", tag)+", want "+fmt.Sprintf("%q", want)+": a message of another kind (or namespace) would decode into it")
	}
	c.count(rule+"/kinds", len(kinds))
	c.floor(rule+"/kinds", 6)
}

// encryptedDirectChild: every generic invocation of the EncryptedAssertion traversal handler in decryptAssertions
// returns an error unless element.Parent() == the traversed root.
func encryptedDirectChild(c *Ctx, rule string) {
	da := c.kernel("(*SAMLServiceProvider).decryptAssertions", "*", "-(*SAMLServiceProvider).getDecryptCert", "-types.(*EncryptedAssertion).DecryptBytes", "-parseResponse")
	if da == nil {
		return
	}
	n := 0
	for _, t := range da.Terms {
		for _, e := range t.St.events {
			if e.Kind == EvIterEnter {
				n++
				checkDirectChild(c, rule, t, shortFn(da.Root), e)
			}
		}
	}
	c.count(rule+"/encrypted-handlers", n)
	c.floor(rule+"/encrypted-handlers", 1)
}

// accumulatorCell: the local variable an append extends when the verified assertions are collected in a local and
// published once — S is the load (or loop-carried value) of a local cell whose every store on the path is either an
// empty slice or an append to the cell's own content. Returns the append events into that cell.
func accumulatorAppends(t *Terminal, v Val) ([]*Event, bool) {
	app, ok := v.(*AppendV)
	if !ok {
		return nil, false
	}
	same := func(addr Val, s Val) bool {
		switch x := s.(type) {
		case *LoadV:
			return x.Addr.Key() == addr.Key()
		case *UnknownV:
			return x.Why == "loop-carried "+lvalKey(addr)
		}
		return false
	}
	var cell Val
	for _, e := range t.St.events {
		if e.Kind != EvStore {
			continue
		}
		if a, isAlloc := e.Addr.(*AllocV); isAlloc && same(a, app.S) {
			cell = a
		}
	}
	if cell == nil {
		return nil, false
	}
	var out []*Event
	inits := 0
	for _, e := range t.St.events {
		if e.Kind != EvStore || e.Addr.Key() != cell.Key() {
			continue
		}
		if isEmptySliceValT(t, e.Val) {
			inits++
			continue
		}
		a2, ok := e.Val.(*AppendV)
		if !ok || !same(cell, a2.S) {
			return nil, false
		}
		out = append(out, e)
	}
	return out, inits > 0 && len(out) > 0
}

// assertionListStores classifies the stores to obj.Assertions after seq: appends (to the field itself, or into a
// local accumulator that is then published into the field), resets to empty, and anything else.
func assertionListStores(t *Terminal, obj Val, seq int) (appends []*Event, reset *Event, other []*Event) {
	for _, e := range t.St.events {
		if e.Kind != EvStore || e.Seq < seq {
			continue
		}
		fa, ok := e.Addr.(*FieldAddrV)
		if !ok || fa.X.Key() != obj.Key() || fa.Name != "Assertions" {
			continue
		}
		if app, isApp := e.Val.(*AppendV); isApp {
			if strings.HasSuffix(apLvalOfLoad(app.S), ".Assertions") {
				appends = append(appends, e)
			} else if evs, ok := accumulatorAppends(t, e.Val); ok {
				appends = append(appends, evs...)
				if reset == nil {
					reset = e // the field is replaced wholesale by a list that started empty
				}
			} else {
				other = append(other, e)
			}
			continue
		}
		if isEmptySliceValT(t, e.Val) && len(appends) == 0 {
			reset = e
			continue
		}
		other = append(other, e)
	}
	return
}

// effTarget: a call site at which the concrete type handed to a decode helper is decided.
type effTarget struct {
	Site     callSite
	Type     string
	Resolved bool
}

// effectiveTargets: the decode target of call site s (argument argIdx). When the argument is merely the enclosing
// function's own interface-typed parameter, the helper is a forwarder and the targets are those of all its static call
// sites (followed up to three levels); a forwarder whose address is taken, or that has no call site, stays unresolved.
func effectiveTargets(p *Prog, s callSite, argIdx, depth int) []effTarget {
	if s.Instr == nil || len(s.Instr.Common().Args) <= argIdx {
		return []effTarget{{Site: s, Type: "?"}}
	}
	a := s.Instr.Common().Args[argIdx]
	if mi, ok := a.(*ssa.MakeInterface); ok {
		return []effTarget{{Site: s, Type: typeStr(mi.X.Type()), Resolved: true}}
	}
	par, isParam := a.(*ssa.Parameter)
	if _, isIface := a.Type().Underlying().(*types.Interface); !isIface {
		return []effTarget{{Site: s, Type: typeStr(a.Type()), Resolved: true}}
	}
	if !isParam || depth >= 3 || s.Caller == nil {
		return []effTarget{{Site: s, Type: typeStr(a.Type())}}
	}
	pi := -1
	for i, q := range s.Caller.Params {
		if q == par {
			pi = i
		}
	}
	var out []effTarget
	escapes := false
	for _, f := range p.LibFns {
		for _, b := range f.Blocks {
			for _, in := range b.Instrs {
				if ci, ok := in.(ssa.CallInstruction); ok && ci.Common().StaticCallee() == s.Caller {
					out = append(out, effectiveTargets(p, callSite{Caller: f, Callee: s.Caller.String(), Fn: s.Caller, Instr: ci}, pi, depth+1)...)
					continue
				}
				for _, op := range in.Operands(nil) {
					if op != nil && *op == ssa.Value(s.Caller) {
						if ci, ok := in.(ssa.CallInstruction); !ok || ci.Common().Value != ssa.Value(s.Caller) {
							escapes = true
						}
					}
				}
			}
		}
	}
	if pi < 0 || escapes || len(out) == 0 {
		return []effTarget{{Site: s, Type: typeStr(a.Type())}}
	}
	return out
}

// resultOfType: the returned value of the given type — a result of the tuple or a field of a returned result struct.
func resultOfType(t *Terminal, ts string) Val {
	for _, v := range t.Vals {
		if v == nil {
			continue
		}
		if typeStr(v.Type()) == ts {
			return v
		}
		if sl, ok := v.(*StructLitV); ok {
			for _, n := range sl.Names {
				if f := sl.Fields[n]; f != nil && typeStr(f.Type()) == ts {
					return f
				}
			}
		}
	}
	return nil
}

// flagGetter: fn(x) returns x.<field> on every path, except false on paths that know x == nil.
func flagGetter(c *Ctx, fn *ssa.Function, field string) bool {
	if fn.Blocks == nil || len(fn.Params) != 1 || fn.Signature.Results().Len() != 1 {
		return false
	}
	res := c.intraKernel(fn)
	if res == nil || len(res.Terms) == 0 {
		return false
	}
	for _, t := range res.Terms {
		if t.Kind != "return" || len(t.Vals) != 1 {
			return false
		}
		if l, isL := t.Vals[0].(*LoadV); isL {
			if fa, isFA := l.Addr.(*FieldAddrV); isFA && fa.Name == field {
				if p, isP := fa.X.(*ParamV); isP && p.Idx == 0 {
					continue
				}
			}
			return false
		}
		if b, isC := constBool(t.Vals[0]); isC && !b {
			nilRecv := false
			for _, f := range t.St.facts {
				if bv, isB := f.Cond.(*BinV); isB && bv.Op == token.EQL && f.Pol && isNilConst(bv.Y) {
					if p, isP := bv.X.(*ParamV); isP && p.Idx == 0 {
						nilRecv = true
					}
				}
			}
			if nilRecv {
				continue
			}
		}
		return false
	}
	return true
}

// validatorCone: the module functions reachable from the validating entry points (and RetrieveAssertionInfo).
func validatorCone(c *Ctx) map[*ssa.Function]bool {
	var roots []*ssa.Function
	for _, n := range []string{ssoSpec.Entry, loRespSpec.Entry, loReqSpec.Entry, "(*SAMLServiceProvider).RetrieveAssertionInfo"} {
		if f := c.fn(n); f != nil {
			roots = append(roots, f)
		}
	}
	out := map[*ssa.Function]bool{}
	for _, f := range moduleCone(c.P, roots) {
		out[f] = true
	}
	return out
}


// touchesParsed: v is (a node of) the tree parseResponse returned — reached without going through a copy.
func touchesParsed(v Val, depth int) bool {
	if v == nil || depth > 8 {
		return false
	}
	switch x := stripIface(v).(type) {
	case *CallV:
		sn := shortName(x.Callee)
		if sn == "parseResponse" {
			return true
		}
		if strings.HasSuffix(sn, ").Copy") || sn == "etreeutils.NSDetatch" || sn == "etree.NewDocument" || sn == "etree.NewElement" {
			return false
		}
		for _, a := range x.Args {
			if touchesParsed(a, depth+1) {
				return true
			}
		}
	case *FieldV:
		return touchesParsed(x.X, depth+1)
	case *IndexV:
		return touchesParsed(x.X, depth+1)
	case *LoadV:
		return touchesParsed(x.Addr, depth+1)
	case *FieldAddrV:
		return touchesParsed(x.X, depth+1)
	case *IndexAddrV:
		return touchesParsed(x.X, depth+1)
	case *SliceV:
		return touchesParsed(x.X, depth+1)
	case *IterElemV:
		return touchesParsed(x.Root, depth+1)
	case *TupleV:
		for _, e := range x.Vals {
			if touchesParsed(e, depth+1) {
				return true
			}
		}
	}
	return false
}
