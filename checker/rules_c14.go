package main

// C14: HTTP-Redirect URLs — encoding pipeline, query assembly, ordered signature input.

import (
	"fmt"
	"go/token"
	"go/types"
	"strings"
)

type redirSpec struct {
	Fn       string
	Inline   []string
	Endpoint string
	SignWhen []string
}

const redirectBinding = `"urn:oasis:names:tc:SAML:2.0:bindings:HTTP-Redirect"`

var redirSpecs = []redirSpec{
	{"(*SAMLServiceProvider).buildAuthURLFromDocument", []string{"*", "-(*SAMLServiceProvider).SigningContext"}, "SP.IdentityProviderSSOURL", []string{"SP.SignAuthnRequests", "$binding == " + redirectBinding}},
	{"(*SAMLServiceProvider).buildLogoutURLFromDocument", []string{"*", "-(*SAMLServiceProvider).SigningContext"}, "SP.IdentityProviderSLOURL", []string{"$binding == " + redirectBinding}},
}

func findCall(t *Terminal, short string) []*Event {
	var out []*Event
	for _, e := range t.St.events {
		if e.Kind == EvCall && shortName(e.Callee) == short {
			out = append(out, e)
		}
	}
	return out
}

func ruleC14(c *Ctx) {
	c.rule("C14-R1", "escaper agreement: the signing string is assembled only from url.QueryEscape / url.Values.Encode outputs and the literals '=' and '&'; RawQuery is assigned exactly url.Values.Encode(qs) of the query that received the parameters")
	c.rule("C14-R2", "same context: SigAlg names the algorithm of the very context whose SignString signs")
	c.rule("C14-R3", "order: the signing string lists SAMLRequest, [RelayState,] SigAlg in that order; RelayState is added to the URL exactly when non-empty")
	c.rule("C14-R4", "signed values = sent values: each signed value is the value added to (or read back from) the query for that key")
	c.rule("C14-R5", "pipeline: raw DEFLATE writer over a fresh buffer receives exactly the document; Close() is error-checked before the buffer is read; base64.StdEncoding for SAMLRequest and Signature; the query derives from url.Parse(<flow endpoint>).Query() and the function returns parsedURL.String()")
	for _, rs := range redirSpecs {
		res := c.kernel(rs.Fn, rs.Inline...)
		if res == nil {
			continue
		}
		fname := shortFn(res.Root)
		nAcc, nSigned := 0, 0
		for _, t := range res.Terms {
			if !t.accepting(res.Root) {
				continue
			}
			nAcc++
			atoms := t.atoms()
			pos := c.P.InstrPos(t.Instr)
			relay := atoms[`!($relayState == "")`]
			if !relay && !atoms[`$relayState == ""`] {
				c.bad("C14-R3", fname, "RelayState decided by relayState != \"\"", pos, "path does not test relayState")
				continue
			}
			signNow := true
			for _, w := range rs.SignWhen {
				if !atoms[w] {
					signNow = false
				}
			}
			label := fmt.Sprintf("relay=%v signed=%v", relay, signNow)
			// ---- pipeline
			parses := findCall(t, "net/url.Parse")
			if len(parses) != 1 || ap(parses[0].Args[0]) != rs.Endpoint {
				c.bad("C14-R5", fname, "URL parsed from "+rs.Endpoint+" ["+label+"]", pos, "redirect URL is not built from "+rs.Endpoint)
				continue
			}
			u := parses[0].Res[0]
			c.check(len(t.Vals) > 0 && ap(t.Vals[0]) == "(*net/url.URL).String("+ap(u)+")", "C14-R5", fname, "returns parsedURL.String() ["+label+"]", pos, "String() of the parsed endpoint", "returns "+ap(t.Vals[0]))
			nws := findCall(t, "compress/flate.NewWriter")
			if len(nws) != 1 {
				c.bad("C14-R5", fname, "raw DEFLATE writer ["+label+"]", pos, fmt.Sprintf("%d compress/flate.NewWriter calls (zlib/gzip framing or no compression would not inflate at the IdP)", len(nws)))
				continue
			}
			buf := stripIface(nws[0].Args[0])
			_, bufFresh := buf.(*AllocV)
			fw := nws[0].Res[0]
			wrs := findCall(t, "(*compress/flate.Writer).Write")
			cls := findCall(t, "(*compress/flate.Writer).Close")
			docStr := "(*etree.Document).WriteToString($doc)#0"
			okW := len(wrs) == 1 && wrs[0].Args[0].Key() == fw.Key() && (ap(wrs[0].Args[1]) == "[]byte("+docStr+")" || ap(wrs[0].Args[1]) == docStr)
			c.check(okW && bufFresh, "C14-R5", fname, "exactly the document is deflated into a fresh buffer ["+label+"]", pos, "Write([]byte(doc))", "deflate input is not exactly the serialised document")
			okC := false
			if len(cls) == 1 && cls[0].Args[0].Key() == fw.Key() {
				isNil, k := t.eqFact(cls[0].Res[0], nilOf(nil))
				okC = k && isNil
			}
			c.check(okC, "C14-R5", fname, "Close() called and its error checked ["+label+"]", pos, "Close() == nil", "the DEFLATE stream is not closed (or its error ignored) before use: the final block may be missing")
			var b64 Val
			for _, e := range findCall(t, "(*bytes.Buffer).Bytes") {
				if e.Args[0].Key() != buf.Key() {
					continue
				}
				c.check(len(cls) == 1 && e.Seq > cls[0].Seq, "C14-R5", fname, "buffer read only after Close ["+label+"]", c.P.InstrPos(e.Instr), "after Close", "compressed bytes are read before the DEFLATE writer is closed")
			}
			wantB64 := "(*encoding/base64.Encoding).EncodeToString(encoding/base64.StdEncoding, (*bytes.Buffer).Bytes(" + ap(buf) + "))"
			// ---- query assembly
			qss := findCall(t, "(*net/url.URL).Query")
			if len(qss) != 1 || qss[0].Args[0].Key() != u.Key() {
				c.bad("C14-R5", fname, "query derives from the parsed endpoint ["+label+"]", pos, "query values do not come from parsedURL.Query(): existing IdP parameters are lost")
				continue
			}
			qs := qss[0].Res[0]
			adds := map[string]*Event{}
			var addOrder []string
			for _, e := range findCall(t, "(net/url.Values).Add") {
				if e.Args[0].Key() != qs.Key() {
					continue
				}
				k, isC := constString(e.Args[1])
				if !isC {
					c.bad("C14-R3", fname, "query key is a constant ["+label+"]", c.P.InstrPos(e.Instr), "non-constant query key "+ap(e.Args[1]))
					continue
				}
				if adds[k] != nil {
					c.bad("C14-R3", fname, "query key "+k+" added once ["+label+"]", c.P.InstrPos(e.Instr), "parameter "+k+" added twice")
				}
				adds[k] = e
				addOrder = append(addOrder, k)
			}
			if a := adds["SAMLRequest"]; a != nil {
				b64 = a.Args[2]
				c.check(ap(b64) == wantB64, "C14-R5", fname, "SAMLRequest = base64.StdEncoding(deflated document) ["+label+"]", c.P.InstrPos(a.Instr), wantB64, "SAMLRequest is "+ap(b64))
			} else {
				c.bad("C14-R5", fname, "SAMLRequest parameter present ["+label+"]", pos, "no SAMLRequest parameter is added")
				continue
			}
			if relay {
				a := adds["RelayState"]
				c.check(a != nil && ap(a.Args[2]) == "$relayState", "C14-R3", fname, "RelayState added with the given value ["+label+"]", pos, "$relayState", "RelayState parameter missing or altered on the non-empty path")
			} else {
				c.check(adds["RelayState"] == nil, "C14-R3", fname, "RelayState omitted when empty ["+label+"]", pos, "absent", "RelayState parameter added although the relay state is empty")
			}
			// RawQuery
			var rq *Event
			for _, e := range t.stores() {
				if fa, ok := e.Addr.(*FieldAddrV); ok && fa.Name == "RawQuery" && fa.X.Key() == u.Key() {
					rq = e
				}
			}
			okRQ := false
			if rq != nil {
				if cv, ok := rq.Val.(*CallV); ok && shortName(cv.Callee) == "(net/url.Values).Encode" && cv.Args[0].Key() == qs.Key() {
					okRQ = true
					for _, a := range adds {
						if a.Seq > rq.Seq {
							okRQ = false
						}
					}
				}
			}
			got := "<never assigned>"
			if rq != nil {
				got = ap(rq.Val)
			}
			c.check(okRQ, "C14-R1", fname, "RawQuery = qs.Encode() after all parameters ["+label+"]", pos, "url.Values.Encode", "RawQuery is "+got+": the octets sent are not url.Values.Encode of the assembled query (the signature is computed over QueryEscape output)")
			// ---- signing
			signs := findCall(t, "(*dsig.SigningContext).SignString")
			if !signNow {
				c.check(len(signs) == 0 && adds["Signature"] == nil && adds["SigAlg"] == nil, "C14-R2", fname, "no signature parameters when signing does not apply ["+label+"]", pos, "absent", "Signature / SigAlg emitted on a path where signing does not apply")
				continue
			}
			nSigned++
			if len(signs) != 1 {
				c.bad("C14-R2", fname, "query signed once ["+label+"]", pos, fmt.Sprintf("%d SignString calls on a signing path", len(signs)))
				continue
			}
			sg := signs[0]
			ctx := sg.Args[0]
			c.check(ap(ctx) == "(*SAMLServiceProvider).SigningContext(SP)", "C14-R2", fname, "signing context from sp.SigningContext() ["+label+"]", c.P.InstrPos(sg.Instr), ap(ctx), "query signed with "+ap(ctx))
			sigAlg := "(*dsig.SigningContext).GetSignatureMethodIdentifier(" + ap(ctx) + ")"
			if a := adds["SigAlg"]; a != nil {
				c.check(ap(a.Args[2]) == sigAlg && stripSite(a.Args[2]) == stripSite2(ctx, a.Args[2]), "C14-R2", fname, "SigAlg names the signing context's algorithm ["+label+"]", c.P.InstrPos(a.Instr), sigAlg, "SigAlg is "+ap(a.Args[2])+", not the identifier of the context that signs")
			} else {
				c.bad("C14-R2", fname, "SigAlg parameter present ["+label+"]", pos, "signed URL lacks SigAlg")
			}
			if a := adds["Signature"]; a != nil {
				want := "(*encoding/base64.Encoding).EncodeToString(encoding/base64.StdEncoding, " + ap(sg.Res[0]) + ")"
				c.check(ap(a.Args[2]) == want, "C14-R5", fname, "Signature = base64.StdEncoding(raw signature) ["+label+"]", c.P.InstrPos(a.Instr), want, "Signature is "+ap(a.Args[2]))
				sOK, k := t.eqFact(sg.Res[1], nilOf(nil))
				c.check(k && sOK, "C14-R2", fname, "signing error checked ["+label+"]", pos, "err == nil", "Signature emitted although SignString's error is not known nil")
			} else {
				c.bad("C14-R2", fname, "Signature parameter present ["+label+"]", pos, "signed URL lacks Signature")
			}
			// signing string
			sent := map[string]string{"SAMLRequest": ap(b64), "SigAlg": sigAlg}
			if adds["RelayState"] != nil {
				sent["RelayState"] = ap(adds["RelayState"].Args[2])
			}
			checkSigningString(c, t, fname, label, sg, qs, sent, relay)
		}
		c.count("C14/accepting "+fname, nAcc)
		c.floor("C14/accepting "+fname, 3)
		c.count("C14/signed "+fname, nSigned)
		c.floor("C14/signed "+fname, 2)
	}
}

func stripSite(v Val) string { return ap(v) }
func stripSite2(ctx, v Val) string {
	// the identifier must be taken from the same context value (same call result), not merely an equal expression
	if cv, ok := v.(*CallV); ok && len(cv.Args) == 1 && cv.Args[0].Key() == ctx.Key() {
		return ap(v)
	}
	return "<different context value>"
}

// checkSigningString recognises the two assembly idioms of the tree:
//   (A) signatureInputString: ordered [][2]string literal, loop writing QueryEscape(k)+"="+QueryEscape(v) joined by '&'
//   (B) ordered key slice + map: loop appending url.Values{k: v}.Encode() joined by "&"
func checkSigningString(c *Ctx, t *Terminal, fname, label string, sg *Event, qs Val, sent map[string]string, relay bool) {
	pos := c.P.InstrPos(sg.Instr)
	s := sg.Args[1]
	wantKeys := []string{"SAMLRequest", "SigAlg"}
	// (A)
	if cv, ok := s.(*CallV); ok && shortName(cv.Callee) == "(*bytes.Buffer).String" {
		sb := cv.Args[0]
		// params literal: stores to a local array [i][0] / [i][1]
		type kv struct{ k, v string }
		params := map[int64]*kv{}
		var arr Val
		for _, e := range t.stores() {
			outer, ok := e.Addr.(*IndexAddrV)
			if !ok {
				continue
			}
			inner, ok := outer.X.(*IndexAddrV)
			if !ok {
				continue
			}
			i, ok1 := constInt(inner.I)
			j, ok2 := constInt(outer.I)
			if !ok1 || !ok2 {
				continue
			}
			arr = inner.X
			_ = arr
			if params[i] == nil {
				params[i] = &kv{}
			}
			if j == 0 {
				params[i].k = ap(e.Val)
			} else {
				params[i].v = ap(e.Val)
			}
		}
		var keys []string
		okVals := true
		for i := int64(0); i < int64(len(params)); i++ {
			p := params[i]
			if p == nil {
				okVals = false
				break
			}
			k := strings.Trim(p.k, `"`)
			keys = append(keys, k)
			// signed value = Get(qs, k) or the very value sent
			getForm := "(net/url.Values).Get(" + ap(qs) + ", " + p.k + ")"
			if p.v != getForm && p.v != sent[k] {
				okVals = false
				c.bad("C14-R4", fname, "signed value of "+k+" is the value sent ["+label+"]", pos, "signing string covers "+p.v+" for "+k+", but the URL carries "+sent[k])
			}
		}
		hasRelay := false
		for _, k := range keys {
			if k == "RelayState" {
				hasRelay = true
			}
		}
		if hasRelay {
			wantKeys = []string{"SAMLRequest", "RelayState", "SigAlg"}
		}
		c.check(strings.Join(keys, ",") == strings.Join(wantKeys, ","), "C14-R3", fname, "signing string order ["+label+"]", pos, strings.Join(wantKeys, ", "), "signing string lists "+strings.Join(keys, ", ")+", want "+strings.Join(wantKeys, ", "))
		getRelayEmpty := t.atoms()["(net/url.Values).Get("+ap(qs)+", \"RelayState\") == \"\""]
		getRelayNonEmpty := t.atoms()["!((net/url.Values).Get("+ap(qs)+", \"RelayState\") == \"\")"]
		if (relay && getRelayEmpty) || (!relay && getRelayNonEmpty) {
			// infeasible under the stated assumption that the endpoint's own query carries no RelayState parameter:
			// Get(qs, "RelayState") is then exactly the value added above
			c.Assume["the configured IdP endpoint URL does not itself carry SAMLRequest / RelayState / SigAlg / Signature parameters (url.Values.Get then returns exactly the value this code added)"] = true
			return
		}
		if relay && !hasRelay {
			c.bad("C14-R3", fname, "RelayState signed when present ["+label+"]", pos, "a non-empty relay state is sent but not covered by the signature")
		}
		if okVals {
			c.ok("C14-R4", fname, "signed values are the values sent ["+label+"]", pos, "Get(qs, key) / same value")
		}
		// writer loop: per generic iteration the buffer receives [ "&" unless first ] QueryEscape(k) "=" QueryEscape(v)
		// (in one or several writes), over the whole ordered table
		var parts []string
		sep := false
		var flatten func(v Val) []Val
		flatten = func(v Val) []Val {
			if b, ok := v.(*BinV); ok && b.Op == token.ADD {
				return append(flatten(b.X), flatten(b.Y)...)
			}
			return []Val{v}
		}
		piece := func(v Val) string {
			if cv, ok := v.(*CallV); ok && cv.Callee == "net/url.QueryEscape" {
				return "QE(" + ap(cv.Args[0]) + ")"
			}
			return ap(v)
		}
		okWriters := true
		for _, e := range t.St.events {
			if e.Kind != EvCall || len(e.Args) == 0 || e.Args[0].Key() != sb.Key() {
				continue
			}
			switch shortName(e.Callee) {
			case "(*bytes.Buffer).WriteString":
				for _, f := range flatten(e.Args[1]) {
					if s, ok := constString(f); ok && s == "&" && len(parts) == 0 {
						sep = true
						continue
					}
					parts = append(parts, piece(f))
				}
			case "(*bytes.Buffer).WriteByte", "(*bytes.Buffer).WriteRune":
				switch ap(e.Args[1]) {
				case "38":
					if len(parts) == 0 {
						sep = true
					} else {
						parts = append(parts, `"&"`)
					}
				case "61":
					parts = append(parts, `"="`)
				default:
					parts = append(parts, "byte:"+ap(e.Args[1]))
				}
			case "(*bytes.Buffer).Len", "(*bytes.Buffer).String":
			default:
				okWriters = false
				c.bad("C14-R1", fname, "signing buffer writer "+shortName(e.Callee)+" ["+label+"]", c.P.InstrPos(e.Instr), "unexpected writer to the signing string buffer")
			}
		}
		good := okWriters && len(parts) == 3 && strings.HasPrefix(parts[0], "QE(") && strings.HasSuffix(parts[0], "[*][0])") && parts[1] == `"="` &&
			strings.HasPrefix(parts[2], "QE(") && strings.HasSuffix(parts[2], "[*][1])") && strings.TrimSuffix(parts[0], "[0])") == strings.TrimSuffix(parts[2], "[1])")
		a := t.atoms()
		exhausted, through := false, false
		for k := range a {
			if strings.HasPrefix(k, "!(((i* + 1) + 1) < ") || strings.HasPrefix(k, "!((i* + 1) < ") {
				exhausted = true
			}
			if strings.HasPrefix(k, "(i* + 1) < ") || strings.HasPrefix(k, "i* < ") {
				through = true
			}
		}
		if !through {
			c.bad("C14-R1", fname, "signing string written by a loop over the ordered table ["+label+"]", pos, "no generic iteration over the parameter table on this path")
			return
		}
		c.check(good && exhausted, "C14-R1", fname, "signing string = QueryEscape(k)=QueryEscape(v) pairs over the whole ordered table ["+label+"]", pos, strings.Join(parts, " "),
			"per iteration the signing buffer receives ["+strings.Join(parts, " ")+"], want [QE(key) \"=\" QE(value)] over the whole ordered table")
		// separator: written exactly when this is not the first pair (buffer non-empty / index > 0)
		notFirst, first := false, false
		for k := range a {
			if strings.HasPrefix(k, "0 < (*bytes.Buffer).Len(") || k == "0 < i*" || k == "0 < (i* + 1)" {
				notFirst = true
			}
			if strings.HasPrefix(k, "!(0 < (*bytes.Buffer).Len(") || k == "!(0 < i*)" || k == "!(0 < (i* + 1))" {
				first = true
			}
		}
		switch {
		case notFirst:
			c.check(sep, "C14-R1", fname, "pairs joined by '&' ["+label+"]", pos, "& written when this is not the first pair", "pairs are not joined by '&'")
		case first:
			c.check(!sep, "C14-R1", fname, "no leading '&' ["+label+"]", pos, "first pair has no separator", "a separator is written before the first pair")
		default:
			c.bad("C14-R1", fname, "separator decided by position ["+label+"]", pos, "the '&' separator is not conditional on the pair being the first one")
		}
		return
	}
	// (B)
	var order []string
	for _, e := range t.stores() {
		if ia, ok := e.Addr.(*IndexAddrV); ok {
			if a, ok := ia.X.(*AllocV); ok && a.Comment == "slicelit" {
				if k, ok := constString(e.Val); ok {
					if i, ok := constInt(ia.I); ok && int(i) == len(order) {
						order = append(order, k)
					}
				}
			}
		}
	}
	mp := map[string]string{}
	for _, e := range t.St.events {
		if e.Kind == EvMapUpdate && e.Val != nil {
			if k, ok := constString(e.I); ok {
				mp[k] = ap(e.Val)
			}
		}
	}
	want := []string{"SAMLRequest", "RelayState", "SigAlg"}
	c.check(strings.Join(order, ",") == strings.Join(want, ","), "C14-R3", fname, "ordered key table ["+label+"]", pos, strings.Join(want, ", "), "ordered parameter table is "+strings.Join(order, ", "))
	for _, k := range []string{"SAMLRequest", "SigAlg"} {
		c.check(mp[k] == sent[k], "C14-R4", fname, "signed value of "+k+" is the value sent ["+label+"]", pos, sent[k], "signing string covers "+mp[k]+" for "+k+", but the URL carries "+sent[k])
	}
	if relay {
		c.check(mp["RelayState"] == sent["RelayState"] && sent["RelayState"] != "", "C14-R4", fname, "signed value of RelayState is the value sent ["+label+"]", pos, sent["RelayState"], "signing string covers "+mp["RelayState"]+" for RelayState, but the URL carries "+sent["RelayState"])
	} else {
		_, has := mp["RelayState"]
		c.check(!has, "C14-R3", fname, "RelayState not signed when empty ["+label+"]", pos, "absent", "an empty RelayState is covered by the signature but not sent")
	}
	// the string signed is the loop-carried accumulator (or its value after the generic iteration)
	sa := ap(s)
	okAcc := false
	switch x := s.(type) {
	case *LoopPhiV:
		okAcc = true
	case *BinV:
		okAcc = strings.Contains(sa, "(net/url.Values).Encode(") && strings.Contains(sa, `"&"`)
		_ = x
	case *CallV:
		okAcc = shortName(x.Callee) == "(net/url.Values).Encode"
	}
	c.check(okAcc, "C14-R1", fname, "signed string is the ordered accumulation ["+label+"]", pos, sa, "SignString receives "+sa+", not the accumulated ordered pairs")
	// generic iteration: e = Values{k: map[k]}.Encode(), joined with "&"
	nIter := 0
	for _, e := range t.St.events {
		if e.Kind != EvCall || shortName(e.Callee) != "(net/url.Values).Add" || e.Args[0].Key() == qs.Key() {
			continue
		}
		nIter++
		k, v := ap(e.Args[1]), ap(e.Args[2])
		good := strings.HasSuffix(k, "[*]")
		if iv, ok := e.Args[2].(*IndexV); ok {
			_, isMap := iv.X.Type().Underlying().(*types.Map)
			good = good && isMap && iv.I.Key() == e.Args[1].Key()
		} else {
			good = false
		}
		_, fresh := e.Args[0].(*AllocV)
		c.check(good && fresh, "C14-R1", fname, "pair encoded as url.Values{k: table[k]}.Encode() ["+label+"]", c.P.InstrPos(e.Instr), k+" => "+v, "signing fragment encodes "+k+" => "+v+" (want the ordered key and its value from the parameter table, in a fresh url.Values)")
	}
	_ = types.Typ
}
