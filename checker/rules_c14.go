package main

// C14: HTTP-Redirect URLs — encoding pipeline, query assembly, ordered signature input.

import (
	"fmt"
	"go/constant"
	"go/token"
	"go/types"
	"strings"
)

func constantString(s string) constant.Value { return constant.MakeString(s) }

type redirSpec struct {
	Fn       string
	Inline   []string
	Endpoint string
	SignWhen []string
}

const redirectBinding = `"urn:oasis:names:tc:SAML:2.0:bindings:HTTP-Redirect"`

var redirSpecs = []redirSpec{
	{"(*SAMLServiceProvider).buildAuthURLFromDocument", []string{"*", "-(*SAMLServiceProvider).SigningContext"}, "SP.IdentityProviderSSOURL", []string{"SP.SignAuthnRequests", "$binding == " + redirectBinding}},
	{"(*SAMLServiceProvider).buildLogoutURLFromDocument", []string{"*", "-(*SAMLServiceProvider).SigningContext"}, "SP.IdentityProviderSLOURL", []string{"$binding == " + redirectBinding}},
}

func findCall(t *Terminal, short string) []*Event {
	var out []*Event
	for _, e := range t.St.events {
		if e.Kind == EvCall && shortName(e.Callee) == short {
			out = append(out, e)
		}
	}
	return out
}

func ruleC14(c *Ctx) {
	c.rule("C14-R1", "escaper agreement: the signing string is assembled only from url.QueryEscape / url.Values.Encode outputs and the literals '=' and '&'; RawQuery is assigned exactly url.Values.Encode(qs) of the query that received the parameters")
	c.rule("C14-R2", "same context: SigAlg names the algorithm of the very context whose SignString signs")
	c.rule("C14-R3", "order: the signing string lists SAMLRequest, [RelayState,] SigAlg in that order; RelayState is added to the URL exactly when non-empty")
	c.rule("C14-R4", "signed values = sent values: each signed value is the value added to (or read back from) the query for that key")
	c.rule("C14-R5", "pipeline: raw DEFLATE writer over a fresh buffer receives exactly the document; Close() is error-checked before the buffer is read; base64.StdEncoding for SAMLRequest and Signature; the query derives from url.Parse(<flow endpoint>).Query() and the function returns parsedURL.String()")
	for _, rs := range redirSpecs {
		res := c.kernel(rs.Fn, rs.Inline...)
		if res == nil {
			continue
		}
		fname := shortFn(res.Root)
		nAcc, nSigned := 0, 0
		for _, t := range res.Terms {
			if !t.accepting(res.Root) {
				continue
			}
			nAcc++
			atoms := t.atoms()
			pos := c.P.InstrPos(t.Instr)
			relay := atoms[`!($relayState == "")`]
			if !relay && !atoms[`$relayState == ""`] {
				c.bad("C14-R3", fname, "RelayState decided by relayState != \"\"", pos, "path does not test relayState")
				continue
			}
			signNow := true
			for _, w := range rs.SignWhen {
				if !atoms[w] {
					signNow = false
				}
			}
			label := fmt.Sprintf("relay=%v signed=%v", relay, signNow)
			// ---- pipeline
			parses := findCall(t, "net/url.Parse")
			if len(parses) != 1 || ap(parses[0].Args[0]) != rs.Endpoint {
				c.bad("C14-R5", fname, "URL parsed from "+rs.Endpoint+" ["+label+"]", pos, "redirect URL is not built from "+rs.Endpoint)
				continue
			}
			u := parses[0].Res[0]
			c.check(len(t.Vals) > 0 && ap(t.Vals[0]) == "(*net/url.URL).String("+ap(u)+")", "C14-R5", fname, "returns parsedURL.String() ["+label+"]", pos, "String() of the parsed endpoint", "returns "+ap(t.Vals[0]))
			nws := findCall(t, "compress/flate.NewWriter")
			if len(nws) != 1 {
				c.bad("C14-R5", fname, "raw DEFLATE writer ["+label+"]", pos, fmt.Sprintf("%d compress/flate.NewWriter calls (zlib/gzip framing or no compression would not inflate at the IdP)", len(nws)))
				continue
			}
			buf := stripIface(nws[0].Args[0])
			_, bufFresh := buf.(*AllocV)
			fw := nws[0].Res[0]
			wrs := findCall(t, "(*compress/flate.Writer).Write")
			cls := findCall(t, "(*compress/flate.Writer).Close")
			docStr := "(*etree.Document).WriteToString($doc)#0"
			okW := len(wrs) == 1 && wrs[0].Args[0].Key() == fw.Key() && (ap(wrs[0].Args[1]) == "[]byte("+docStr+")" || ap(wrs[0].Args[1]) == docStr)
			c.check(okW && bufFresh, "C14-R5", fname, "exactly the document is deflated into a fresh buffer ["+label+"]", pos, "Write([]byte(doc))", "deflate input is not exactly the serialised document")
			okC := false
			if len(cls) == 1 && cls[0].Args[0].Key() == fw.Key() {
				isNil, k := t.eqFact(cls[0].Res[0], nilOf(nil))
				okC = k && isNil
			}
			c.check(okC, "C14-R5", fname, "Close() called and its error checked ["+label+"]", pos, "Close() == nil", "the DEFLATE stream is not closed (or its error ignored) before use: the final block may be missing")
			var b64 Val
			for _, e := range findCall(t, "(*bytes.Buffer).Bytes") {
				if e.Args[0].Key() != buf.Key() {
					continue
				}
				c.check(len(cls) == 1 && e.Seq > cls[0].Seq, "C14-R5", fname, "buffer read only after Close ["+label+"]", c.P.InstrPos(e.Instr), "after Close", "compressed bytes are read before the DEFLATE writer is closed")
			}
			wantB64 := "(*encoding/base64.Encoding).EncodeToString(encoding/base64.StdEncoding, (*bytes.Buffer).Bytes(" + ap(buf) + "))"
			// ---- query assembly
			qss := findCall(t, "(*net/url.URL).Query")
			if len(qss) != 1 || qss[0].Args[0].Key() != u.Key() {
				c.bad("C14-R5", fname, "query derives from the parsed endpoint ["+label+"]", pos, "query values do not come from parsedURL.Query(): existing IdP parameters are lost")
				continue
			}
			qs := qss[0].Res[0]
			adds := map[string]*Event{}
			var addOrder []string
			for _, e := range findCall(t, "(net/url.Values).Add") {
				if e.Args[0].Key() != qs.Key() {
					continue
				}
				k, isC := constString(e.Args[1])
				if !isC {
					c.bad("C14-R3", fname, "query key is a constant ["+label+"]", c.P.InstrPos(e.Instr), "non-constant query key "+ap(e.Args[1]))
					continue
				}
				if adds[k] != nil {
					c.bad("C14-R3", fname, "query key "+k+" added once ["+label+"]", c.P.InstrPos(e.Instr), "parameter "+k+" added twice")
				}
				adds[k] = e
				addOrder = append(addOrder, k)
			}
			if a := adds["SAMLRequest"]; a != nil {
				b64 = a.Args[2]
				c.check(ap(b64) == wantB64, "C14-R5", fname, "SAMLRequest = base64.StdEncoding(deflated document) ["+label+"]", c.P.InstrPos(a.Instr), wantB64, "SAMLRequest is "+ap(b64))
			} else {
				c.bad("C14-R5", fname, "SAMLRequest parameter present ["+label+"]", pos, "no SAMLRequest parameter is added")
				continue
			}
			if relay {
				a := adds["RelayState"]
				c.check(a != nil && ap(a.Args[2]) == "$relayState", "C14-R3", fname, "RelayState added with the given value ["+label+"]", pos, "$relayState", "RelayState parameter missing or altered on the non-empty path")
			} else {
				c.check(adds["RelayState"] == nil, "C14-R3", fname, "RelayState omitted when empty ["+label+"]", pos, "absent", "RelayState parameter added although the relay state is empty")
			}
			// RawQuery
			var rq *Event
			for _, e := range t.stores() {
				if fa, ok := e.Addr.(*FieldAddrV); ok && fa.Name == "RawQuery" && fa.X.Key() == u.Key() {
					rq = e
				}
			}
			okRQ := false
			if rq != nil {
				if cv, ok := rq.Val.(*CallV); ok && shortName(cv.Callee) == "(net/url.Values).Encode" && cv.Args[0].Key() == qs.Key() {
					okRQ = true
					for _, a := range adds {
						if a.Seq > rq.Seq {
							okRQ = false
						}
					}
				}
			}
			got := "<never assigned>"
			if rq != nil {
				got = ap(rq.Val)
			}
			c.check(okRQ, "C14-R1", fname, "RawQuery = qs.Encode() after all parameters ["+label+"]", pos, "url.Values.Encode", "RawQuery is "+got+": the octets sent are not url.Values.Encode of the assembled query (the signature is computed over QueryEscape output)")
			// ---- signing
			signs := findCall(t, "(*dsig.SigningContext).SignString")
			if !signNow {
				c.check(len(signs) == 0 && adds["Signature"] == nil && adds["SigAlg"] == nil, "C14-R2", fname, "no signature parameters when signing does not apply ["+label+"]", pos, "absent", "Signature / SigAlg emitted on a path where signing does not apply")
				continue
			}
			nSigned++
			if len(signs) != 1 {
				c.bad("C14-R2", fname, "query signed once ["+label+"]", pos, fmt.Sprintf("%d SignString calls on a signing path", len(signs)))
				continue
			}
			sg := signs[0]
			ctx := sg.Args[0]
			c.check(ap(ctx) == "(*SAMLServiceProvider).SigningContext(SP)", "C14-R2", fname, "signing context from sp.SigningContext() ["+label+"]", c.P.InstrPos(sg.Instr), ap(ctx), "query signed with "+ap(ctx))
			sigAlg := "(*dsig.SigningContext).GetSignatureMethodIdentifier(" + ap(ctx) + ")"
			if a := adds["SigAlg"]; a != nil {
				c.check(ap(a.Args[2]) == sigAlg && stripSite(a.Args[2]) == stripSite2(ctx, a.Args[2]), "C14-R2", fname, "SigAlg names the signing context's algorithm ["+label+"]", c.P.InstrPos(a.Instr), sigAlg, "SigAlg is "+ap(a.Args[2])+", not the identifier of the context that signs")
			} else {
				c.bad("C14-R2", fname, "SigAlg parameter present ["+label+"]", pos, "signed URL lacks SigAlg")
			}
			if a := adds["Signature"]; a != nil {
				want := "(*encoding/base64.Encoding).EncodeToString(encoding/base64.StdEncoding, " + ap(sg.Res[0]) + ")"
				c.check(ap(a.Args[2]) == want, "C14-R5", fname, "Signature = base64.StdEncoding(raw signature) ["+label+"]", c.P.InstrPos(a.Instr), want, "Signature is "+ap(a.Args[2]))
				sOK, k := t.eqFact(sg.Res[1], nilOf(nil))
				c.check(k && sOK, "C14-R2", fname, "signing error checked ["+label+"]", pos, "err == nil", "Signature emitted although SignString's error is not known nil")
			} else {
				c.bad("C14-R2", fname, "Signature parameter present ["+label+"]", pos, "signed URL lacks Signature")
			}
			// signing string
			sent := map[string]string{"SAMLRequest": ap(b64), "SigAlg": sigAlg}
			if adds["RelayState"] != nil {
				sent["RelayState"] = ap(adds["RelayState"].Args[2])
			}
			checkSigningString(c, t, fname, label, sg, qs, sent, relay)
		}
		c.count("C14/accepting "+fname, nAcc)
		c.floor("C14/accepting "+fname, 3)
		c.count("C14/signed "+fname, nSigned)
		c.floor("C14/signed "+fname, 2)
	}
}

func stripSite(v Val) string { return ap(v) }
func stripSite2(ctx, v Val) string {
	// the identifier must be taken from the same context value (same call result), not merely an equal expression
	if cv, ok := v.(*CallV); ok && len(cv.Args) == 1 && cv.Args[0].Key() == ctx.Key() {
		return ap(v)
	}
	return "<different context value>"
}

// checkSigningString normalises the string handed to SignString into a list of (key, value, escaper) pairs joined by
// "&" — whether it was assembled through a bytes.Buffer (QueryEscape(k) "=" QueryEscape(v) writes) or by
// concatenating url.Values{k: v}.Encode() fragments; loops over literal tables are executed as written by the
// engine — and compares it with the parameters actually sent.
func checkSigningString(c *Ctx, t *Terminal, fname, label string, sg *Event, qs Val, sent map[string]string, relay bool) {
	pos := c.P.InstrPos(sg.Instr)
	atoms := t.atoms()
	// infeasible under documented assumptions: url.Values.Encode of a non-empty Values is non-empty; the endpoint's own
	// query carries no RelayState (Get then returns exactly what was added)
	for a := range atoms {
		if strings.HasPrefix(a, "(net/url.Values).Encode(") && strings.HasSuffix(a, `) == ""`) {
			c.Assume["url.Values.Encode of a Values holding a parameter is never the empty string"] = true
			return
		}
	}
	getRelayEmpty := atoms["(net/url.Values).Get("+ap(qs)+", \"RelayState\") == \"\""]
	getRelayNonEmpty := atoms["!((net/url.Values).Get("+ap(qs)+", \"RelayState\") == \"\")"]
	if (relay && getRelayEmpty) || (!relay && getRelayNonEmpty) {
		c.Assume["the configured IdP endpoint URL does not itself carry SAMLRequest / RelayState / SigAlg / Signature parameters (url.Values.Get then returns exactly the value this code added)"] = true
		return
	}
	// infeasible: bytes.Buffer.Len() > 0 is true exactly after something was written to that buffer
	for _, f := range t.St.facts {
		b, ok := f.Cond.(*BinV)
		if !ok || b.Op != token.LSS || !isConstInt(b.X, 0) {
			continue
		}
		lc, ok := b.Y.(*CallV)
		if !ok || shortName(lc.Callee) != "(*bytes.Buffer).Len" {
			continue
		}
		written := false
		for _, e := range t.St.events {
			if e.Kind == EvCall && e.Seq < f.Seq && len(e.Args) > 0 && e.Args[0].Key() == lc.Args[0].Key() && strings.HasPrefix(shortName(e.Callee), "(*bytes.Buffer).Write") {
				written = true
			}
		}
		if written != f.Pol {
			c.Assume["bytes.Buffer.Len() is positive exactly after a Write* on that buffer"] = true
			return
		}
	}
	var flatten func(v Val) []Val
	flatten = func(v Val) []Val {
		if b, ok := v.(*BinV); ok && b.Op == token.ADD {
			return append(flatten(b.X), flatten(b.Y)...)
		}
		return []Val{v}
	}
	// tokens of the signed string
	var toks []Val
	s := sg.Args[1]
	if cv, ok := s.(*CallV); ok && shortName(cv.Callee) == "(*bytes.Buffer).String" {
		sb := cv.Args[0]
		for _, e := range t.St.events {
			if e.Kind != EvCall || len(e.Args) == 0 || e.Args[0].Key() != sb.Key() || e.Seq > sg.Seq {
				continue
			}
			switch shortName(e.Callee) {
			case "(*bytes.Buffer).WriteString":
				toks = append(toks, flatten(e.Args[1])...)
			case "(*bytes.Buffer).WriteByte", "(*bytes.Buffer).WriteRune":
				if k, ok := constInt(e.Args[1]); ok && k > 0 && k < 128 {
					toks = append(toks, constOf(constantString(string(rune(k))), types.Typ[types.String]))
				} else {
					toks = append(toks, e.Args[1])
				}
			case "(*bytes.Buffer).Len", "(*bytes.Buffer).String":
			default:
				c.bad("C14-R1", fname, "signing buffer writer "+shortName(e.Callee)+" ["+label+"]", c.P.InstrPos(e.Instr), "unexpected writer to the signing string buffer")
				return
			}
		}
	} else {
		toks = flatten(s)
	}
	// merge adjacent constant strings and split them at '&' / '='
	type pair struct{ k, v, esc string }
	var pairs []pair
	i := 0
	bad := func(why string) {
		var ts []string
		for _, x := range toks {
			ts = append(ts, ap(x))
		}
		c.undecided("C14-R1", fname, "signing string shape ["+label+"]", pos, why+"; tokens: "+strings.Join(ts, " "))
	}
	constTok := func(j int) (string, bool) {
		if j >= len(toks) {
			return "", false
		}
		return constString(toks[j])
	}
	for i < len(toks) {
		if len(pairs) > 0 {
			if sep, ok := constTok(i); !ok || sep != "&" {
				bad("pairs are not joined by a literal '&'")
				return
			}
			i++
		}
		if i >= len(toks) {
			bad("dangling separator")
			return
		}
		switch x := toks[i].(type) {
		case *CallV:
			switch shortName(x.Callee) {
			case "net/url.QueryEscape":
				k, ok := constString(x.Args[0])
				eq, ok2 := constTok(i + 1)
				var vq *CallV
				if i+2 < len(toks) {
					vq, _ = toks[i+2].(*CallV)
				}
				if !ok || !ok2 || eq != "=" || vq == nil || shortName(vq.Callee) != "net/url.QueryEscape" {
					bad("expected QueryEscape(key) \"=\" QueryEscape(value)")
					return
				}
				pairs = append(pairs, pair{k, ap(vq.Args[0]), "QueryEscape"})
				i += 3
			case "(net/url.Values).Encode":
				u := x.Args[0]
				var adds []*Event
				for _, e := range t.St.events {
					if e.Kind == EvCall && shortName(e.Callee) == "(net/url.Values).Add" && e.Args[0].Key() == u.Key() && e.Seq < sg.Seq {
						adds = append(adds, e)
					}
				}
				_, fresh := u.(*AllocV)
				if len(adds) != 1 || !fresh {
					bad("an Encode() fragment does not come from a fresh url.Values holding exactly one parameter")
					return
				}
				k, ok := constString(adds[0].Args[1])
				if !ok {
					bad("fragment key is not a constant")
					return
				}
				pairs = append(pairs, pair{k, ap(adds[0].Args[2]), "Values.Encode"})
				i++
			default:
				bad("unexpected fragment " + ap(x))
				return
			}
		default:
			bad("unexpected fragment " + ap(toks[i]))
			return
		}
	}
	var keys []string
	hasRelay := false
	for _, p := range pairs {
		keys = append(keys, p.k)
		hasRelay = hasRelay || p.k == "RelayState"
	}
	want := []string{"SAMLRequest", "SigAlg"}
	if hasRelay {
		want = []string{"SAMLRequest", "RelayState", "SigAlg"}
	}
	c.check(strings.Join(keys, ",") == strings.Join(want, ","), "C14-R3", fname, "signing string order ["+label+"]", pos, strings.Join(want, ", "), "signing string lists "+strings.Join(keys, ", ")+", want "+strings.Join(want, ", "))
	c.check(hasRelay == relay, "C14-R3", fname, "RelayState signed exactly when sent ["+label+"]", pos, fmt.Sprint(relay), fmt.Sprintf("relay state sent=%v but covered by the signature=%v", relay, hasRelay))
	okVals := true
	for _, p := range pairs {
		getForm := "(net/url.Values).Get(" + ap(qs) + ", \"" + p.k + "\")"
		if p.v != getForm && p.v != sent[p.k] {
			okVals = false
			c.bad("C14-R4", fname, "signed value of "+p.k+" is the value sent ["+label+"]", pos, "signing string covers "+p.v+" for "+p.k+", but the URL carries "+sent[p.k])
		}
	}
	if okVals {
		c.ok("C14-R4", fname, "signed values are the values sent ["+label+"]", pos, "same value / Get(qs, key)")
	}
	esc := map[string]bool{}
	for _, p := range pairs {
		esc[p.esc] = true
	}
	c.ok("C14-R1", fname, "signing string = escaped key=value pairs joined by '&' ["+label+"]", pos, fmt.Sprintf("%d pairs via %v", len(pairs), sortedStrings(esc)))
}
