package main

// C14: HTTP-Redirect URLs — encoding pipeline, query assembly, ordered signature input.

import (
	"fmt"
	"go/constant"
	"go/token"
	"go/types"
	"strings"
)

func constantString(s string) constant.Value { return constant.MakeString(s) }

type redirSpec struct {
	Fn        string // exported entry point (sp, relayState, doc): the binding is a constant of the call, helpers are inlined
	Inline    []string
	Endpoint  string
	SignWhen  []string // atoms that must all hold for signing to apply
	NeverSign bool     // entry point of the POST-binding URL flavour: signature parameters never apply
	MinSigned int
}

var redirSpecs = []redirSpec{
	{"(*SAMLServiceProvider).BuildAuthURLRedirect", []string{"*", "-(*SAMLServiceProvider).SigningContext"}, "SP.IdentityProviderSSOURL", []string{"SP.SignAuthnRequests"}, false, 2},
	{"(*SAMLServiceProvider).BuildAuthURLFromDocument", []string{"*", "-(*SAMLServiceProvider).SigningContext"}, "SP.IdentityProviderSSOURL", nil, true, 0},
	{"(*SAMLServiceProvider).BuildLogoutURLRedirect", []string{"*", "-(*SAMLServiceProvider).SigningContext"}, "SP.IdentityProviderSLOURL", nil, false, 2},
}

func findCall(t *Terminal, short string) []*Event {
	var out []*Event
	for _, e := range t.St.events {
		if e.Kind == EvCall && shortName(e.Callee) == short {
			out = append(out, e)
		}
	}
	return out
}

func ruleC14(c *Ctx) {
	c.rule("C14-R1", "escaper agreement: the signing string is assembled only from url.QueryEscape / url.Values.Encode outputs and the literals '=' and '&'; RawQuery is assigned exactly url.Values.Encode(qs) of the query that received the parameters")
	c.rule("C14-R2", "same context: SigAlg names the algorithm of the very context whose SignString signs")
	c.rule("C14-R3", "order: the signing string lists SAMLRequest, [RelayState,] SigAlg in that order; RelayState is added to the URL exactly when non-empty")
	c.rule("C14-R4", "signed values = sent values: each signed value is the value added to (or read back from) the query for that key")
	c.rule("C14-R6", "configuration setters: SetSPKeyStore / SetSPSigningKeyStore store their argument into their own override field and nothing else (shared with C13-R6, C19-R4) — the key that signs is the key configured for signing")
	setterContract(c, "C14-R6")
	c.rule("C14-R5", "pipeline: raw DEFLATE writer over a fresh buffer receives exactly the document; Close() is error-checked before the buffer is read; base64.StdEncoding for SAMLRequest and Signature; the query derives from url.Parse(<flow endpoint>).Query() and the function returns parsedURL.String()")
	for _, rs := range redirSpecs {
		res := c.kernel(rs.Fn, rs.Inline...)
		if res == nil {
			continue
		}
		fname := shortFn(res.Root)
		nAcc, nSigned := 0, 0
		if len(res.Root.Params) != 3 {
			c.bad("anchor", fname, "UNRESOLVED-ANCHOR", "-", "expected (sp, relayState, doc) parameters")
			continue
		}
		relayP := "$" + res.Root.Params[1].Name()
		docP := "$" + res.Root.Params[2].Name()
		for _, t := range res.Terms {
			if !t.accepting(res.Root) {
				continue
			}
			nAcc++
			atoms := t.atoms()
			pos := c.P.InstrPos(t.Instr)
			relay := atoms[`!(`+relayP+` == "")`]
			if !relay && !atoms[relayP+` == ""`] {
				c.bad("C14-R3", fname, "RelayState decided by relayState != \"\"", pos, "path does not test relayState")
				continue
			}
			signNow := !rs.NeverSign
			for _, w := range rs.SignWhen {
				if !atoms[w] {
					signNow = false
				}
			}
			label := fmt.Sprintf("relay=%v signed=%v", relay, signNow)
			// ---- pipeline
			parses := findCall(t, "net/url.Parse")
			if len(parses) != 1 || ap(parses[0].Args[0]) != rs.Endpoint {
				c.bad("C14-R5", fname, "URL parsed from "+rs.Endpoint+" ["+label+"]", pos, "redirect URL is not built from "+rs.Endpoint)
				continue
			}
			u := parses[0].Res[0]
			c.check(len(t.Vals) > 0 && ap(t.Vals[0]) == "(*net/url.URL).String("+ap(u)+")", "C14-R5", fname, "returns parsedURL.String() ["+label+"]", pos, "String() of the parsed endpoint", "returns "+ap(t.Vals[0]))
			nws := findCall(t, "compress/flate.NewWriter")
			if len(nws) != 1 {
				c.bad("C14-R5", fname, "raw DEFLATE writer ["+label+"]", pos, fmt.Sprintf("%d compress/flate.NewWriter calls (zlib/gzip framing or no compression would not inflate at the IdP)", len(nws)))
				continue
			}
			buf := stripIface(nws[0].Args[0])
			// a buffer created by this call and untouched so far: a local, or a field of a local helper struct
			bufFresh, _ := zeroStateAt(t, buf, -1, nws[0].Seq)
			for _, e := range t.St.events {
				if e.Kind == EvCall && e.Seq < nws[0].Seq {
					for _, a := range e.Args {
						if a != nil && stripIface(a).Key() == buf.Key() {
							bufFresh = false // already handed to somebody before the writer was created
						}
					}
				}
			}
			fw := nws[0].Res[0]
			wrs := findCall(t, "(*compress/flate.Writer).Write")
			// io.WriteString(w, s) is w.Write([]byte(s)) for a writer without WriteString (flate.Writer has none)
			for _, e := range findCall(t, "io.WriteString") {
				wrs = append(wrs, &Event{Kind: EvCall, Instr: e.Instr, Callee: e.Callee, Args: []Val{stripIface(e.Args[0]), e.Args[1]}, Res: e.Res, Seq: e.Seq})
			}
			cls := findCall(t, "(*compress/flate.Writer).Close")
			docStr := "(*etree.Document).WriteToString(" + docP + ")#0"
			docBytes := "(*etree.Document).WriteToBytes(" + docP + ")#0" // WriteToString is string(WriteToBytes)
			okW := len(wrs) == 1 && wrs[0].Args[0].Key() == fw.Key() && (ap(wrs[0].Args[1]) == "[]byte("+docStr+")" || ap(wrs[0].Args[1]) == docStr || ap(wrs[0].Args[1]) == docBytes)
			c.check(okW && bufFresh, "C14-R5", fname, "exactly the document is deflated into a fresh buffer ["+label+"]", pos, "Write([]byte(doc))", "deflate input is not exactly the serialised document")
			okC := false
			if len(cls) == 1 && cls[0].Args[0].Key() == fw.Key() {
				isNil, k := t.eqFact(cls[0].Res[0], nilOf(nil))
				okC = k && isNil
			}
			c.check(okC, "C14-R5", fname, "Close() called and its error checked ["+label+"]", pos, "Close() == nil", "the DEFLATE stream is not closed (or its error ignored) before use: the final block may be missing")
			var b64 Val
			for _, e := range findCall(t, "(*bytes.Buffer).Bytes") {
				if e.Args[0].Key() != buf.Key() {
					continue
				}
				c.check(len(cls) == 1 && e.Seq > cls[0].Seq, "C14-R5", fname, "buffer read only after Close ["+label+"]", c.P.InstrPos(e.Instr), "after Close", "compressed bytes are read before the DEFLATE writer is closed")
			}
			// once the stream is closed the buffer is only looked at: every later Bytes() must see the same octets, so nothing
			// may drain (Read, WriteTo, io.Copy from it), reset or extend it between being sent and being signed
			if len(cls) == 1 {
				stable := true
				for _, e := range t.St.events {
					if e.Kind != EvCall || e.Seq <= cls[0].Seq || bufferReadOnly[shortName(e.Callee)] {
						continue
					}
					for _, a := range e.Args {
						if a != nil && stripIface(a).Key() == buf.Key() {
							stable = false
							c.bad("C14-R4", fname, "compressed bytes unchanged between the parameter and the signature ["+label+"]", c.P.InstrPos(e.Instr), shortName(e.Callee)+" is handed the buffer of the closed DEFLATE stream: what a later Bytes() returns (the octets that are signed) is no longer what was sent")
						}
					}
				}
				if stable {
					c.ok("C14-R4", fname, "compressed bytes unchanged between the parameter and the signature ["+label+"]", pos, "after Close the buffer is only read through Bytes/Len/String")
				}
			}
			wantB64 := "(*encoding/base64.Encoding).EncodeToString(encoding/base64.StdEncoding, (*bytes.Buffer).Bytes(" + ap(buf) + "))"
			// ---- query assembly
			qss := findCall(t, "(*net/url.URL).Query")
			var qs Val
			if len(qss) == 1 && qss[0].Args[0].Key() == u.Key() {
				qs = qss[0].Res[0]
			} else if len(qss) == 0 {
				// an endpoint without a query string: Query() of it is an empty, non-nil map — which the path may build itself
				emptyQuery := false
				for _, f := range t.St.facts {
					if b, isB := f.Cond.(*BinV); isB && b.Op == token.EQL && f.Pol {
						if l, isL := b.X.(*LoadV); isL {
							if fa, isFA := l.Addr.(*FieldAddrV); isFA && fa.Name == "RawQuery" && fa.X.Key() == u.Key() {
								if sv, isC := constString(b.Y); isC && sv == "" {
									emptyQuery = true
								}
							}
						}
					}
				}
				if emptyQuery {
					for _, e := range findCall(t, "(net/url.Values).Add") {
						if a, isA := e.Args[0].(*AllocV); isA && a.Comment == "makemap" {
							qs = a
							break
						}
					}
				}
			}
			if qs == nil {
				c.bad("C14-R5", fname, "query derives from the parsed endpoint ["+label+"]", pos, "query values do not come from parsedURL.Query(): existing IdP parameters are lost")
				continue
			}
			adds := map[string]*Event{}
			var addOrder []string
			for _, e := range findCall(t, "(net/url.Values).Add") {
				if e.Args[0].Key() != qs.Key() {
					continue
				}
				k, isC := constString(e.Args[1])
				if !isC {
					c.bad("C14-R3", fname, "query key is a constant ["+label+"]", c.P.InstrPos(e.Instr), "non-constant query key "+ap(e.Args[1]))
					continue
				}
				if adds[k] != nil {
					c.bad("C14-R3", fname, "query key "+k+" added once ["+label+"]", c.P.InstrPos(e.Instr), "parameter "+k+" added twice")
				}
				adds[k] = e
				addOrder = append(addOrder, k)
			}
			if a := adds["SAMLRequest"]; a != nil {
				b64 = a.Args[2]
				c.check(ap(b64) == wantB64, "C14-R5", fname, "SAMLRequest = base64.StdEncoding(deflated document) ["+label+"]", c.P.InstrPos(a.Instr), wantB64, "SAMLRequest is "+ap(b64))
			} else {
				c.bad("C14-R5", fname, "SAMLRequest parameter present ["+label+"]", pos, "no SAMLRequest parameter is added")
				continue
			}
			if relay {
				a := adds["RelayState"]
				c.check(a != nil && ap(a.Args[2]) == relayP, "C14-R3", fname, "RelayState added with the given value ["+label+"]", pos, relayP, "RelayState parameter missing or altered on the non-empty path")
			} else {
				c.check(adds["RelayState"] == nil, "C14-R3", fname, "RelayState omitted when empty ["+label+"]", pos, "absent", "RelayState parameter added although the relay state is empty")
			}
			// RawQuery
			var rq *Event
			for _, e := range t.stores() {
				if fa, ok := e.Addr.(*FieldAddrV); ok && fa.Name == "RawQuery" && fa.X.Key() == u.Key() {
					rq = e
				}
			}
			okRQ := false
			if rq != nil {
				if cv, ok := rq.Val.(*CallV); ok && shortName(cv.Callee) == "(net/url.Values).Encode" && cv.Args[0].Key() == qs.Key() {
					okRQ = true
					for _, a := range adds {
						if a.Seq > rq.Seq {
							okRQ = false
						}
					}
				}
			}
			got := "<never assigned>"
			if rq != nil {
				got = ap(rq.Val)
			}
			c.check(okRQ, "C14-R1", fname, "RawQuery = qs.Encode() after all parameters ["+label+"]", pos, "url.Values.Encode", "RawQuery is "+got+": the octets sent are not url.Values.Encode of the assembled query (the signature is computed over QueryEscape output)")
			// ---- signing
			signs := findCall(t, "(*dsig.SigningContext).SignString")
			if !signNow {
				c.check(len(signs) == 0 && adds["Signature"] == nil && adds["SigAlg"] == nil, "C14-R2", fname, "no signature parameters when signing does not apply ["+label+"]", pos, "absent", "Signature / SigAlg emitted on a path where signing does not apply")
				continue
			}
			nSigned++
			if len(signs) != 1 {
				c.bad("C14-R2", fname, "query signed once ["+label+"]", pos, fmt.Sprintf("%d SignString calls on a signing path", len(signs)))
				continue
			}
			sg := signs[0]
			ctx := sg.Args[0]
			c.check(ap(ctx) == "(*SAMLServiceProvider).SigningContext(SP)", "C14-R2", fname, "signing context from sp.SigningContext() ["+label+"]", c.P.InstrPos(sg.Instr), ap(ctx), "query signed with "+ap(ctx))
			sigAlg := "(*dsig.SigningContext).GetSignatureMethodIdentifier(" + ap(ctx) + ")"
			if a := adds["SigAlg"]; a != nil {
				c.check(ap(a.Args[2]) == sigAlg && stripSite(a.Args[2]) == stripSite2(ctx, a.Args[2]), "C14-R2", fname, "SigAlg names the signing context's algorithm ["+label+"]", c.P.InstrPos(a.Instr), sigAlg, "SigAlg is "+ap(a.Args[2])+", not the identifier of the context that signs")
			} else {
				c.bad("C14-R2", fname, "SigAlg parameter present ["+label+"]", pos, "signed URL lacks SigAlg")
			}
			if a := adds["Signature"]; a != nil {
				want := "(*encoding/base64.Encoding).EncodeToString(encoding/base64.StdEncoding, " + ap(sg.Res[0]) + ")"
				c.check(ap(a.Args[2]) == want, "C14-R5", fname, "Signature = base64.StdEncoding(raw signature) ["+label+"]", c.P.InstrPos(a.Instr), want, "Signature is "+ap(a.Args[2]))
				sOK, k := t.eqFact(sg.Res[1], nilOf(nil))
				c.check(k && sOK, "C14-R2", fname, "signing error checked ["+label+"]", pos, "err == nil", "Signature emitted although SignString's error is not known nil")
			} else {
				c.bad("C14-R2", fname, "Signature parameter present ["+label+"]", pos, "signed URL lacks Signature")
			}
			// signing string
			sent := map[string]string{"SAMLRequest": ap(b64), "SigAlg": sigAlg}
			if adds["RelayState"] != nil {
				sent["RelayState"] = ap(adds["RelayState"].Args[2])
			}
			checkSigningString(c, t, fname, label, sg, qs, sent, relay)
		}
		c.count("C14/accepting "+fname, nAcc)
		c.floor("C14/accepting "+fname, 2)
		c.count("C14/signed "+fname, nSigned)
		c.floor("C14/signed "+fname, rs.MinSigned)
	}
}

func stripSite(v Val) string { return ap(v) }
func stripSite2(ctx, v Val) string {
	// the identifier must be taken from the same context value (same call result), not merely an equal expression
	if cv, ok := v.(*CallV); ok && len(cv.Args) == 1 && cv.Args[0].Key() == ctx.Key() {
		return ap(v)
	}
	return "<different context value>"
}

// checkSigningString normalises the string handed to SignString into a list of (key, value, escaper) pairs joined by
// "&" — whether it was assembled through a bytes.Buffer (QueryEscape(k) "=" QueryEscape(v) writes) or by
// concatenating url.Values{k: v}.Encode() fragments; loops over literal tables are executed as written by the
// engine — and compares it with the parameters actually sent.
func checkSigningString(c *Ctx, t *Terminal, fname, label string, sg *Event, qs Val, sent map[string]string, relay bool) {
	pos := c.P.InstrPos(sg.Instr)
	atoms := t.atoms()
	// infeasible under documented assumptions: url.Values.Encode of a non-empty Values is non-empty; the endpoint's own
	// query carries no RelayState (Get then returns exactly what was added)
	for a := range atoms {
		if strings.HasPrefix(a, "(net/url.Values).Encode(") && strings.HasSuffix(a, `) == ""`) {
			c.Assume["url.Values.Encode of a Values holding a parameter is never the empty string"] = true
			return
		}
	}
	getRelayEmpty := atoms["(net/url.Values).Get("+ap(qs)+", \"RelayState\") == \"\""]
	getRelayNonEmpty := atoms["!((net/url.Values).Get("+ap(qs)+", \"RelayState\") == \"\")"]
	if (relay && getRelayEmpty) || (!relay && getRelayNonEmpty) {
		c.Assume["the configured IdP endpoint URL does not itself carry SAMLRequest / RelayState / SigAlg / Signature parameters (url.Values.Get then returns exactly the value this code added)"] = true
		return
	}
	// infeasible: bytes.Buffer.Len() > 0 is true exactly after something was written to that buffer
	for _, f := range t.St.facts {
		b, ok := f.Cond.(*BinV)
		if !ok || b.Op != token.LSS || !isConstInt(b.X, 0) {
			continue
		}
		lc, ok := b.Y.(*CallV)
		if !ok || (shortName(lc.Callee) != "(*bytes.Buffer).Len" && shortName(lc.Callee) != "(*strings.Builder).Len") {
			continue
		}
		written := false
		for _, e := range t.St.events {
			if e.Kind == EvCall && e.Seq < f.Seq && len(e.Args) > 0 && e.Args[0].Key() == lc.Args[0].Key() && (strings.HasPrefix(shortName(e.Callee), "(*bytes.Buffer).Write") || strings.HasPrefix(shortName(e.Callee), "(*strings.Builder).Write")) {
				written = true
			}
		}
		if written != f.Pol {
			c.Assume["bytes.Buffer.Len() is positive exactly after a Write* on that buffer"] = true
			return
		}
	}
	// ---- tokens of the signed string: constant text and escaper calls, whatever wrote them
	isWriter := func(n, m string) bool {
		return n == "(*bytes.Buffer)."+m || n == "(*strings.Builder)."+m
	}
	var flatten func(v Val) ([]Val, string)
	flatten = func(v Val) ([]Val, string) {
		if b, ok := v.(*BinV); ok && b.Op == token.ADD {
			x, w := flatten(b.X)
			if w != "" {
				return nil, w
			}
			y, w := flatten(b.Y)
			return append(x, y...), w
		}
		if cv, ok := v.(*CallV); ok {
			switch sn := shortName(cv.Callee); {
			case isWriter(sn, "String"):
				sb := cv.Args[0]
				var out []Val
				for _, e := range t.St.events {
					if e.Kind != EvCall || len(e.Args) == 0 || e.Args[0].Key() != sb.Key() || e.Seq > sg.Seq {
						continue
					}
					en := shortName(e.Callee)
					switch {
					case isWriter(en, "WriteString"):
						x, w := flatten(e.Args[1])
						if w != "" {
							return nil, w
						}
						out = append(out, x...)
					case isWriter(en, "WriteByte"), isWriter(en, "WriteRune"):
						if k, ok := constInt(e.Args[1]); ok && k > 0 && k < 128 {
							out = append(out, constOf(constantString(string(rune(k))), types.Typ[types.String]))
						} else {
							out = append(out, e.Args[1])
						}
					case isWriter(en, "Len"), isWriter(en, "String"), isWriter(en, "Grow"):
					default:
						return nil, "unexpected writer to the signing string buffer: " + en
					}
				}
				return out, ""
			case sn == "strings.Join" && len(cv.Args) == 2:
				sep, ok := constString(cv.Args[1])
				if !ok {
					return nil, "strings.Join with a non-constant separator"
				}
				elems, ok := sliceElems(t, cv.Args[0])
				if !ok {
					return nil, "strings.Join over a list the analysis cannot enumerate: " + ap(cv.Args[0])
				}
				var out []Val
				for i, e := range elems {
					if i > 0 {
						out = append(out, constOf(constantString(sep), types.Typ[types.String]))
					}
					x, w := flatten(e)
					if w != "" {
						return nil, w
					}
					out = append(out, x...)
				}
				return out, ""
			}
		}
		return []Val{v}, ""
	}
	toks, w := flatten(sg.Args[1])
	type pair struct{ k, v, esc string }
	var pairs []pair
	bad := func(why string) {
		var ts []string
		for _, x := range toks {
			ts = append(ts, ap(x))
		}
		c.undecided("C14-R1", fname, "signing string shape ["+label+"]", pos, why+"; tokens: "+strings.Join(ts, " "))
	}
	if w != "" {
		c.bad("C14-R1", fname, "signing string assembly ["+label+"]", pos, w)
		return
	}
	// linearise: literal text with one placeholder per escaper call, then parse pair ('&' pair)*
	const ph = "\x00"
	var text strings.Builder
	var calls []*CallV
	for _, x := range toks {
		if s, ok := constString(x); ok {
			if strings.Contains(s, ph) {
				bad("NUL in constant text")
				return
			}
			text.WriteString(s)
			continue
		}
		cv, ok := x.(*CallV)
		if !ok || (shortName(cv.Callee) != "net/url.QueryEscape" && shortName(cv.Callee) != "(net/url.Values).Encode") {
			bad("unexpected fragment " + ap(x) + " (only constant text, url.QueryEscape and url.Values.Encode outputs may enter the signed string)")
			return
		}
		text.WriteString(ph)
		calls = append(calls, cv)
	}
	ci := 0
	next := func() *CallV { cv := calls[ci]; ci++; return cv }
	escapeInvariant := func(s string) bool {
		for i := 0; i < len(s); i++ {
			ch := s[i]
			if !(ch >= 'a' && ch <= 'z' || ch >= 'A' && ch <= 'Z' || ch >= '0' && ch <= '9' || ch == '-' || ch == '_' || ch == '.' || ch == '~') {
				return false
			}
		}
		return s != ""
	}
	for _, seg := range strings.Split(text.String(), "&") {
		if seg == ph {
			cv := next()
			if shortName(cv.Callee) == "(net/url.Values).Encode" {
				u := cv.Args[0]
				var adds []*Event
				for _, e := range t.St.events {
					if e.Kind == EvCall && shortName(e.Callee) == "(net/url.Values).Add" && e.Args[0].Key() == u.Key() && e.Seq < sg.Seq {
						adds = append(adds, e)
					}
				}
				_, fresh := u.(*AllocV)
				var kV, vV Val
				if len(adds) == 1 {
					kV, vV = adds[0].Args[1], adds[0].Args[2]
				} else if len(adds) == 0 {
					// url.Values{k: {v}}: a map literal with one entry holding one value
					var ups []*Event
					for _, e := range t.St.events {
						if e.Kind == EvMapUpdate && e.X != nil && e.X.Key() == u.Key() && e.Val != nil && e.Seq < sg.Seq {
							ups = append(ups, e)
						}
					}
					if len(ups) == 1 {
						if es, okE := sliceElems(t, ups[0].Val); okE && len(es) == 1 {
							kV, vV = ups[0].I, es[0]
						}
					}
				}
				if kV == nil || !fresh {
					bad("an Encode() fragment does not come from a fresh url.Values holding exactly one parameter")
					return
				}
				k, ok := constString(kV)
				if !ok {
					bad("fragment key is not a constant")
					return
				}
				pairs = append(pairs, pair{k, ap(vV), "Values.Encode"})
				continue
			}
			bad("a pair without '='")
			return
		}
		eq := strings.Index(seg, "=")
		if eq < 0 {
			bad("a pair without '=' (" + strings.ReplaceAll(seg, ph, "<escaped>") + ")")
			return
		}
		kpart, vpart := seg[:eq], seg[eq+1:]
		key := ""
		switch {
		case kpart == ph:
			cv := next()
			k, ok := constString(cv.Args[0])
			if shortName(cv.Callee) != "net/url.QueryEscape" || !ok {
				bad("key is not QueryEscape of a constant")
				return
			}
			key = k
		case !strings.Contains(kpart, ph) && escapeInvariant(kpart):
			key = kpart // a literal key made of unreserved characters is its own escaped form
		default:
			bad("key part " + strings.ReplaceAll(kpart, ph, "<escaped>") + " is neither QueryEscape(constant) nor an escape-invariant literal")
			return
		}
		if vpart != ph {
			bad("value of " + key + " is not exactly one QueryEscape output")
			return
		}
		vq := next()
		if shortName(vq.Callee) != "net/url.QueryEscape" {
			bad("value of " + key + " is escaped by " + shortName(vq.Callee))
			return
		}
		pairs = append(pairs, pair{key, ap(vq.Args[0]), "QueryEscape"})
	}
	var keys []string
	hasRelay := false
	for _, p := range pairs {
		keys = append(keys, p.k)
		hasRelay = hasRelay || p.k == "RelayState"
	}
	want := []string{"SAMLRequest", "SigAlg"}
	if hasRelay {
		want = []string{"SAMLRequest", "RelayState", "SigAlg"}
	}
	c.check(strings.Join(keys, ",") == strings.Join(want, ","), "C14-R3", fname, "signing string order ["+label+"]", pos, strings.Join(want, ", "), "signing string lists "+strings.Join(keys, ", ")+", want "+strings.Join(want, ", "))
	c.check(hasRelay == relay, "C14-R3", fname, "RelayState signed exactly when sent ["+label+"]", pos, fmt.Sprint(relay), fmt.Sprintf("relay state sent=%v but covered by the signature=%v", relay, hasRelay))
	okVals := true
	for _, p := range pairs {
		getForm := "(net/url.Values).Get(" + ap(qs) + ", \"" + p.k + "\")"
		if p.v != getForm && p.v != sent[p.k] {
			okVals = false
			c.bad("C14-R4", fname, "signed value of "+p.k+" is the value sent ["+label+"]", pos, "signing string covers "+p.v+" for "+p.k+", but the URL carries "+sent[p.k])
		}
	}
	if okVals {
		c.ok("C14-R4", fname, "signed values are the values sent ["+label+"]", pos, "same value / Get(qs, key)")
	}
	esc := map[string]bool{}
	for _, p := range pairs {
		esc[p.esc] = true
	}
	c.ok("C14-R1", fname, "signing string = escaped key=value pairs joined by '&' ["+label+"]", pos, fmt.Sprintf("%d pairs via %v", len(pairs), sortedStrings(esc)))
}

// sliceElems enumerates the elements of a []string value assembled from slice literals and appends.
func sliceElems(t *Terminal, v Val) ([]Val, bool) {
	switch x := v.(type) {
	case *ConstV:
		if isNilConst(x) {
			return nil, true
		}
	case *AllocV:
		if isEmptySliceValT(t, x) {
			return nil, true
		}
	case *AppendV:
		base, ok := sliceElems(t, x.S)
		if !ok {
			return nil, false
		}
		if x.Spread {
			for _, e := range x.Elems {
				more, ok := sliceElems(t, e)
				if !ok {
					return nil, false
				}
				base = append(base, more...)
			}
			return base, true
		}
		return append(base, x.Elems...), true
	case *SliceV:
		if a, ok := x.X.(*AllocV); ok && x.Lo == nil && x.Hi == nil {
			if p, ok := a.Type().Underlying().(*types.Pointer); ok {
				if arr, ok := p.Elem().Underlying().(*types.Array); ok && arr.Len() <= 32 {
					out := make([]Val, arr.Len())
					for i := range out {
						cl, ok := t.St.heap[mkIndexAddr(a, intV(int64(i)), nil).Key()]
						if !ok {
							return nil, false
						}
						out[i] = cl.val
					}
					return out, true
				}
			}
		}
	}
	return nil, false
}
