package main

// Symbolic values of the path engine ("pathwalk", DESIGN.md §2.4).
//
// Values are immutable trees; Key() is a canonical string used for value
// numbering, fact lookup and obligation keys. Nothing here executes library
// code: values are built from go/ssa operands only.

import (
	"fmt"
	"go/constant"
	"go/token"
	"go/types"
	"sort"
	"strings"

	"golang.org/x/tools/go/ssa"
)

type Val interface {
	Key() string
	Type() types.Type
}

type base struct {
	key string
	typ types.Type
}

func (b *base) Key() string      { return b.key }
func (b *base) Type() types.Type { return b.typ }

// ConstV: compile-time constant (nil when C == nil and IsNil).
type ConstV struct {
	base
	C     constant.Value
	IsNil bool
}

// ParamV: parameter / receiver of the kernel's root function.
type ParamV struct {
	base
	Fn   *ssa.Function
	Idx  int
	Name string
}

// FreeV: free variable of a closure analysed as a root (not bound).
type FreeV struct {
	base
	Name string
}

// GlobalV: address of a package-level variable.
type GlobalV struct {
	base
	G *ssa.Global
}

// AllocV: address of an allocation (ssa.Alloc, MakeMap, MakeSlice, MakeChan) at a call-string qualified site.
type AllocV struct {
	base
	Site    string
	Comment string
	Heap    bool
	Instr   ssa.Instruction
}

// FieldAddrV: &X.f
type FieldAddrV struct {
	base
	X     Val
	Field int
	Name  string
	Owner types.Type // struct type
}

// IndexAddrV: &X[i]
type IndexAddrV struct {
	base
	X, I Val
}

// LoadV: content of an address not written on this path (initial / post-havoc value).
type LoadV struct {
	base
	Addr  Val
	Epoch int
}

// FieldV: field of a struct value.
type FieldV struct {
	base
	X     Val
	Field int
	Name  string
}

// IndexV: X[i] for strings / arrays / map lookups.
type IndexV struct {
	base
	X, I Val
}

// SliceV: X[lo:hi:max]
type SliceV struct {
	base
	X, Lo, Hi, Max Val
}

// CallV: result Idx of a call that was not inlined.
type CallV struct {
	base
	Callee string
	Args   []Val
	Site   string // "" for deterministic callees (value numbered)
	Idx    int
	N      int // number of results
	Fn     *ssa.Function
}

// BinV / UnV
type BinV struct {
	base
	Op   token.Token
	X, Y Val
}
type UnV struct {
	base
	Op token.Token
	X  Val
}

// MakeIfaceV: interface holding X (dynamic type = X's static type).
type MakeIfaceV struct {
	base
	X   Val
	Dyn types.Type // dynamic type: the static type of the operand at the MakeInterface instruction
}

// ConvV: conversion (Convert, ChangeInterface, SliceToArrayPointer).
type ConvV struct {
	base
	X Val
}

// TypeAssertV: X.(T); Idx 0 value, 1 ok (comma-ok form).
type TypeAssertV struct {
	base
	X       Val
	To      types.Type
	CommaOk bool
	Idx     int
}

// ClosureV: function value with bound free variables.
type ClosureV struct {
	base
	Fn       *ssa.Function
	Bindings []Val
}

// TupleV: multiple results of an inlined call.
type TupleV struct {
	base
	Vals []Val
}

// LoopPhiV: value of a loop-header phi at the start of the generic iteration.
type LoopPhiV struct {
	base
	Loop string
	Phi  string
}

// IterElemV: the element handed to a traversal handler in its generic invocation
// (descendant-or-self of Root selected by the traversal helper).
type IterElemV struct {
	base
	Root Val
	Site string
}

// UnknownV: a value the engine does not model.
type UnknownV struct {
	base
	Why string
}

// AppendV: append(S, elems...) / append(S, T...)
type AppendV struct {
	base
	S     Val
	Elems []Val
	Spread bool
}

// ArrayLitV: array value read whole from a local whose elements were stored one by one (snapshot at the load).
type ArrayLitV struct {
	base
	Elems []Val
}

func mkArrayLit(t types.Type, elems []Val) Val {
	v := &ArrayLitV{Elems: elems}
	v.typ = t
	ks := make([]string, len(elems))
	for i, e := range elems {
		ks[i] = e.Key()
	}
	v.key = typeStr(t) + "[" + strings.Join(ks, ", ") + "]"
	return v
}

// MapV: a slice built by one append per completed iteration of an exhaustive index-order loop over Coll, starting
// from an empty slice: element k is Elem evaluated for index k ("[Elem for _ in Coll]"). Elem mentions the loop's
// own induction value, which access-path rendering shows as [*].
type MapV struct {
	base
	Coll   Val
	Elem   Val
	NonNil bool // the initial empty slice was non-nil
	Loop   string
}

// MapElemV: element I of a MapV.
type MapElemV struct {
	base
	M *MapV
	I Val
}

// StructLitV: struct value assembled from per-field stores into a local (composite literal).
type StructLitV struct {
	base
	Names  []string
	Fields map[string]Val
}

func mkStructLit(t types.Type, names []string, fields map[string]Val) Val {
	v := &StructLitV{Names: names, Fields: fields}
	v.typ = t
	var sb strings.Builder
	sb.WriteString(typeStr(t) + "{")
	first := true
	for _, n := range names {
		f := fields[n]
		if c, ok := f.(*ConstV); ok && (c.IsNil || c.C == nil || c.Key() == "\"\"" || c.Key() == "0" || c.Key() == "false") {
			continue
		}
		if !first {
			sb.WriteString(", ")
		}
		first = false
		sb.WriteString(n + ": " + f.Key())
	}
	sb.WriteString("}")
	v.key = sb.String()
	return v
}

// ---------------------------------------------------------------- constructors

func typeStr(t types.Type) string {
	if t == nil {
		return "?"
	}
	return types.TypeString(t, func(p *types.Package) string { return p.Name() })
}

func mkConst(c *ssa.Const) Val {
	v := &ConstV{C: c.Value, IsNil: c.Value == nil}
	v.typ = c.Type()
	if c.Value == nil {
		// nil or zero value of aggregate type
		if isNillable(c.Type()) {
			v.key = "nil"
		} else {
			v.IsNil = false
			v.key = "zero(" + typeStr(c.Type()) + ")"
		}
	} else {
		v.key = c.Value.ExactString()
	}
	return v
}

func constOf(cv constant.Value, t types.Type) Val {
	v := &ConstV{C: cv}
	v.typ = t
	v.key = cv.ExactString()
	return v
}

func nilOf(t types.Type) Val {
	v := &ConstV{IsNil: true}
	v.typ = t
	v.key = "nil"
	return v
}

func boolV(b bool) Val { return constOf(constant.MakeBool(b), types.Typ[types.Bool]) }
func intV(i int64) Val { return constOf(constant.MakeInt64(i), types.Typ[types.Int]) }

func zeroOf(t types.Type) Val {
	switch u := t.Underlying().(type) {
	case *types.Basic:
		switch {
		case u.Info()&types.IsBoolean != 0:
			return constOf(constant.MakeBool(false), t)
		case u.Info()&types.IsString != 0:
			return constOf(constant.MakeString(""), t)
		case u.Info()&types.IsNumeric != 0:
			return constOf(constant.MakeInt64(0), t)
		}
	case *types.Pointer, *types.Slice, *types.Map, *types.Chan, *types.Interface, *types.Signature:
		return nilOf(t)
	}
	v := &ConstV{}
	v.typ = t
	v.key = "zero(" + typeStr(t) + ")"
	return v
}

func isNillable(t types.Type) bool {
	switch u := t.Underlying().(type) {
	case *types.Pointer, *types.Slice, *types.Map, *types.Chan, *types.Interface, *types.Signature:
		return true
	case *types.Basic:
		return u.Kind() == types.UnsafePointer || u.Kind() == types.UntypedNil
	}
	return false
}

func isNilConst(v Val) bool {
	c, ok := v.(*ConstV)
	return ok && c.IsNil
}

func isZeroAggregate(v Val) bool {
	c, ok := v.(*ConstV)
	return ok && c.C == nil && !c.IsNil
}

func mkFieldAddr(x Val, field int, owner types.Type, ft types.Type) Val {
	st := owner.Underlying().(*types.Struct)
	v := &FieldAddrV{X: x, Field: field, Name: st.Field(field).Name(), Owner: owner}
	v.typ = types.NewPointer(ft)
	v.key = "&" + lvalKey(x) + "." + v.Name
	return v
}

// lvalKey renders the pointee of an address-valued Val ("*p" simplified).
func lvalKey(addr Val) string {
	k := addr.Key()
	if strings.HasPrefix(k, "&") {
		return k[1:]
	}
	return "(*" + k + ")"
}

func mkIndexAddr(x, i Val, et types.Type) Val {
	v := &IndexAddrV{X: x, I: i}
	v.typ = types.NewPointer(et)
	v.key = indexPrefix(x) + i.Key() + "]"
	return v
}

func indexPrefix(x Val) string {
	if x.Type() != nil {
		if _, ok := x.Type().Underlying().(*types.Pointer); ok {
			return "&" + lvalKey(x) + "["
		}
	}
	return "&" + x.Key() + "["
}

func mkLoad(addr Val, epoch int, t types.Type) Val {
	v := &LoadV{Addr: addr, Epoch: epoch}
	v.typ = t
	v.key = lvalKey(addr)
	if epoch > 0 {
		v.key += fmt.Sprintf("@%d", epoch)
	}
	return v
}

func mkField(x Val, field int, name string, t types.Type) Val {
	// field of a struct loaded whole from memory == load of the field's address
	if l, ok := x.(*LoadV); ok {
		if st, ok2 := derefStruct(l.Addr.Type()); ok2 {
			fa := mkFieldAddr(l.Addr, field, st, t)
			return mkLoad(fa, l.Epoch, t)
		}
	}
	if isZeroAggregate(x) {
		return zeroOf(t)
	}
	if sl, ok := x.(*StructLitV); ok {
		if f, ok := sl.Fields[name]; ok {
			return f
		}
	}
	v := &FieldV{X: x, Field: field, Name: name}
	v.typ = t
	v.key = x.Key() + "." + name
	return v
}

func derefStruct(t types.Type) (types.Type, bool) {
	if t == nil {
		return nil, false
	}
	p, ok := t.Underlying().(*types.Pointer)
	if !ok {
		return nil, false
	}
	if _, ok := p.Elem().Underlying().(*types.Struct); ok {
		return p.Elem(), true
	}
	return nil, false
}

func mkIndex(x, i Val, t types.Type) Val {
	v := &IndexV{X: x, I: i}
	v.typ = t
	v.key = x.Key() + "[" + i.Key() + "]"
	return v
}

func optKey(v Val) string {
	if v == nil {
		return ""
	}
	return v.Key()
}

func mkSlice(x, lo, hi, max Val, t types.Type) Val {
	v := &SliceV{X: x, Lo: lo, Hi: hi, Max: max}
	v.typ = t
	v.key = x.Key() + "[" + optKey(lo) + ":" + optKey(hi)
	if max != nil {
		v.key += ":" + max.Key()
	}
	v.key += "]"
	return v
}

func mkCall(callee string, fn *ssa.Function, args []Val, site string, idx, n int, t types.Type) Val {
	v := &CallV{Callee: callee, Args: args, Site: site, Idx: idx, N: n, Fn: fn}
	v.typ = t
	var sb strings.Builder
	sb.WriteString(callee)
	sb.WriteString("(")
	for i, a := range args {
		if i > 0 {
			sb.WriteString(", ")
		}
		sb.WriteString(a.Key())
	}
	sb.WriteString(")")
	if site != "" {
		sb.WriteString("@" + site)
	}
	if n > 1 {
		fmt.Fprintf(&sb, "#%d", idx)
	}
	v.key = sb.String()
	return v
}

func mkUn(op token.Token, x Val, t types.Type) Val {
	if c, ok := x.(*ConstV); ok && c.C != nil {
		switch op {
		case token.NOT:
			if c.C.Kind() == constant.Bool {
				return constOf(constant.MakeBool(!constant.BoolVal(c.C)), t)
			}
		case token.SUB:
			return constOf(constant.UnaryOp(token.SUB, c.C, 0), t)
		}
	}
	if op == token.NOT {
		if u, ok := x.(*UnV); ok && u.Op == token.NOT {
			return u.X
		}
	}
	v := &UnV{Op: op, X: x}
	v.typ = t
	v.key = op.String() + "(" + x.Key() + ")"
	return v
}

func mkBin(op token.Token, x, y Val, t types.Type) Val {
	cx, okx := x.(*ConstV)
	cy, oky := y.(*ConstV)
	if okx && oky && cx.C != nil && cy.C != nil {
		switch op {
		case token.EQL, token.NEQ, token.LSS, token.LEQ, token.GTR, token.GEQ:
			if cx.C.Kind() == cy.C.Kind() || (isNumKind(cx.C) && isNumKind(cy.C)) {
				return boolV(constant.Compare(cx.C, op, cy.C))
			}
		case token.ADD, token.SUB, token.MUL, token.AND, token.OR, token.XOR, token.AND_NOT:
			if cx.C.Kind() == cy.C.Kind() && cx.C.Kind() != constant.Bool {
				return constOf(constant.BinaryOp(cx.C, op, cy.C), t)
			}
		case token.QUO, token.REM:
			if isNumKind(cx.C) && isNumKind(cy.C) && constant.Sign(cy.C) != 0 && cx.C.Kind() == constant.Int && cy.C.Kind() == constant.Int {
				if op == token.QUO {
					return constOf(constant.BinaryOp(cx.C, token.QUO_ASSIGN, cy.C), t)
				}
				return constOf(constant.BinaryOp(cx.C, token.REM, cy.C), t)
			}
		}
	}
	if okx && oky && (op == token.EQL || op == token.NEQ) && cx.IsNil && cy.IsNil {
		return boolV(op == token.EQL)
	}
	if (op == token.EQL || op == token.NEQ) && x.Key() == y.Key() && !strings.Contains(x.Key(), "unknown") {
		return boolV(op == token.EQL)
	}
	// bit masks: when every bit of the result is determined by the constants involved, the result is that constant
	// ((x & 0x3f | 0x80) & 0xc0 is 0x80 whatever x is)
	if op == token.AND || op == token.OR {
		if w := bitWidth(t); w > 0 {
			v := &BinV{Op: op, X: x, Y: y}
			v.typ = t
			if known, val := knownBits(v, w); known == widthMask(w) {
				return constOf(constant.MakeUint64(val), t)
			}
		}
	}
	// x + 0, x - 0
	if (op == token.ADD || op == token.SUB) && oky && cy.C != nil && cy.C.Kind() == constant.Int && constant.Sign(cy.C) == 0 {
		return x
	}
	v := &BinV{Op: op, X: x, Y: y}
	v.typ = t
	v.key = "(" + x.Key() + " " + op.String() + " " + y.Key() + ")"
	return v
}

func isNumKind(c constant.Value) bool {
	return c.Kind() == constant.Int || c.Kind() == constant.Float
}

func mkIface(x Val, t types.Type, dyn types.Type) Val {
	v := &MakeIfaceV{X: x, Dyn: dyn}
	v.typ = t
	if dyn == nil {
		v.Dyn = x.Type()
	}
	v.key = "iface(" + x.Key() + ":" + typeStr(v.Dyn) + ")"
	return v
}

func mkConv(x Val, t types.Type) Val {
	if c, ok := x.(*ConstV); ok && c.C != nil {
		if b, ok := t.Underlying().(*types.Basic); ok {
			if b.Info()&types.IsInteger != 0 && c.C.Kind() == constant.Int {
				return constOf(c.C, t)
			}
			if b.Info()&types.IsString != 0 && c.C.Kind() == constant.String {
				return constOf(c.C, t)
			}
		}
	}
	// string([]byte(s)) is s, []byte(string(b)) is (a copy of) b
	if in, ok := x.(*ConvV); ok && in.X.Type() != nil && types.Identical(in.X.Type().Underlying(), t.Underlying()) && isByteSliceOrString(t) && isByteSliceOrString(in.Type()) {
		return in.X
	}
	v := &ConvV{X: x}
	v.typ = t
	v.key = typeStr(t) + "(" + x.Key() + ")"
	return v
}

func mkTypeAssert(x Val, to types.Type, commaOk bool, idx int, t types.Type) Val {
	v := &TypeAssertV{X: x, To: to, CommaOk: commaOk, Idx: idx}
	v.typ = t
	v.key = x.Key() + ".(" + typeStr(to) + ")"
	if commaOk {
		v.key += fmt.Sprintf("#%d", idx)
	}
	return v
}

func mkClosure(fn *ssa.Function, b []Val, site string) Val {
	v := &ClosureV{Fn: fn, Bindings: b}
	v.typ = fn.Signature
	v.key = "closure(" + fn.String() + ")"
	if site != "" {
		v.key += "@" + site
	}
	return v
}

func mkTuple(vals []Val) Val {
	v := &TupleV{Vals: vals}
	ks := make([]string, len(vals))
	for i, x := range vals {
		ks[i] = x.Key()
	}
	v.key = "tuple(" + strings.Join(ks, ", ") + ")"
	return v
}

func mkUnknown(why string, t types.Type, nonce int) Val {
	v := &UnknownV{Why: why}
	v.typ = t
	v.key = fmt.Sprintf("unknown#%d(%s)", nonce, why)
	return v
}

func mkMap(coll, elem Val, nonNil bool, loop string, t types.Type) *MapV {
	v := &MapV{Coll: coll, Elem: elem, NonNil: nonNil, Loop: loop}
	v.typ = t
	v.key = "map(" + coll.Key() + " => " + elem.Key() + ")"
	if !nonNil {
		v.key += "?nil"
	}
	return v
}

func mkMapElem(m *MapV, i Val, t types.Type) Val {
	v := &MapElemV{M: m, I: i}
	v.typ = t
	v.key = "mapelem(" + m.Key() + ")[" + i.Key() + "]"
	return v
}

func mkAppend(s Val, elems []Val, spread bool, t types.Type) Val {
	v := &AppendV{S: s, Elems: elems, Spread: spread}
	v.typ = t
	ks := make([]string, len(elems))
	for i, x := range elems {
		ks[i] = x.Key()
	}
	v.key = "append(" + s.Key() + "; " + strings.Join(ks, ", ")
	if spread {
		v.key += "..."
	}
	v.key += ")"
	return v
}

// ---------------------------------------------------------------- helpers

// stripConv removes value-preserving wrappers (ChangeType is already transparent).
func stripIface(v Val) Val {
	for {
		switch x := v.(type) {
		case *MakeIfaceV:
			v = x.X
		default:
			return v
		}
	}
}

// rootOf returns the root of an access path (through field/index/load/slice).
func rootOf(v Val) Val {
	for {
		switch x := v.(type) {
		case *FieldAddrV:
			v = x.X
		case *IndexAddrV:
			v = x.X
		case *LoadV:
			v = x.Addr
		case *FieldV:
			v = x.X
		case *IndexV:
			v = x.X
		case *SliceV:
			v = x.X
		case *ConvV:
			v = x.X
		case *MakeIfaceV:
			v = x.X
		default:
			return v
		}
	}
}

// subVals enumerates direct children of a value.
func subVals(v Val) []Val {
	switch x := v.(type) {
	case *FieldAddrV:
		return []Val{x.X}
	case *IndexAddrV:
		return []Val{x.X, x.I}
	case *LoadV:
		return []Val{x.Addr}
	case *FieldV:
		return []Val{x.X}
	case *IndexV:
		return []Val{x.X, x.I}
	case *SliceV:
		out := []Val{x.X}
		for _, o := range []Val{x.Lo, x.Hi, x.Max} {
			if o != nil {
				out = append(out, o)
			}
		}
		return out
	case *CallV:
		return x.Args
	case *BinV:
		return []Val{x.X, x.Y}
	case *UnV:
		return []Val{x.X}
	case *MakeIfaceV:
		return []Val{x.X}
	case *ConvV:
		return []Val{x.X}
	case *TypeAssertV:
		return []Val{x.X}
	case *ClosureV:
		return x.Bindings
	case *TupleV:
		return x.Vals
	case *AppendV:
		return append([]Val{x.S}, x.Elems...)
	case *IterElemV:
		return []Val{x.Root}
	case *ArrayLitV:
		return x.Elems
	case *MapV:
		return []Val{x.Coll, x.Elem}
	case *MapElemV:
		return []Val{x.M, x.I}
	case *StructLitV:
		var out []Val
		for _, n := range x.Names {
			out = append(out, x.Fields[n])
		}
		return out
	}
	return nil
}

// containsVal reports whether needle (by key) occurs anywhere inside v.
func containsVal(v Val, pred func(Val) bool) bool {
	if v == nil {
		return false
	}
	if pred(v) {
		return true
	}
	for _, s := range subVals(v) {
		if containsVal(s, pred) {
			return true
		}
	}
	return false
}

func constString(v Val) (string, bool) {
	c, ok := v.(*ConstV)
	if !ok || c.C == nil || c.C.Kind() != constant.String {
		return "", false
	}
	return constant.StringVal(c.C), true
}

func constInt(v Val) (int64, bool) {
	c, ok := v.(*ConstV)
	if !ok || c.C == nil || c.C.Kind() != constant.Int {
		return 0, false
	}
	i, exact := constant.Int64Val(c.C)
	return i, exact
}

func constBool(v Val) (bool, bool) {
	c, ok := v.(*ConstV)
	if !ok || c.C == nil || c.C.Kind() != constant.Bool {
		return false, false
	}
	return constant.BoolVal(c.C), true
}

func sortedKeys[M ~map[string]V, V any](m M) []string {
	ks := make([]string, 0, len(m))
	for k := range m {
		ks = append(ks, k)
	}
	sort.Strings(ks)
	return ks
}

func isBoolType(t types.Type) bool {
	if t == nil {
		return false
	}
	b, ok := t.Underlying().(*types.Basic)
	return ok && b.Info()&types.IsBoolean != 0
}

func isStringType(t types.Type) bool {
	if t == nil {
		return false
	}
	b, ok := t.Underlying().(*types.Basic)
	return ok && b.Info()&types.IsString != 0
}

func bitWidth(t types.Type) int {
	if t == nil {
		return 0
	}
	b, ok := t.Underlying().(*types.Basic)
	if !ok || b.Info()&types.IsInteger == 0 {
		return 0
	}
	switch b.Kind() {
	case types.Uint8, types.Int8:
		return 8
	case types.Uint16, types.Int16:
		return 16
	case types.Uint32, types.Int32:
		return 32
	case types.Uint64, types.Int64, types.Int, types.Uint, types.Uintptr:
		return 64
	}
	return 0
}

func widthMask(w int) uint64 {
	if w >= 64 {
		return ^uint64(0)
	}
	return (uint64(1) << uint(w)) - 1
}

// knownBits: which bits of v (within w bits) are determined, and their values — constants are fully known, x & c
// knows the zero bits of c, x | c the one bits of c; everything else is unknown.
func knownBits(v Val, w int) (known, val uint64) {
	m := widthMask(w)
	switch x := v.(type) {
	case *ConstV:
		if x.C != nil && x.C.Kind() == constant.Int {
			if u, ok := constant.Uint64Val(x.C); ok {
				return m, u & m
			}
			if i, ok := constant.Int64Val(x.C); ok {
				return m, uint64(i) & m
			}
		}
	case *ConvV:
		// widening or same-width conversions of unsigned bytes keep the low bits
		return 0, 0
	case *BinV:
		switch x.Op {
		case token.AND:
			ka, va := knownBits(x.X, w)
			kb, vb := knownBits(x.Y, w)
			zero := (ka &^ va) | (kb &^ vb) // known zero in either operand
			one := (ka & va) & (kb & vb)    // known one in both
			return (zero | one) & m, one & m
		case token.OR:
			ka, va := knownBits(x.X, w)
			kb, vb := knownBits(x.Y, w)
			one := (ka & va) | (kb & vb)
			zero := (ka &^ va) & (kb &^ vb)
			return (zero | one) & m, one & m
		}
	}
	return 0, 0
}
