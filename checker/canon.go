package main

// Canonical spellings of library calls (DESIGN.md §2.2 "API algebra"). The standard library and etree offer several
// ways to say the same thing — xml.Unmarshal(b, v) is xml.NewDecoder(bytes.NewReader(b)).Decode(v); doc.WriteToBytes()
// is doc.WriteTo(&buf) + buf.Bytes(); enc.DecodeString(s) is enc.Decode(make([]byte, enc.DecodedLen(len(s))), []byte(s))
// + [:n] — and each pair is defined by the library itself as that composition. The engine rewrites the long forms into
// the short ones when it meets them, so events, values and therefore every rule see one spelling. A form that does not
// match exactly (a reused buffer, a reader of unknown content, a different location) is left alone and handled as the
// ordinary external call it is.

import (
	"go/token"
	"go/types"
	"strings"

	"golang.org/x/tools/go/ssa"
)

// emitCanonical records a call of the canonical function `name` at instruction x: result values, event, write effects —
// what external() does for a contract callee — and returns the results.
func (en *Engine) emitCanonical(st *State, fr *Frame, x ssa.Instruction, name string, args []Val, rts []types.Type) []Val {
	ct := lookupContract(name)
	site := ""
	if ct == nil || !ct.Det {
		site = fr.ctx + "/" + siteOf(x)
		st.visits["call:"+site]++
		if n := st.visits["call:"+site]; n > 1 {
			site += "#" + itoa(n)
		}
	}
	res := make([]Val, len(rts))
	for i, t := range rts {
		res[i] = mkCall(name, nil, args, site, i, len(rts), t)
	}
	st.addEvent(&Event{Kind: EvCall, Instr: x, Callee: name, Args: args, Res: res})
	if ct != nil {
		if ct.TreeMutator {
			st.treeEpoch++
		}
		for _, i := range ct.Writes {
			if i < len(args) {
				en.havoc(st, args[i])
			}
		}
	}
	return res
}

func itoa(n int) string {
	if n == 0 {
		return "0"
	}
	s := ""
	for n > 0 {
		s = string(rune('0'+n%10)) + s
		n /= 10
	}
	return s
}

var (
	tBytes  = types.NewSlice(types.Typ[types.Byte])
	tString = types.Typ[types.String]
	tInt    = types.Typ[types.Int]
)

func errorType() types.Type { return types.Universe.Lookup("error").Type() }

// bufferOf: the local bytes.Buffer (address) an io.Writer / io.Reader argument denotes, if it is one.
func bufferOf(v Val) Val {
	v = stripIface(v)
	if v == nil || v.Type() == nil {
		return nil
	}
	if ts := typeStr(v.Type()); ts != "*bytes.Buffer" && ts != "*strings.Builder" {
		return nil
	}
	if _, ok := rootOf(v).(*AllocV); !ok {
		return nil
	}
	return v
}

// untouched: nothing has been written into the local buffer / slice yet on this path.
func (en *Engine) untouched(st *State, v Val) bool {
	root := rootOf(v)
	if _, dirty := st.dirty[root.Key()]; dirty {
		return false
	}
	for _, p := range []string{"bufcontent:", "b64d:", "b64e:", "b64sink:"} {
		if _, has := st.heap[p+v.Key()]; has {
			return false
		}
	}
	return true
}

// bytesOfReader: the bytes a reader will yield — bytes.NewReader(b), bytes.NewBuffer(b), or a local buffer whose whole
// content is known.
func (en *Engine) bytesOfReader(st *State, r Val) Val {
	r = stripIface(r)
	if cv, ok := r.(*CallV); ok && (cv.Callee == "bytes.NewReader" || cv.Callee == "bytes.NewBuffer") && len(cv.Args) == 1 {
		return cv.Args[0]
	}
	if b := bufferOf(r); b != nil {
		if c, ok := st.heap["bufcontent:"+b.Key()]; ok {
			return c.val
		}
	}
	return nil
}

// canonical tries to handle the external call as a canonical spelling. done=true: fr.env[x] is set and nothing is left to
// do; otherwise (name, args) may have been rewritten to an alias and the ordinary path continues.
func (en *Engine) canonical(st *State, fr *Frame, x *ssa.Call, name string, args []Val) (string, []Val, bool) {
	switch name {
	case "github.com/russellhaering/goxmldsig/etreeutils.NSFindIterateCtx":
		// NSFindIterate(el, ns, tag, h) is NSFindIterateCtx(NewDefaultNSContext(), el, ns, tag, h)
		if len(args) == 5 {
			if cv, ok := args[0].(*CallV); ok && strings.HasSuffix(cv.Callee, "etreeutils.NewDefaultNSContext") {
				return "github.com/russellhaering/goxmldsig/etreeutils.NSFindIterate", args[1:], false
			}
		}
	case "(crypto.Hash).New":
		if len(args) == 1 {
			if k, ok := constInt(args[0]); ok {
				switch k {
				case 3:
					return "crypto/sha1.New", nil, false
				case 5:
					return "crypto/sha256.New", nil, false
				case 7:
					return "crypto/sha512.New", nil, false
				}
			}
		}
	case "(*html/template.Template).ExecuteTemplate":
		// a template executing itself by its own name
		if len(args) == 4 {
			if n, ok := constString(args[2]); ok && templateName(args[0]) == n && n != "" {
				return "(*html/template.Template).Execute", []Val{args[0], args[1], args[3]}, false
			}
		}
	case "fmt.Sprintf":
		// a constant format of literal text and %s verbs over strings and module Stringers is a concatenation
		if v := en.sprintfConcat(st, fr, x, args); v != nil {
			fr.env[x] = v
			return name, args, true
		}
	case "time.Now":
		// on a path that knows the injected clock is nil, the wall clock is what that clock reads: (*dsig.Clock)(nil).Now()
		if clk := nilClockOnPath(st); clk != nil && len(args) == 0 {
			return "(*github.com/russellhaering/goxmldsig.Clock).Now", []Val{clk}, false
		}
	case "(*github.com/russellhaering/goxmldsig.Clock).Now":
		// dsig.NewRealClock().Now() under the same knowledge
		if len(args) == 1 {
			if cv, ok := args[0].(*CallV); ok && strings.HasSuffix(cv.Callee, "goxmldsig.NewRealClock") {
				if clk := nilClockOnPath(st); clk != nil {
					return name, []Val{clk}, false
				}
			}
		}
	case "bytes.NewBuffer":
		// used as a reader of b: the same bytes come out
		return "bytes.NewReader", args, false
	case "(time.Time).In":
		if len(args) == 2 && isGlobalLoad(args[1], "time.UTC") {
			return "(time.Time).UTC", args[:1], false
		}
	case "time.ParseInLocation":
		// for layouts that carry their own zone the location argument does not influence the instant
		if len(args) == 3 {
			if l, ok := constString(args[0]); ok && (l == "2006-01-02T15:04:05Z07:00" || l == "2006-01-02T15:04:05.999999999Z07:00") {
				return "time.Parse", args[:2], false
			}
		}
	case "(time.Time).AppendFormat":
		if len(args) == 3 && en.emptySlice(st, args[1]) {
			res := en.emitCanonical(st, fr, x, "(time.Time).Format", []Val{args[0], args[2]}, []types.Type{tString})
			fr.env[x] = mkConv(res[0], tBytes)
			return name, args, true
		}
	case "net/url.ParseQuery":
		if len(args) == 1 {
			if l, ok := args[0].(*LoadV); ok {
				if fa, ok := l.Addr.(*FieldAddrV); ok && fa.Name == "RawQuery" && typeStr(fa.X.Type()) == "*url.URL" {
					res := en.emitCanonical(st, fr, x, "(*net/url.URL).Query", []Val{fa.X}, []types.Type{x.Type().(*types.Tuple).At(0).Type()})
					st.nonce++
					fr.env[x] = mkTuple([]Val{res[0], mkUnknown("ParseQuery error", errorType(), st.nonce)})
					return name, args, true
				}
			}
		}
	case "(*encoding/xml.Decoder).Decode":
		if len(args) == 2 {
			if dec, ok := args[0].(*CallV); ok && dec.Callee == "encoding/xml.NewDecoder" && len(dec.Args) == 1 && !fieldsWritten(st, dec) {
				// (a decoder whose settings were changed — Strict, CharsetReader, Entity — is not what Unmarshal uses)
				if b := en.bytesOfReader(st, dec.Args[0]); b != nil {
					res := en.emitCanonical(st, fr, x, "encoding/xml.Unmarshal", []Val{b, args[1]}, []types.Type{errorType()})
					fr.env[x] = res[0]
					return name, args, true
				}
			}
		}
	case "(*github.com/beevik/etree.Document).WriteTo":
		if len(args) == 2 {
			if buf := bufferOf(args[1]); buf != nil && en.untouched(st, buf) {
				res := en.emitCanonical(st, fr, x, "(*github.com/beevik/etree.Document).WriteToBytes", args[:1], []types.Type{tBytes, errorType()})
				st.heap["bufcontent:"+buf.Key()] = cell{rootOf(buf), res[0]}
				st.nonce++
				fr.env[x] = mkTuple([]Val{mkUnknown("WriteTo n", types.Typ[types.Int64], st.nonce), res[1]})
				return name, args, true
			}
		}
		if len(args) == 2 {
			w := stripIface(args[1])
			if c, ok := st.heap["b64w:"+w.Key()]; ok {
				if tu, isT := c.val.(*TupleV); isT && len(tu.Vals) == 2 {
					res := en.emitCanonical(st, fr, x, "(*github.com/beevik/etree.Document).WriteToBytes", args[:1], []types.Type{tBytes, errorType()})
					st.heap["b64w:"+w.Key()] = cell{w, mkTuple([]Val{tu.Vals[0], tu.Vals[1], res[0]})}
					st.nonce++
					fr.env[x] = mkTuple([]Val{mkUnknown("WriteTo n", types.Typ[types.Int64], st.nonce), res[1]})
					return name, args, true
				}
			}
		}
	case "(*github.com/beevik/etree.Document).ReadFrom":
		if len(args) == 2 {
			if b := en.bytesOfReader(st, args[1]); b != nil {
				res := en.emitCanonical(st, fr, x, "(*github.com/beevik/etree.Document).ReadFromBytes", []Val{args[0], b}, []types.Type{errorType()})
				st.nonce++
				fr.env[x] = mkTuple([]Val{mkUnknown("ReadFrom n", types.Typ[types.Int64], st.nonce), res[0]})
				return name, args, true
			}
		}
	case "github.com/beevik/etree.NewDocumentWithRoot":
		if len(args) == 1 {
			doc := en.emitCanonical(st, fr, x, "github.com/beevik/etree.NewDocument", nil, []types.Type{x.Type()})
			en.emitCanonical(st, fr, x, "(*github.com/beevik/etree.Document).SetRoot", []Val{doc[0], args[0]}, nil)
			fr.env[x] = doc[0]
			return name, args, true
		}
	case "encoding/base64.NewEncoder":
		// a streaming encoder over an untouched local buffer: Write(p) once, then Close(), leaves EncodeToString(p) in it
		if len(args) == 2 {
			if buf := bufferOf(args[1]); buf != nil && en.untouched(st, buf) {
				res := en.emitCanonical(st, fr, x, name, args, []types.Type{x.Type()})
				st.heap["b64sink:"+buf.Key()] = cell{rootOf(buf), res[0]}
				st.heap["b64w:"+res[0].Key()] = cell{res[0], mkTuple([]Val{args[0], buf})}
				fr.env[x] = res[0]
				return name, args, true
			}
		}
	case "(io.WriteCloser).Write", "(io.Writer).Write":
		if len(args) == 2 {
			w := stripIface(args[0])
			if c, ok := st.heap["b64w:"+w.Key()]; ok {
				if tu, isT := c.val.(*TupleV); isT && len(tu.Vals) == 2 {
					// first write: remember the bytes; writes to an in-memory sink do not fail
					st.heap["b64w:"+w.Key()] = cell{w, mkTuple([]Val{tu.Vals[0], tu.Vals[1], args[1]})}
					fr.env[x] = mkTuple([]Val{mkLen(st, args[1], tInt), nilOf(errorType())})
					return name, args, true
				}
				// anything else (a second write): no longer a one-shot encoding
				delete(st.heap, "b64w:"+w.Key())
			}
		}
	case "(io.WriteCloser).Close", "(io.Closer).Close":
		if len(args) == 1 {
			w := stripIface(args[0])
			if c, ok := st.heap["b64w:"+w.Key()]; ok {
				delete(st.heap, "b64w:"+w.Key())
				if tu, isT := c.val.(*TupleV); isT && len(tu.Vals) == 3 {
					buf := tu.Vals[1]
					if sink, has := st.heap["b64sink:"+buf.Key()]; has && sink.val.Key() == w.Key() {
						delete(st.heap, "b64sink:"+buf.Key())
						if en.untouched(st, buf) {
							res := en.emitCanonical(st, fr, x, "(*encoding/base64.Encoding).EncodeToString", []Val{tu.Vals[0], tu.Vals[2]}, []types.Type{tString})
							st.heap["bufcontent:"+buf.Key()] = cell{rootOf(buf), mkConv(res[0], tBytes)}
							fr.env[x] = nilOf(errorType())
							return name, args, true
						}
					}
				}
			}
		}
	case "(*strings.Builder).String":
		if len(args) == 1 {
			if c, ok := st.heap["bufcontent:"+args[0].Key()]; ok {
				fr.env[x] = mkConv(c.val, tString)
				return name, args, true
			}
		}
	case "(*bytes.Buffer).Bytes":
		if len(args) == 1 {
			if c, ok := st.heap["bufcontent:"+args[0].Key()]; ok {
				fr.env[x] = c.val
				return name, args, true
			}
		}
	case "(*bytes.Buffer).String":
		if len(args) == 1 {
			if c, ok := st.heap["bufcontent:"+args[0].Key()]; ok {
				fr.env[x] = mkConv(c.val, tString)
				return name, args, true
			}
		}
	case "(*encoding/base64.Encoding).Decode":
		// enc.Decode(dst, []byte(s)) with dst := make([]byte, enc.DecodedLen(len(s))): the body of DecodeString
		if len(args) == 3 {
			dst, isMake := args[1].(*AllocV)
			src := args[2]
			if cv, ok := src.(*ConvV); ok && isStringType(cv.X.Type()) {
				src = cv.X
			} else {
				src = nil
			}
			if isMake && dst.Comment == "makeslice" && src != nil && en.untouched(st, dst) && en.lenIs(st, dst, "DecodedLen", args[0], src) {
				res := en.emitCanonical(st, fr, x, "(*encoding/base64.Encoding).DecodeString", []Val{args[0], src}, []types.Type{tBytes, errorType()})
				n := mkLen(st, res[0], tInt)
				st.heap["b64d:"+dst.Key()] = cell{dst, mkTuple([]Val{res[0], n})}
				fr.env[x] = mkTuple([]Val{n, res[1]})
				return name, args, true
			}
		}
	case "(*encoding/base64.Encoding).Encode":
		// enc.Encode(dst, b) with dst := make([]byte, enc.EncodedLen(len(b))), later string(dst): the body of EncodeToString
		if len(args) == 3 {
			dst, isMake := args[1].(*AllocV)
			if isMake && dst.Comment == "makeslice" && en.untouched(st, dst) && en.lenIs(st, dst, "EncodedLen", args[0], args[2]) {
				res := en.emitCanonical(st, fr, x, "(*encoding/base64.Encoding).EncodeToString", []Val{args[0], args[2]}, []types.Type{tString})
				st.heap["b64e:"+dst.Key()] = cell{dst, res[0]}
				return name, args, true
			}
		}
	}
	return name, args, false
}

// lenIs: the slice made at dst has length enc.<fn>(len(of)).
func (en *Engine) lenIs(st *State, dst *AllocV, fn string, enc Val, of Val) bool {
	c, ok := st.heap["len:"+dst.Key()]
	if !ok {
		return false
	}
	cv, ok := c.val.(*CallV)
	if !ok || !strings.HasSuffix(cv.Callee, "base64.Encoding)."+fn) || len(cv.Args) != 2 {
		return false
	}
	if cv.Args[0].Key() != enc.Key() {
		return false
	}
	if cv.Args[1].Key() == mkLen(st, of, tInt).Key() {
		return true
	}
	// buf.Len() for len(buf.Bytes()) of the same buffer, nothing written to it in between
	lc, ok1 := cv.Args[1].(*CallV)
	bc, ok2 := of.(*CallV)
	if ok1 && ok2 && lc.Callee == "(*bytes.Buffer).Len" && bc.Callee == "(*bytes.Buffer).Bytes" && len(lc.Args) == 1 && len(bc.Args) == 1 && lc.Args[0].Key() == bc.Args[0].Key() {
		seen := false
		for _, e := range st.events {
			if e.Kind != EvCall {
				continue
			}
			if len(e.Res) > 0 && e.Res[0].Key() == lc.Key() {
				seen = true
				continue
			}
			if !seen {
				continue
			}
			ct := lookupContract(e.Callee)
			for i, a := range e.Args {
				if a == nil || stripIface(a).Key() != lc.Args[0].Key() {
					continue
				}
				if ct == nil {
					return false
				}
				for _, w := range ct.Writes {
					if w == i {
						return false
					}
				}
			}
		}
		return seen
	}
	return false
}

func (en *Engine) emptySlice(st *State, v Val) bool {
	if isNilConst(v) {
		return true
	}
	if a, ok := v.(*AllocV); ok && a.Comment == "makeslice" {
		if c, ok := st.heap["len:"+a.Key()]; ok && isConstInt(c.val, 0) {
			return en.untouched(st, a)
		}
	}
	if s, ok := v.(*SliceV); ok {
		if hi, isC := constInt(s.Hi); isC && hi == 0 {
			return true
		}
	}
	return false
}

func isGlobalLoad(v Val, full string) bool {
	l, ok := v.(*LoadV)
	if !ok {
		return false
	}
	g, ok := l.Addr.(*GlobalV)
	return ok && g.G != nil && g.G.Pkg != nil && g.G.Pkg.Pkg.Path()+"."+g.G.Name() == full
}

// templateName: the name given to template.New at the root of a Must(Parse(New(name))) chain ("" if unknown).
func templateName(v Val) string {
	for i := 0; i < 6; i++ {
		cv, ok := v.(*CallV)
		if !ok || len(cv.Args) == 0 {
			if l, isLoad := v.(*LoadV); isLoad {
				_ = l
			}
			return ""
		}
		if cv.Callee == "html/template.New" {
			n, _ := constString(cv.Args[0])
			return n
		}
		v = cv.Args[0]
	}
	return ""
}

// sprintfConcat: fmt.Sprintf("lit%slit%s", a, b) with every verb %s and every operand a string or a pointer to a module
// type with a String() method — the value is "lit" + str(a) + "lit" + str(b).
func (en *Engine) sprintfConcat(st *State, fr *Frame, x *ssa.Call, args []Val) Val {
	if len(args) != 2 {
		return nil
	}
	format, ok := constString(args[0])
	if !ok || !strings.Contains(format, "%") {
		return nil
	}
	ops, ok := en.variadicElems(st, args[1])
	if !ok {
		return nil
	}
	var parts []Val
	lit := ""
	oi := 0
	for i := 0; i < len(format); i++ {
		if format[i] != '%' {
			lit += string(format[i])
			continue
		}
		if i+1 >= len(format) || format[i+1] != 's' || oi >= len(ops) {
			return nil
		}
		i++
		if lit != "" {
			parts = append(parts, strV(lit))
			lit = ""
		}
		op := stripIface(ops[oi])
		oi++
		switch {
		case isStringType(op.Type()):
			parts = append(parts, op)
		default:
			// Stringer of the module with a contract for String()
			name := "(" + types.TypeString(op.Type(), nil) + ").String"
			if ct := lookupContract(name); ct == nil || !ct.Det {
				return nil
			}
			parts = append(parts, mkCall(name, nil, []Val{op}, "", 0, 1, tString))
		}
	}
	if oi != len(ops) {
		return nil
	}
	if lit != "" {
		parts = append(parts, strV(lit))
	}
	if len(parts) == 0 {
		return nil
	}
	v := parts[0]
	for _, p := range parts[1:] {
		v = mkBin(token.ADD, v, p, tString)
	}
	return v
}

// variadicElems: the operands packed into a variadic []interface{} argument built at the call site.
func (en *Engine) variadicElems(st *State, v Val) ([]Val, bool) {
	s, ok := v.(*SliceV)
	if !ok {
		return nil, false
	}
	a, ok := s.X.(*AllocV)
	if !ok {
		return nil, false
	}
	p, ok := a.Type().Underlying().(*types.Pointer)
	if !ok {
		return nil, false
	}
	arr, ok := p.Elem().Underlying().(*types.Array)
	if !ok || arr.Len() > 8 {
		return nil, false
	}
	out := make([]Val, arr.Len())
	for i := range out {
		c, has := st.heap[mkIndexAddr(a, intV(int64(i)), arr.Elem()).Key()]
		if !has {
			return nil, false
		}
		out[i] = c.val
	}
	return out, true
}

// trimRightLoop recognises
//
//	for len(p) > 0 && p[len(p)-1] == c { p = p[:len(p)-1] }
//
// (any order of the two tests, any spelling of "> 0") — the loop bytes.TrimRight(p, string(c)) runs for a one-byte
// cutset. It returns the header phi, the single exit block and the value the phi has at the exit.
func (en *Engine) trimRightLoop(st *State, fr *Frame, li *loopInfo, header, from *ssa.BasicBlock) (*ssa.Phi, *ssa.BasicBlock, Val, bool) {
	var phi *ssa.Phi
	for _, in := range header.Instrs {
		p, ok := in.(*ssa.Phi)
		if !ok {
			break
		}
		if phi != nil {
			return nil, nil, nil, false
		}
		phi = p
	}
	if phi == nil || typeStr(phi.Type()) != "[]byte" || len(li.blocks) > 4 {
		return nil, nil, nil, false
	}
	isLenP := func(v ssa.Value) bool {
		c, ok := v.(*ssa.Call)
		if !ok || !isLenCall(c) || len(c.Common().Args) != 1 {
			return false
		}
		b, _ := c.Common().Value.(*ssa.Builtin)
		return b != nil && b.Name() == "len" && c.Common().Args[0] == ssa.Value(phi)
	}
	isLenMinus1 := func(v ssa.Value) bool {
		b, ok := v.(*ssa.BinOp)
		if !ok || b.Op != token.SUB || !isLenP(b.X) {
			return false
		}
		c, ok := b.Y.(*ssa.Const)
		return ok && isIntConst(c) && c.Int64() == 1
	}
	var exit *ssa.BasicBlock
	var cut *ssa.Const
	nSlice := 0
	var sliceV ssa.Value
	for b := range li.blocks {
		for _, in := range b.Instrs {
			switch x := in.(type) {
			case *ssa.Phi, *ssa.DebugRef, *ssa.Jump:
			case *ssa.Call:
				if !isLenP(x) {
					return nil, nil, nil, false
				}
			case *ssa.BinOp:
				switch x.Op {
				case token.SUB:
					if !isLenMinus1(x) {
						return nil, nil, nil, false
					}
				case token.EQL:
					// p[len(p)-1] == c
					ld, ok := x.X.(*ssa.UnOp)
					c, ok2 := x.Y.(*ssa.Const)
					if !ok || !ok2 || ld.Op != token.MUL || cut != nil {
						return nil, nil, nil, false
					}
					ia, ok := ld.X.(*ssa.IndexAddr)
					if !ok || ia.X != ssa.Value(phi) || !isLenMinus1(ia.Index) || !isIntConst(c) {
						return nil, nil, nil, false
					}
					cut = c
				case token.GTR, token.NEQ:
					// len(p) > 0 / len(p) != 0
					c, ok := x.Y.(*ssa.Const)
					if !isLenP(x.X) || !ok || !isIntConst(c) || c.Int64() != 0 {
						return nil, nil, nil, false
					}
				case token.GEQ:
					c, ok := x.Y.(*ssa.Const)
					if !isLenP(x.X) || !ok || !isIntConst(c) || c.Int64() != 1 {
						return nil, nil, nil, false
					}
				default:
					return nil, nil, nil, false
				}
			case *ssa.IndexAddr:
				if x.X != ssa.Value(phi) || !isLenMinus1(x.Index) {
					return nil, nil, nil, false
				}
			case *ssa.UnOp:
				if x.Op != token.MUL {
					return nil, nil, nil, false
				}
				if _, ok := x.X.(*ssa.IndexAddr); !ok {
					return nil, nil, nil, false
				}
			case *ssa.Slice:
				if x.X != ssa.Value(phi) || x.Low != nil || x.Max != nil || x.High == nil || !isLenMinus1(x.High) {
					return nil, nil, nil, false
				}
				nSlice++
				sliceV = x
			case *ssa.If:
				// the true branch stays in the loop, the false branch leaves it — always to the same block
				t, f := b.Succs[0], b.Succs[1]
				if !li.blocks[t] || li.blocks[f] || (exit != nil && exit != f) {
					return nil, nil, nil, false
				}
				exit = f
			default:
				return nil, nil, nil, false
			}
		}
	}
	if exit == nil || cut == nil || nSlice != 1 {
		return nil, nil, nil, false
	}
	// the phi is fed by the value before the loop and by the slice
	idx := -1
	for i, p := range header.Preds {
		if p == from {
			idx = i
		}
	}
	if idx < 0 || len(phi.Edges) != 2 || phi.Edges[1-idx] != sliceV {
		return nil, nil, nil, false
	}
	// the exit must be reachable from the header itself (so entering it "from the header" selects the right phi edges)
	okExit := false
	for _, p := range exit.Preds {
		if p == header {
			okExit = true
		}
	}
	if !okExit {
		return nil, nil, nil, false
	}
	init := en.eval(st, fr, phi.Edges[idx])
	val := mkCall("bytes.TrimRight", nil, []Val{init, strV(string(rune(cut.Int64())))}, "", 0, 1, phi.Type())
	return phi, exit, val, true
}

// nilClockOnPath: the value `<param>.Clock` that the path knows to be nil, if any.
func nilClockOnPath(st *State) Val {
	for _, f := range st.facts {
		b, ok := f.Cond.(*BinV)
		if !ok || b.Op != token.EQL || !f.Pol || !isNilConst(b.Y) {
			continue
		}
		l, ok := b.X.(*LoadV)
		if !ok {
			continue
		}
		if fa, ok := l.Addr.(*FieldAddrV); ok && fa.Name == "Clock" {
			if _, isP := fa.X.(*ParamV); isP {
				return l
			}
		}
	}
	return nil
}

// fieldsWritten: some field of the object v points to has been stored to on this path.
func fieldsWritten(st *State, v Val) bool {
	for _, e := range st.events {
		if e.Kind != EvStore {
			continue
		}
		if fa, ok := e.Addr.(*FieldAddrV); ok && fa.X.Key() == v.Key() {
			return true
		}
	}
	return false
}
