package main

func runChecks(repo, prop, tier, out, explain string, verbose bool) int { return 2 }
