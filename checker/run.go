package main

import (
	"fmt"
	"os"
	"path/filepath"
	"runtime"
	"runtime/debug"
	"sort"
	"strings"
	"time"
)

type ruleFn func(c *Ctx)

var controlsOverride string

var rules = map[string]ruleFn{
	"C01": ruleC01,
	"C02": ruleC02,
	"C03": ruleC03,
	"C04": ruleC04,
	"C07": ruleC07,
	"C08": ruleC08,
	"C09": ruleC09,
	"C11": ruleC11,
	"C12": ruleC12,
	"C13": ruleC13,
	"C14": ruleC14,
	"C15": ruleC15,
	"C16": ruleC16,
	"C17": ruleC17,
	"C18": ruleC18,
	"C19": ruleC19,
	"C20": ruleC20,
	"C10": ruleC10,
	"C05": ruleC05,
	"C06": ruleC06,
}

// thorough-tier extras per property (contract audit, …); run on the default configuration only.
var thoroughExtras = map[string]ruleFn{}

func configsFor(tier, repo, controls string) []LoadOpts {
	base := LoadOpts{Repo: repo, Controls: controls}
	if tier != "thorough" {
		return []LoadOpts{base}
	}
	return []LoadOpts{
		base,
		{Repo: repo, Controls: controls, Tags: "verif"},
		{Repo: repo, Controls: controls, GOARCH: "386"},
		{Repo: repo, Controls: controls, GOOS: "windows", GOARCH: "amd64"},
	}
}

func runChecks(repo, prop, tier, out, explain string, verbose bool) (code int) {
	defer func() {
		if r := recover(); r != nil {
			fmt.Fprintf(os.Stderr, "checker panic: %v\n%s\n", r, debug.Stack())
			code = 2
		}
	}()
	abs, err := filepath.Abs(repo)
	if err == nil {
		repo = abs
	}
	var props []string
	if prop == "all" {
		for k := range rules {
			props = append(props, k)
		}
		sort.Strings(props)
	} else {
		for _, p := range strings.Split(prop, ",") {
			if _, ok := rules[p]; !ok {
				fmt.Fprintf(os.Stderr, "no check registered for property %q\n", p)
				return 2
			}
			props = append(props, p)
		}
	}
	findings := loadFindings(out)
	controls := filepath.Join(out, "controls")
	if controlsOverride != "" {
		controls = controlsOverride
	}
	cfgs := configsFor(tier, repo, controls)
	ctxs := map[string][]*Ctx{}
	starts := map[string]time.Time{}
	for _, p := range props {
		starts[p] = time.Now()
	}
	t0 := time.Now()
	for i, lo := range cfgs {
		p, err := Load(lo)
		if err != nil {
			fmt.Fprintf(os.Stderr, "analysis could not run (%s): %v\n", lo.Label(), err)
			return 2
		}
		if len(p.LibFns) < 70 {
			fmt.Fprintf(os.Stderr, "analysis could not run: only %d library functions loaded\n", len(p.LibFns))
			return 2
		}
		for _, id := range props {
			c := NewCtx(p, id, tier)
			rules[id](c)
			if i == 0 && tier == "thorough" {
				if ex := thoroughExtras[id]; ex != nil {
					ex(c)
				}
			}
			ctxs[id] = append(ctxs[id], c)
		}
		p = nil
		resetEffCache()
		treePureCache = map[any]bool{}
		runtime.GC()
	}
	loadWall := time.Since(t0)
	exit := 0
	for _, id := range props {
		cs := ctxs[id]
		wall := loadWall
		if len(props) > 1 {
			wall = loadWall / time.Duration(len(props))
		}
		r := cs[0].finish(out, findings, wall, cs[1:])
		if len(r.Viol) > 0 {
			exit = 1
		}
	}
	return exit
}
