package main

// C03 (profile checks), C05 (time decisions), C06 (audience / one-time-use / proxy warnings).

import (
	"fmt"
	"go/token"
	"go/types"
	"strings"

	"golang.org/x/tools/go/ssa"
)

const (
	kSuccess  = `"urn:oasis:names:tc:SAML:2.0:status:Success"`
	kBearer   = `"urn:oasis:names:tc:SAML:2.0:cm:bearer"`
	kRFC3339  = `"2006-01-02T15:04:05Z07:00"`
	kRFC3339N = `"2006-01-02T15:04:05.999999999Z07:00"`
	nowAP     = "(*dsig.Clock).Now(SP.Clock)"
)

func parseOK(field string) []string {
	return []string{
		"time.Parse(" + kRFC3339 + ", " + field + ")#1 == nil",
		"time.Parse(" + kRFC3339N + ", " + field + ")#1 == nil",
	}
}

func parsedAP(t *Terminal, field string) string {
	atoms := t.atoms()
	for _, l := range []string{kRFC3339, kRFC3339N} {
		a := "time.Parse(" + l + ", " + field + ")#1 == nil"
		if atoms[a] || atoms[negAtom(a)] {
			return "time.Parse(" + l + ", " + field + ")#0"
		}
	}
	return "time.Parse(" + kRFC3339 + ", " + field + ")#0"
}

func invVal(key string, reason ...string) *ErrSpec {
	e := &ErrSpec{Type: "saml2.ErrInvalidValue", Fields: map[string][]string{"Key": {key}}}
	if len(reason) > 0 {
		e.Fields["Reason"] = reason
	}
	return e
}
func missEl(tag string, attr ...string) *ErrSpec {
	e := &ErrSpec{Type: "saml2.ErrMissingElement", Fields: map[string][]string{"Tag": {tag}}}
	if len(attr) > 0 {
		e.Fields["Attribute"] = attr
	}
	return e
}

func ssoRows() []Row {
	A := "R.Assertions[*]"
	SC := A + ".Subject.SubjectConfirmation"
	SCD := SC + ".SubjectConfirmationData"
	return []Row{
		{ID: "Response.Version == 2.0", Alts: []string{`R.Version == "2.0"`}, Err: &ErrSpec{Type: "saml2.ErrInvalidValue", Fields: map[string][]string{"Key": {"SAML version", "Version"}, "Reason": {"Unsupported"}}}},
		{ID: "Response.Destination empty or == ACS URL", Alts: []string{`R.Destination == ""`, "R.Destination == SP.AssertionConsumerServiceURL"}, Err: invVal("Destination")},
		{ID: "at least one assertion", Alts: []string{"!(len(R.Assertions) == 0)", "0 < len(R.Assertions)", "!(len(R.Assertions) < 1)"}, Err: &ErrSpec{Global: "ErrMissingAssertion", Type: "saml2.ErrMissingElement", Fields: map[string][]string{"Tag": {"Assertion"}}}},
		{ID: "Response.Issuer present", Alts: []string{"!(R.Issuer == nil)"}, Err: missEl("Issuer")},
		{ID: "Response.Issuer == configured IdP issuer (when configured)", Alts: []string{`SP.IdentityProviderIssuer == ""`, "R.Issuer.Value == SP.IdentityProviderIssuer"}, Err: invVal("Issuer")},
		{ID: "Status present", Alts: []string{"!(R.Status == nil)"}, Err: missEl("Status")},
		{ID: "StatusCode present", Alts: []string{"!(R.Status.StatusCode == nil)"}, Err: missEl("StatusCode")},
		{ID: "StatusCode == Success", Alts: []string{"R.Status.StatusCode.Value == " + kSuccess}, Err: invVal("StatusCode")},
		{ID: "each Assertion.Issuer present", PerElem: true, Alts: []string{"!(" + A + ".Issuer == nil)"}, Err: missEl("Issuer")},
		{ID: "each Assertion.Issuer == configured IdP issuer (when configured)", PerElem: true, Alts: []string{`SP.IdentityProviderIssuer == ""`, A + ".Issuer.Value == SP.IdentityProviderIssuer"}, Err: invVal("Issuer")},
		{ID: "each Subject present", PerElem: true, Alts: []string{"!(" + A + ".Subject == nil)"}, Err: missEl("Subject")},
		{ID: "each SubjectConfirmation present", PerElem: true, Alts: []string{"!(" + SC + " == nil)"}, Err: missEl("SubjectConfirmation")},
		{ID: "each SubjectConfirmation.Method == bearer", PerElem: true, Alts: []string{SC + ".Method == " + kBearer}, Err: invVal("SubjectConfirmation", "Unsupported")},
		{ID: "each SubjectConfirmationData present", PerElem: true, Alts: []string{"!(" + SCD + " == nil)"}, Err: missEl("SubjectConfirmationData")},
		{ID: "each Recipient == ACS URL", PerElem: true, Alts: []string{SCD + ".Recipient == SP.AssertionConsumerServiceURL"}, Err: invVal("Recipient")},
		{ID: "each SubjectConfirmationData.NotOnOrAfter present", PerElem: true, Alts: []string{"!(" + SCD + `.NotOnOrAfter == "")`}, Err: missEl("SubjectConfirmationData", "NotOnOrAfter")},
		{ID: "each SubjectConfirmationData.NotOnOrAfter parses (RFC 3339)", PerElem: true, Alts: parseOK(SCD + ".NotOnOrAfter"), Err: &ErrSpec{Type: "saml2.ErrParsing", Fields: map[string][]string{"Tag": {"NotOnOrAfter"}}}},
	}
}

const scdNOA = "R.Assertions[*].Subject.SubjectConfirmation.SubjectConfirmationData.NotOnOrAfter"

// checkElementLoop verifies that the generic iteration ranges over the whole of `coll` starting at index 0
// with step 1 and leaves only by exhaustion.
func checkElementLoop(c *Ctx, rule string, res *Result, coll string) {
	fname := shortFn(res.Root)
	n := 0
	for _, t := range res.Terms {
		if !t.accepting(res.Root) || !hasLoopBack(t) {
			continue
		}
		n++
		atoms := t.atoms()
		pos := c.P.InstrPos(t.Instr)
		// generic index in range and exit by exhaustion
		ls := loopShapeOf(atoms, coll)
		inRange, exhausted := ls.Gen, ls.Exhausted
		startsAtZero := loopStartsAtZero(t, coll)
		if inRange && exhausted && startsAtZero {
			c.ok(rule+"/whole-range", fname, "loop over "+coll, pos, "index starts at 0, step 1, bounded by len("+coll+"), loop left by exhaustion")
		} else {
			o := c.bad(rule+"/whole-range", fname, "loop over "+coll, pos, "an accepting path iterates something other than the whole of "+coll+" (re-slice, early break or different collection)")
			o.Path = t.pathDesc(c.P)
		}
	}
	c.count(rule+"/element-loop-paths", n)
}

// loopStartsAtZero: the generic index compared against len(coll) is phi+k with init+k == 0 and step 1.
func loopStartsAtZero(t *Terminal, coll string) bool {
	phis := map[string]PhiInfo{}
	for _, e := range t.St.events {
		if e.Kind == EvLoopEnter {
			for _, pi := range e.Phis {
				phis[pi.Key] = pi
			}
		}
	}
	for _, f := range t.St.facts {
		if !f.Pol {
			continue
		}
		b, ok := f.Cond.(*BinV)
		if !ok || b.Op != token.LSS || ap(b.Y) != "len("+coll+")" {
			continue
		}
		var phi *LoopPhiV
		k := int64(0)
		switch x := b.X.(type) {
		case *LoopPhiV:
			phi = x
		case *BinV:
			if p, ok := x.X.(*LoopPhiV); ok && x.Op == token.ADD {
				if c, ok := constInt(x.Y); ok {
					phi, k = p, c
				}
			}
		}
		if phi == nil {
			continue
		}
		pi, ok := phis[phi.Key()]
		if !ok || !pi.HasStep || pi.Step != 1 {
			continue
		}
		if init, ok := constInt(pi.Init); ok && init+k == 0 {
			return true
		}
	}
	return false
}

func ruleC03(c *Ctx) {
	c.rule("C03-R1", "guard inventory: every accepting path of (*SAMLServiceProvider).Validate (validateResponseAttributes inlined) carries each of the 17 required facts + the expiry comparison; per-assertion facts come from the generic iteration of a loop over the whole of response.Assertions")
	c.rule("C03-R2", "typed error: the path decided by the negation of a row returns ErrInvalidValue/ErrMissingElement/ErrParsing whose Key/Tag/Attribute constants name the element")
	c.rule("C03-R5", "the configuration the profile checks compare against (IdP issuer, ACS URL, clock) is written by no library function (filtered view of the C17-R1 effect scan): a helper that pins sp.Clock to a fake clock on first use freezes 'now' for every later expiry check")
	c.rule("C03-R6", "NotOnOrAfter has not been reached: the per-assertion expiry comparison rejects for now = bound and now > bound on the SP clock (truth table shared with C05-R1)")
	nExp := shareFrom(c, "C03-R6", ruleC05, func(o *Obligation) bool {
		return strings.HasPrefix(o.Rule, "C05-R1") && (strings.Contains(o.Key, "SubjectConfirmationData.NotOnOrAfter") || strings.Contains(o.Key, "expiry rejection"))
	})
	c.count("C03-R6", nExp)
	c.floor("C03-R6", 3)
	configUntouched(c, "C03-R5", "the fields the profile checks read", []string{"IdentityProviderIssuer", "AssertionConsumerServiceURL", "Clock", "AudienceURI"})
	c.rule("C03-R7", "every assertion, whatever its position, reaches the checks: the verifying traversal of the unsigned-Response path visits every element (no handler ends the walk with ErrTraversalHalted) and rejects what is not a direct child (shared with C01-R4)")
	nTrav := shareFrom(c, "C03-R7", ruleC01, func(o *Obligation) bool { return o.Rule == "C01-R4" })
	c.count("C03-R7/handlers", nTrav)
	c.floor("C03-R7/handlers", 2)
	c.rule("C03-R3", "validation dominates acceptance: every accepting path of ValidateEncodedResponse ends with sp.Validate(returned object) == nil and no later store to its Assertions")
	res := c.kernel("(*SAMLServiceProvider).Validate", "*")
	if res != nil {
		rows := ssoRows()
		guardInventory(c, "C03-R1", res, rows, nil)
		c.floor("C03-R1/accepting-paths", 2)
		checkElementLoop(c, "C03-R1", res, "R.Assertions")
		c.floor("C03-R1/element-loop-paths", 1)
		// expiry row: accepting paths through the loop must have compared the clock with the parsed bound
		checkExpiry(c, "C03-R1", res)
		// no store through the response parameter
		for _, t := range res.Terms {
			for _, e := range t.stores() {
				if strings.HasPrefix(apLval(e.Addr), "R.") || strings.HasPrefix(apLval(e.Addr), "SP.") {
					c.bad("C03-R1/no-param-store", shortFn(res.Root), "store "+apLval(e.Addr), c.P.InstrPos(e.Instr), "validator writes through its parameter: "+apLval(e.Addr))
				}
			}
		}
	}
	validationDominates(c, "C03-R3", "(*SAMLServiceProvider).ValidateEncodedResponse", "(*SAMLServiceProvider).Validate", 3)
	// what Validate sees for an assertion is what that assertion's XML says: a decode target shared between
	// assertions lets encoding/xml keep fields of an earlier assertion for elements a later one lacks
	c.rule("C03-R4", "the object Validate inspects is decoded per assertion into a fresh target (shared rule with C01-R2 / C04-R5 / C08-R4): absent elements of a later assertion cannot inherit an earlier assertion's values")
	appendProvenance(c, "C03-R4")
	// RetrieveAssertionInfo: errors of ValidateEncodedResponse are wrapped in ErrVerification, never dropped
	ri := c.kernel("(*SAMLServiceProvider).RetrieveAssertionInfo", retrieveInline...)
	if ri != nil {
		n := 0
		for _, t := range ri.Terms {
			calls := t.calls("(*SAMLServiceProvider).ValidateEncodedResponse")
			if len(calls) == 0 {
				continue
			}
			errv := calls[0].Res[1]
			isNil, known := t.eqFact(errv, nilOf(errv.Type()))
			if t.accepting(ri.Root) {
				n++
				c.check(known && isNil, "C03-R3/retrieve", shortFn(ri.Root), "accept requires ValidateEncodedResponse err == nil", c.P.InstrPos(t.Instr),
					"accepting path has fact err == nil", "RetrieveAssertionInfo accepts on a path where the validation error is not known to be nil")
			} else if known && !isNil {
				tn, fields, ok := structLitOf(t.Vals[1])
				good := ok && tn == "saml2.ErrVerification" && fields["Cause"] != nil && stripIface(fields["Cause"]).Key() == errv.Key()
				c.check(good, "C03-R3/retrieve-wrap", shortFn(ri.Root), "validation error wrapped in ErrVerification", c.P.InstrPos(t.Instr),
					"returns ErrVerification{Cause: err}", "validation failure is not reported as ErrVerification{Cause: err}: "+ap(t.Vals[1]))
			}
		}
		c.count("C03-R3/retrieve-accepting", n)
		c.floor("C03-R3/retrieve-accepting", 1)
	}
}

// checkExpiry: accept ⇒ the clock was compared with the parsed SCD NotOnOrAfter; the truth table itself is C05's.
func checkExpiry(c *Ctx, rule string, res *Result) {
	fname := shortFn(res.Root)
	for _, t := range res.Terms {
		if !t.accepting(res.Root) || !hasLoopBack(t) {
			continue
		}
		bound := parsedAP(t, scdNOA)
		if mentionsCmp(t, nowAP, bound) {
			c.ok(rule+"/row", fname, "each assertion: clock compared with SubjectConfirmationData.NotOnOrAfter", c.P.InstrPos(t.Instr), "comparison of "+nowAP+" with "+bound)
		} else {
			o := c.bad(rule+"/row", fname, "each assertion: clock compared with SubjectConfirmationData.NotOnOrAfter", c.P.InstrPos(t.Instr),
				"an accepting path never compares the SP clock ("+nowAP+") with the parsed SubjectConfirmationData NotOnOrAfter ("+bound+")")
			o.Path = t.pathDesc(c.P)
		}
	}
}

// validationDominates: every accepting terminal of entry returns an object on which validator(obj) returned nil,
// with no store to obj.Assertions afterwards.
func validationDominates(c *Ctx, rule, entry, validator string, floor int) {
	res := c.kernel(entry, inboundInline...)
	if res == nil {
		return
	}
	fname := shortFn(res.Root)
	n := 0
	for _, t := range res.Terms {
		if !t.accepting(res.Root) {
			continue
		}
		n++
		obj := t.Vals[0]
		pos := c.P.InstrPos(t.Instr)
		var vcall *Event
		for _, e := range t.calls(validator) {
			if len(e.Args) >= 2 && e.Args[1].Key() == obj.Key() {
				vcall = e
			}
		}
		if vcall == nil {
			o := c.bad(rule, fname, "accepting return at "+labelReturn(c, t), pos, "an accepting path returns "+ap(obj)+" without calling "+validator+" on it")
			o.Path = t.pathDesc(c.P)
			continue
		}
		var rv Val
		if len(vcall.Res) > 0 {
			rv = vcall.Res[0]
		}
		isNil, known := false, false
		if rv != nil {
			isNil, known = t.eqFact(rv, nilOf(rv.Type()))
		}
		late := ""
		for _, e := range t.St.events {
			if e.Seq > vcall.Seq && e.Kind == EvStore {
				if fa, ok := e.Addr.(*FieldAddrV); ok && fa.X.Key() == obj.Key() && fa.Name != "SignatureValidated" {
					late = fa.Name
				}
			}
			if e.Seq > vcall.Seq && e.Kind == EvCall && strings.HasSuffix(e.Callee, "xml.Unmarshal") {
				for _, a := range e.Args {
					if stripIface(a).Key() == obj.Key() {
						late = "re-decoded"
					}
				}
			}
		}
		switch {
		case !(known && isNil):
			o := c.bad(rule, fname, "accepting return at "+labelReturn(c, t), pos, "accepts although the result of "+validator+" is not known to be nil on this path")
			o.Path = t.pathDesc(c.P)
		case late != "":
			c.bad(rule, fname, "accepting return at "+labelReturn(c, t), pos, "field "+late+" of the returned object is written after validation")
		default:
			c.ok(rule, fname, "accepting return at "+labelReturn(c, t), pos, validator+"(obj) == nil is the last event on the returned object")
		}
	}
	c.count(rule+"/accepting", n)
	c.floor(rule+"/accepting", floor)
}

// labelReturn names an accepting return by the branch facts that select it (position independent).
func labelReturn(c *Ctx, t *Terminal) string {
	atoms := t.atoms()
	var tags []string
	if atoms["SP.SkipSignatureValidation"] {
		tags = append(tags, "skip")
	}
	if atoms["!(SP.SkipSignatureValidation)"] {
		tags = append(tags, "validate")
	}
	for a := range atoms {
		if strings.Contains(a, "ErrMissingSignature") && !strings.HasPrefix(a, "!(") {
			tags = append(tags, "unsigned-root")
		}
	}
	nIter := 0
	for _, e := range t.St.events {
		if e.Kind == EvIterEnter {
			nIter++
		}
	}
	if nIter > 0 {
		tags = append(tags, fmt.Sprintf("iter%d", nIter))
	}
	if len(tags) == 0 {
		return "default"
	}
	return strings.Join(tags, "+")
}

// inbound validators: inline every helper except the sub-kernels that are analysed on their own
var inboundInline = []string{"*", "-parseResponse", "-(*SAMLServiceProvider).decryptAssertions", "-(*SAMLServiceProvider).Validate",
	"-(*SAMLServiceProvider).ValidateDecodedLogoutResponse", "-(*SAMLServiceProvider).ValidateDecodedLogoutRequest"}

var retrieveInline = []string{"*", "-(*SAMLServiceProvider).ValidateEncodedResponse"}

// ---------------------------------------------------------------- C05

func ruleC05(c *Ctx) {
	c.rule("C05-R1", "comparison truth tables over the three orderings of (SP clock, bound): InvalidTime from NotBefore on '<' only; InvalidTime from Conditions NotOnOrAfter on '=' and '>'; rejection on SubjectConfirmationData NotOnOrAfter on '=' and '>'")
	c.rule("C05-R2", "operands: now = (*dsig.Clock).Now(sp.Clock); bound = time.Parse(RFC3339|RFC3339Nano, <the named field>) with no arithmetic in between")
	c.rule("C05-R3", "no wall clock: zero calls to time.Now/Since/Until in library scope (positive control must fire)")
	c.rule("C05-R4", "missing or unparsable bound => typed error on every path (required-fact table of VerifyAssertionConditions)")
	c.rule("C05-R6", "each assertion's bounds are its own: every verified assertion is decoded into a fresh object (shared appendProvenance, also C01-R2 / C03-R4 / C04-R5 / C08-R4) — encoding/xml merges into existing state, so a reused target makes assertions share Subject / Conditions")
	appendProvenance(c, "C05-R6")
	c.rule("C05-R5", "the warning is computed on element [0] of the validated response; the hard expiry sits in the all-assertions loop")
	c.rule("C05-R8", "the time warning reaches the caller: on every accepting path RetrieveAssertionInfo hands back exactly the WarningInfo that VerifyAssertionConditions returned without error for element [0] (shared with C06-R4)")
	warningInfoSource(c, "C05-R8")
	c.rule("C05-R7", "the hard expiry is evaluated on every acceptance, at this call's clock reading: every accepting path of ValidateEncodedResponse ends with sp.Validate(returned object) == nil (shared validationDominates, also C03-R3) — an object handed back from an earlier call was judged at an earlier instant")
	validationDominates(c, "C05-R7", "(*SAMLServiceProvider).ValidateEncodedResponse", "(*SAMLServiceProvider).Validate", 3)

	// --- hard expiry in Validate
	res := c.kernel("(*SAMLServiceProvider).Validate", "*")
	if res != nil {
		fname := shortFn(res.Root)
		var rel []*Terminal
		for _, t := range res.Terms {
			a := t.atoms()
			if a[parseOK(scdNOA)[0]] || a[parseOK(scdNOA)[1]] {
				rel = append(rel, t)
			}
		}
		c.count("C05-R1/expiry-paths", len(rel))
		c.floor("C05-R1/expiry-paths", 2)
		if len(rel) > 0 {
			bound := parsedAP(rel[0], scdNOA)
			truthTable(c, "C05-R1", fname, "reject on SubjectConfirmationData.NotOnOrAfter", c.P.Pos(res.Root.Pos()), rel, nowAP, bound,
				func(t *Terminal) bool { return true },
				func(t *Terminal) bool { return !t.accepting(res.Root) && !hasLoopBack(t) },
				map[int]bool{-1: false, 0: true, 1: true})
			// typed error on expiry
			for _, t := range rel {
				if t.accepting(res.Root) || hasLoopBack(t) {
					continue
				}
				if msg := matchErr(c, t, t.Vals[0], invVal("NotOnOrAfter", "Expired")); msg != "" {
					c.bad("C05-R1/typed-error", fname, "expiry rejection", c.P.InstrPos(t.Instr), msg)
				} else {
					c.ok("C05-R1/typed-error", fname, "expiry rejection", c.P.InstrPos(t.Instr), ap(t.Vals[0]))
				}
			}
			checkOperands(c, "C05-R2", fname, rel, []string{scdNOA})
		}
	}

	// --- warning in VerifyAssertionConditions
	vc := c.kernel("(*SAMLServiceProvider).VerifyAssertionConditions", "*")
	if vc != nil {
		fname := shortFn(vc.Root)
		rows := []Row{
			{ID: "Conditions present", Alts: []string{"!(A.Conditions == nil)"}, Err: missEl("Conditions")},
			{ID: "Conditions.NotBefore present", Alts: []string{`!(A.Conditions.NotBefore == "")`}, Err: missEl("Conditions", "NotBefore")},
			{ID: "Conditions.NotBefore parses (RFC 3339)", Alts: parseOK("A.Conditions.NotBefore"), Err: &ErrSpec{Type: "saml2.ErrParsing", Fields: map[string][]string{"Tag": {"NotBefore"}}}},
			{ID: "Conditions.NotOnOrAfter present", Alts: []string{`!(A.Conditions.NotOnOrAfter == "")`}, Err: missEl("Conditions", "NotOnOrAfter")},
			{ID: "Conditions.NotOnOrAfter parses (RFC 3339)", Alts: parseOK("A.Conditions.NotOnOrAfter"), Err: &ErrSpec{Type: "saml2.ErrParsing", Fields: map[string][]string{"Tag": {"NotOnOrAfter"}}}},
		}
		guardInventory(c, "C05-R4", vc, rows, nil)
		c.floor("C05-R4/accepting-paths", 4)
		var acc []*Terminal
		for _, t := range vc.Terms {
			if t.accepting(vc.Root) {
				acc = append(acc, t)
			}
		}
		if len(acc) > 0 {
			raisedBy := func(bound string) func(*Terminal) bool {
				return func(t *Terminal) bool {
					for _, e := range storesToField(t, "InvalidTime") {
						if b, ok := constBool(e.Val); !ok || !b {
							continue
						}
						// the guard chain of the store: last facts before it that compare against `bound`
						if g, ok := guardBefore(t, e); ok {
							if tc, ok := isTimeCmpFact(g); ok && (tc.a == bound || tc.b == bound) {
								return true
							}
						}
					}
					return false
				}
			}
			nb := parsedAP(acc[0], "A.Conditions.NotBefore")
			noa := parsedAP(acc[0], "A.Conditions.NotOnOrAfter")
			all := func(t *Terminal) bool { return true }
			_ = all
			_ = raisedBy
			// joint truth table over the 9 orderings of (now vs NotBefore, now vs NotOnOrAfter): the warning is raised
			// exactly when now < NotBefore or now >= NotOnOrAfter. (A per-bound table would misjudge `if early || late`,
			// where the second comparison is not evaluated once the first is true.)
			// decided on the final state of the returned summary (however it was assembled)
			raised := func(t *Terminal) bool {
				b, _ := finalFlag(t, "InvalidTime")
				return b
			}
			for _, o1 := range []int{-1, 0, 1} {
				for _, o2 := range []int{-1, 0, 1} {
					want := o1 < 0 || o2 >= 0
					nT, nD := 0, 0
					for _, t := range acc {
						if !consistent(t, nowAP, nb, o1) || !consistent(t, nowAP, noa, o2) {
							continue
						}
						nT++
						if raised(t) {
							nD++
						}
					}
					key := "InvalidTime @ " + strings.Replace(ordNames[o1], "bound", "NotBefore", 1) + ", " + strings.Replace(ordNames[o2], "bound", "NotOnOrAfter", 1)
					pos := c.P.Pos(vc.Root.Pos())
					switch {
					case nT == 0:
						c.undecided("C05-R1", fname, key, pos, "no accepting path is consistent with this ordering")
					case want && nD == nT:
						c.ok("C05-R1", fname, key, pos, fmt.Sprintf("warning raised on all %d consistent paths", nT))
					case !want && nD == 0:
						c.ok("C05-R1", fname, key, pos, fmt.Sprintf("warning raised on none of %d consistent paths", nT))
					default:
						c.bad("C05-R1", fname, key, pos, fmt.Sprintf("time warning wrong for this ordering: required raised=%v, but it is raised on %d of %d consistent paths", want, nD, nT))
					}
				}
			}
			// both bounds are compared on every accepting path that does not already raise on the first
			for _, t := range acc {
				if !mentionsCmp(t, nowAP, nb) {
					c.bad("C05-R1", fname, "NotBefore compared with the clock", c.P.InstrPos(t.Instr), "an accepting path never compares the clock with Conditions NotBefore")
				}
				if !mentionsCmp(t, nowAP, noa) && !raised(t) {
					c.bad("C05-R1", fname, "NotOnOrAfter compared with the clock", c.P.InstrPos(t.Instr), "an accepting path never compares the clock with Conditions NotOnOrAfter")
				}
			}
			checkOperands(c, "C05-R2", fname, acc, []string{"A.Conditions.NotBefore", "A.Conditions.NotOnOrAfter"})
			// the final value of the flag is a constant on every accepting path (no data-dependent expression)
			for _, t := range acc {
				_, known := finalFlag(t, "InvalidTime")
				c.check(known, "C05-R1/sticky", fname, "WarningInfo.InvalidTime is decided by the comparisons alone", c.P.InstrPos(t.Instr), "constant on the path", "the returned InvalidTime is not a constant of the path (it depends on something other than the clock comparisons)")
			}
		}
	}

	// --- R3: no wall clock
	noWallClock(c, "C05-R3")

	// --- R5: which assertion
	ri := c.kernel("(*SAMLServiceProvider).RetrieveAssertionInfo", retrieveInline...)
	if ri != nil {
		n := 0
		for _, t := range ri.Terms {
			for _, e := range t.calls("(*SAMLServiceProvider).VerifyAssertionConditions") {
				n++
				arg := e.Args[1]
				// &assertion where assertion := response.Assertions[0]
				src := ""
				if strings.HasPrefix(ap(arg), "&") {
					// the element itself, by address
					src = strings.TrimPrefix(ap(arg), "&")
				} else if c0, ok := t.St.heap[arg.Key()]; ok {
					src = ap(c0.val)
				} else {
					for _, se := range t.stores() {
						if se.Addr.Key() == arg.Key() {
							src = ap(se.Val)
						}
					}
				}
				want := "(*SAMLServiceProvider).ValidateEncodedResponse(SP, $encodedResponse)#0.Assertions[0]"
				c.check(src == want, "C05-R5", shortFn(ri.Root), "VerifyAssertionConditions argument", c.P.InstrPos(e.Instr),
					"argument is a copy of "+want, "warning is computed on "+src+", want "+want)
			}
		}
		c.count("C05-R5", n)
		c.floor("C05-R5", 1)
	}
}

// checkOperands: every time comparison on these paths is between nowAP and time.Parse(layout, field)#0 for a listed field.
func checkOperands(c *Ctx, rule, fname string, terms []*Terminal, fields []string) {
	okBound := map[string]bool{}
	for _, f := range fields {
		okBound["time.Parse("+kRFC3339+", "+f+")#0"] = true
		okBound["time.Parse("+kRFC3339N+", "+f+")#0"] = true
	}
	seen := map[string]bool{}
	for _, t := range terms {
		for _, tc := range timeFacts(t) {
			k := tc.op + "(" + tc.a + ", " + tc.b + ")"
			if seen[k] {
				continue
			}
			seen[k] = true
			good := (tc.a == nowAP && okBound[tc.b]) || (tc.b == nowAP && okBound[tc.a])
			if okBound[tc.a] && okBound[tc.b] {
				// two signed bounds compared with each other (no clock involved): what it implies for the outcomes is
				// decided by the truth tables over the orderings that remain consistent
				continue
			}
			c.check(good, rule, fname, "operands of "+tc.op+" on "+strings.Join(fields, "/"), c.P.Pos(terms[0].Fn.Pos()),
				"operands are the SP clock and the RFC 3339 parse of the field: "+k,
				"time comparison with modified or foreign operands: "+k+" (want "+nowAP+" against time.Parse(RFC3339, field))")
		}
	}
	c.count(rule+"/comparisons", len(seen))
}

func noWallClock(c *Ctx, rule string) {
	banned := map[string]bool{"time.Now": true, "time.Since": true, "time.Until": true}
	n := scanCalls(c.P, c.P.LibFns, func(fnName string) bool { return banned[fnName] }, func(site callSite) {
		if site.Callee == "time.Now" && underNilClock(site.Instr) {
			// the nil clock's own definition written out: (*dsig.Clock)(nil).Now() is time.Now()
			c.ok(rule, shortFn(site.Caller), "call "+site.Callee, c.P.InstrPos(site.Instr), "only on the branch where the injected clock is nil, for which the clock itself reads the wall clock")
			return
		}
		// a stopwatch: a wall-clock reading whose only use is to be subtracted from a later one (time.Since / Sub), the
		// duration going wherever it goes — no instant of a message is ever compared with it
		stopwatchProg = c.P
		if ci, ok := site.Instr.(*ssa.Call); ok {
			if site.Callee == "time.Now" && onlyStopwatchUses(ci, 0, map[ssa.Value]bool{}) {
				c.ok(rule, shortFn(site.Caller), "call "+site.Callee, c.P.InstrPos(site.Instr), "stopwatch start: the reading only flows into time.Since / Sub")
				return
			}
			if site.Callee == "time.Since" && len(ci.Call.Args) == 1 && fromStopwatchStart(c.P, ci.Call.Args[0], 0, map[ssa.Value]bool{}) {
				c.ok(rule, shortFn(site.Caller), "call "+site.Callee, c.P.InstrPos(site.Instr), "stopwatch stop: the operand is a wall-clock reading taken earlier by the library itself")
				return
			}
		}
		c.bad(rule, shortFn(site.Caller), "call "+site.Callee, c.P.InstrPos(site.Instr), "library code reads the wall clock ("+site.Callee+") instead of the injected SP clock")
	})
	if n == 0 {
		c.trivial(rule, "library", "no time.Now/Since/Until", "-", fmt.Sprintf("%d library functions scanned", len(c.P.LibFns)))
	}
	// positive control
	ctl := controlFns(c, "wallclock")
	fired := 0
	scanCalls(c.P, ctl, func(fnName string) bool { return banned[fnName] }, func(site callSite) { fired++ })
	c.Controls[rule+" wallclock"] = fired > 0
	if fired == 0 {
		c.bad(rule, "controls/wallclock", "positive control", "-", "the matcher did not flag the control package that calls time.Now (matcher dead)")
	}
}

// ---------------------------------------------------------------- C06

func ruleC06(c *Ctx) {
	c.rule("C06-R1", "NotInAudience is stored true exactly on generic outer iterations whose inner loop over that restriction's Audiences is exhausted without an exact match; never on the zero-restriction path; both loops range over the full field slices")
	c.rule("C06-R2", "the match atom is a plain string == between audience.Value and sp.AudienceURI (no transformation of either operand)")
	c.rule("C06-R5", "the warnings mirror the FIRST assertion's own conditions: every verified assertion is decoded into a fresh object (shared appendProvenance) — a reused target makes Assertions[0] carry the union of all assertions' restrictions")
	appendProvenance(c, "C06-R5")
	c.rule("C06-R3", "OneTimeUse stored true exactly under Conditions.OneTimeUse != nil; ProxyRestriction allocated exactly under Conditions.ProxyRestriction != nil with Count copied and Audience accumulated in order from an empty non-nil slice")
	nArg := shareFrom(c, "C06-R4", ruleC05, func(o *Obligation) bool {
		return o.Rule == "C05-R5" && strings.Contains(o.Key, "VerifyAssertionConditions argument")
	})
	c.count("C06-R4/argument", nArg)
	c.floor("C06-R4/argument", 1)
	c.rule("C06-R4", "RetrieveAssertionInfo stores the WarningInfo returned by VerifyAssertionConditions on element [0] and nothing else")
	vc := c.kernel("(*SAMLServiceProvider).VerifyAssertionConditions", "*")
	if vc == nil {
		return
	}
	fname := shortFn(vc.Root)
	AR := "A.Conditions.AudienceRestrictions"
	AU := AR + "[*].Audiences"
	matchAtom := AU + "[*].Value == SP.AudienceURI"
	nStore, nMatch, nZero, nSticky := 0, 0, 0, 0
	// what one iteration inherits from the earlier ones: the field itself when it is written inside the loop, or the
	// header phi of a local that flows into the field
	accKeys := accumulatorPhis(vc.Root, "NotInAudience")
	carriedFlag := func(v Val) bool {
		switch x := v.(type) {
		case *UnknownV:
			return strings.HasPrefix(x.Why, "loop-carried ") && strings.HasSuffix(x.Why, ".NotInAudience")
		case *LoopPhiV:
			return accKeys[phiSuffix(x.Key())]
		}
		return false
	}
	for _, t := range vc.Terms {
		if !t.accepting(vc.Root) {
			continue
		}
		atoms := t.atoms()
		pos := c.P.InstrPos(t.Instr)
		// the final flag is a constant of the path, or what earlier restrictions left (the loop-carried content)
		stored, known := finalFlag(t, "NotInAudience")
		unchanged := false
		if fv, fst := t.finalFieldState(t.Vals[0], "NotInAudience"); !known && fst == "stored" && carriedFlag(fv) {
			unchanged = true
		}
		if known {
			// a constant equal to what the path knows about the loop-carried content is "unchanged" too
			sawCarried := false
			for _, f := range t.St.facts {
				if carriedFlag(f.Cond) {
					sawCarried = true
					if f.Pol == stored {
						unchanged = true
					}
				}
			}
			// the flag is accumulated in a local of the restriction loop, the path is inside a generic iteration and has
			// replaced what earlier iterations left by a constant without looking at it
			if enter := loopEnterOver(c, t, AR); enter != nil && !sawCarried && atoms[matchAtom] {
				for _, pi := range enter.Phis {
					if accKeys[phiSuffix(pi.Key)] && !stored {
						o := c.bad("C06-R1", fname, "a matching restriction leaves the flag as earlier restrictions left it", pos, "the flag accumulated across the restrictions ("+pi.Key+") is overwritten with false on a matching restriction without having been read: the last restriction decides instead of all of them")
						o.Path = t.pathDesc(c.P)
					}
				}
			}
		}
		if !known && !unchanged {
			c.bad("C06-R1", fname, "WarningInfo.NotInAudience is decided by the audience comparisons alone", pos, "the returned NotInAudience is not a constant of the path")
		}
		// any fact mentioning an audience value must be the exact match atom
		for a := range atoms {
			if strings.Contains(a, "Audiences[*].Value") || strings.Contains(a, "SP.AudienceURI") {
				if a != matchAtom && a != negAtom(matchAtom) {
					c.bad("C06-R2", fname, "audience comparison", pos, "audience decided by ["+a+"], want the exact comparison ["+matchAtom+"]")
				} else {
					c.ok("C06-R2", fname, "audience comparison", pos, "exact == on untransformed operands")
				}
			}
		}
		// restrictions are conjunctive: a warning raised by one restriction is never lowered by another
		if enter := loopEnterOver(c, t, AR); enter != nil {
			nSticky += stickyFlag(c, "C06-R1", t, fname, "NotInAudience", enter)
		}
		outer, inner := loopShapeOf(atoms, AR), loopShapeOf(atoms, AU)
		outerZero, outerGen := outer.Zero, outer.Gen
		innerZero, innerGen, innerExhausted := inner.Zero, inner.Gen, inner.Exhausted
		matched := atoms[matchAtom]
		noMatch := atoms[negAtom(matchAtom)]
		switch {
		case outerZero && !outerGen:
			nZero++
			c.check(!stored, "C06-R1", fname, "no restriction => no warning", pos, "zero-restriction path stores nothing", "NotInAudience raised although the assertion has no AudienceRestriction")
		case outerGen && matched && !noMatch:
			nMatch++
			c.check(!stored || unchanged, "C06-R1", fname, "restriction with a matching audience => no warning from it", pos, "matching path leaves the flag as earlier restrictions left it", "NotInAudience raised for a restriction that contains the configured audience")
		case outerGen && (innerZero || (innerGen && noMatch && innerExhausted)) && !matched:
			nStore++
			c.check(stored && known, "C06-R1", fname, "restriction without matching audience => warning", pos, "exhausted inner loop stores true", "a restriction none of whose audiences matches does not raise NotInAudience")
		default:
			o := c.undecided("C06-R1", fname, "audience loop shape", pos, "path through the audience loops is not one of {no restriction, matched, exhausted-without-match}")
			o.Path = t.pathDesc(c.P)
		}
	}
	c.count("C06-R1/no-match-paths", nStore)
	c.count("C06-R1/match-paths", nMatch)
	c.count("C06-R1/zero-paths", nZero)
	c.floor("C06-R1/no-match-paths", 2)
	c.floor("C06-R1/match-paths", 1)
	c.floor("C06-R1/zero-paths", 1)
	c.count("C06-R1/stores-inside-restriction-loop", nSticky)
	// no such store exists today (the flag is stored after the loop has been left): positive control
	ctlFired := 0
	for _, fn := range controlFns(c, "lastwins") {
		res := c.intraKernel(fn)
		if res == nil {
			continue
		}
		sub := NewCtx(c.P, c.Prop, c.Tier)
		for _, t := range res.Terms {
			if t.Kind != "return" {
				continue
			}
			for _, e := range t.St.events {
				if g, isB := constBool(e.Val); e.Kind == EvLoopEnter && isB && g {
					stickyFlag(sub, "C06-R1", t, shortFn(fn), "Flag", e)
					break
				}
			}
		}
		for _, o := range sub.Obs {
			if o.Status == "violated" {
				ctlFired++
			}
		}
	}
	c.Controls["C06-R1 lastwins"] = ctlFired > 0
	if ctlFired == 0 {
		c.bad("C06-R1", "controls/lastwins", "positive control", "-", "the sticky-flag rule did not flag the control in which the last group decides")
	}

	// R3
	nOTU, nPR := 0, 0
	for _, t := range vc.Terms {
		// the warnings exist for any signed value: no allocation on the way is sized by one (a negative or huge Count
		// would make the run-time panic instead of producing the summary)
		for _, e := range t.St.events {
			if e.Kind == EvMakeSlice {
				if ok, why := makeSizeSafe(t, e); !ok {
					c.bad("C06-R3", fname, "allocation sized independently of signed values", c.P.InstrPos(e.Instr), "an allocation while computing the warnings can panic for some assertions: "+why)
				}
			}
		}
		if !t.accepting(vc.Root) {
			continue
		}
		atoms := t.atoms()
		pos := c.P.InstrPos(t.Instr)
		otu, otuKnown := finalFlag(t, "OneTimeUse")
		otuExpr := false
		if !otuKnown {
			// the flag may also be assigned the presence test itself
			if fv, st := t.finalFieldState(t.Vals[0], "OneTimeUse"); st == "stored" {
				if v := ap(fv); v == "(A.Conditions.OneTimeUse != nil)" || v == "!(A.Conditions.OneTimeUse == nil)" {
					otuExpr = true
				} else {
					c.bad("C06-R3", fname, "store WarningInfo.OneTimeUse", pos, "OneTimeUse is "+ap(fv))
				}
			}
		}
		present := atoms["!(A.Conditions.OneTimeUse == nil)"]
		absent := atoms["A.Conditions.OneTimeUse == nil"]
		if otuExpr {
			nOTU++
			c.ok("C06-R3", fname, "OneTimeUse <=> condition present", pos, "flag assigned the presence test (conditions.OneTimeUse != nil)")
		} else if present || absent {
			nOTU++
			c.check(otu == present, "C06-R3", fname, "OneTimeUse <=> condition present", pos, "flag mirrors presence", fmt.Sprintf("OneTimeUse warning=%v although condition present=%v", otu, present))
		} else {
			c.bad("C06-R3", fname, "OneTimeUse <=> condition present", pos, "path does not test Conditions.OneTimeUse for nil")
		}
		// proxy restriction: decided on the final state of the returned summary, whatever statements built it
		prPresent := atoms["!(A.Conditions.ProxyRestriction == nil)"]
		prAbsent := atoms["A.Conditions.ProxyRestriction == nil"]
		if !(prPresent || prAbsent) {
			c.bad("C06-R3", fname, "ProxyRestriction <=> condition present", pos, "path does not test Conditions.ProxyRestriction for nil")
			continue
		}
		nPR++
		prv, state := t.finalFieldState(t.Vals[0], "ProxyRestriction")
		isAbsent := state == "zero" || (state == "stored" && isNilConst(prv))
		if prAbsent {
			c.check(isAbsent, "C06-R3", fname, "no ProxyRestriction condition => summary absent", pos, "summary is nil", "a ProxyRestriction summary ("+apOrNone(prv)+") is produced without the condition")
			continue
		}
		if isAbsent || state != "stored" {
			c.bad("C06-R3", fname, "ProxyRestriction condition => summary present", pos, "condition present but the summary is "+state+" "+apOrNone(prv))
			continue
		}
		obj := prv
		cnt, _ := t.finalField(obj, "Count")
		c.check(cnt != nil && ap(cnt) == "A.Conditions.ProxyRestriction.Count", "C06-R3", fname, "ProxyRestriction.Count copied", pos, "Count <- signed Count", "Count is "+apOrNone(cnt)+", want A.Conditions.ProxyRestriction.Count")
		aud, _ := t.finalField(obj, "Audience")
		src := "A.Conditions.ProxyRestriction.Audience"
		ok, nonNil, why := accumulated(t, atoms, aud, src, src+"[*].Value")
		c.check(ok, "C06-R3", fname, "ProxyRestriction.Audience accumulate", pos, "every signed audience value appended once, in order, loop left by exhaustion", "audience list not reproduced in order: "+why)
		c.check(nonNil, "C06-R3", fname, "ProxyRestriction.Audience initialised empty non-nil", pos, "starts from an empty non-nil slice", "the list does not start from an empty non-nil slice: "+why)
	}
	c.count("C06-R3/otu-paths", nOTU)
	c.floor("C06-R3/otu-paths", 4)
	c.count("C06-R3/proxy-paths", nPR)
	c.floor("C06-R3/proxy-paths", 4)

	// R4
	warningInfoSource(c, "C06-R4")
}

// accumulatorPhis: the boolean loop-header phis of fn whose value flows (through phis only) into a store to the named
// field — a flag kept in a local across iterations. Keys are "b<header index>.<phi name>" (see phiSuffix).
func accumulatorPhis(fn *ssa.Function, field string) map[string]bool {
	out := map[string]bool{}
	loops := findLoops(fn)
	seen := map[ssa.Value]bool{}
	var trace func(v ssa.Value)
	trace = func(v ssa.Value) {
		p, ok := v.(*ssa.Phi)
		if !ok || seen[v] {
			return
		}
		seen[v] = true
		if loops[p.Block()] != nil && isBoolType(p.Type()) {
			out[fmt.Sprintf("b%d.%s", p.Block().Index, p.Name())] = true
		}
		for _, e := range p.Edges {
			trace(e)
		}
	}
	for _, b := range fn.Blocks {
		for _, in := range b.Instrs {
			st, ok := in.(*ssa.Store)
			if !ok {
				continue
			}
			fa, ok := st.Addr.(*ssa.FieldAddr)
			if !ok {
				continue
			}
			if owner, _ := derefStruct(fa.X.Type()); owner != nil {
				if stt, isS := owner.Underlying().(*types.Struct); isS && fa.Field < stt.NumFields() && stt.Field(fa.Field).Name() == field {
					trace(st.Val)
				}
			}
		}
	}
	return out
}

// phiSuffix: "b<header index>.<phi name>" of a loop-phi key "loopphi(<ctx>/loop.<fn>:b<idx>.<name>)".
func phiSuffix(key string) string {
	i := strings.LastIndex(key, ":b")
	if i < 0 || !strings.HasSuffix(key, ")") {
		return ""
	}
	return key[i+1 : len(key)-1]
}

// loopEnterOver: the loop-enter event of the generic iteration whose induction variable the path compares with len(coll).
func loopEnterOver(c *Ctx, t *Terminal, coll string) *Event {
	want := "len(" + coll + ")"
	var findPhi func(v Val) *LoopPhiV
	findPhi = func(v Val) *LoopPhiV {
		switch x := v.(type) {
		case *LoopPhiV:
			return x
		case *BinV:
			if p := findPhi(x.X); p != nil {
				return p
			}
			return findPhi(x.Y)
		}
		return nil
	}
	for _, f := range t.St.facts {
		b, ok := f.Cond.(*BinV)
		if !ok || ap(b.Y) != want {
			continue
		}
		lp := findPhi(b.X)
		if lp == nil {
			continue
		}
		for _, e := range t.St.events {
			if e.Kind == EvLoopEnter && e.Callee == lp.Loop {
				if g, isB := constBool(e.Val); isB && g {
					return e
				}
			}
		}
	}
	return nil
}

// stickyFlag: every store to the returned object's boolean field after the loop was entered stores true or leaves the
// value an earlier iteration left there (the loop-carried content itself, or false on a path that knows that content is
// false). Returns the number of stores looked at.
func stickyFlag(c *Ctx, rule string, t *Terminal, fname, field string, enter *Event) int {
	if len(t.Vals) == 0 {
		return 0
	}
	obj := t.Vals[0]
	carried := func(v Val) bool {
		u, ok := v.(*UnknownV)
		return ok && strings.HasPrefix(u.Why, "loop-carried ") && strings.HasSuffix(u.Why, "."+field)
	}
	// the iteration ends at the loop-exit event; a store after it (store-then-break, or the final assignment of a flag kept
	// in a local) is judged by the path classes
	exitSeq := len(t.St.events) + 1
	for _, e := range t.St.events {
		if e.Kind == EvLoopExit && e.Callee == enter.Callee && e.Seq > enter.Seq {
			exitSeq = e.Seq
			break
		}
	}
	n := 0
	for _, e := range t.St.events {
		if e.Kind != EvStore || e.Seq <= enter.Seq || e.Seq >= exitSeq {
			continue
		}
		fa, ok := e.Addr.(*FieldAddrV)
		if !ok || fa.Name != field || fa.X.Key() != obj.Key() {
			continue
		}
		n++
		pos := c.P.InstrPos(e.Instr)
		what := "store to " + field + " inside the restriction loop keeps an earlier restriction's warning"
		b, isConst := constBool(e.Val)
		if _, isU := e.Val.(*UnknownV); !isConst && !isU && isBoolType(e.Val.Type()) {
			b, isConst = t.factTrue(e.Val) // a stored comparison the path has decided
		}
		switch {
		case isConst && b:
			c.ok(rule, fname, what, pos, "stores true")
		case carried(e.Val):
			c.ok(rule, fname, what, pos, "stores the loop-carried value back")
		case isConst && !b && func() bool {
			for _, f := range t.St.facts {
				if carried(f.Cond) && !f.Pol && f.Seq <= e.Seq {
					return true
				}
			}
			return false
		}():
			c.ok(rule, fname, what, pos, "stores false on a path where the loop-carried value is false")
		default:
			o := c.bad(rule, fname, what, pos, field+" is set to "+ap(e.Val)+" inside the loop over the restrictions: a restriction that matches (or is visited later) clears the warning an earlier restriction raised, so the last restriction decides instead of all of them")
			o.Path = t.pathDesc(c.P)
		}
	}
	return n
}

// accumulated: is v "the values elem of collection src, in order"? On the zero-iteration path v is an empty slice;
// on the generic-iteration path v is append(carried, elem) with the loop over src left by exhaustion, where carried is
// the loop-carried content of the very location the append is stored to (a field or a local), and that location was
// initialised — before the loop — with an empty slice. nonNil reports whether that initial slice is non-nil.
func accumulated(t *Terminal, atoms map[string]bool, v Val, src, elem string) (ok bool, nonNil bool, why string) {
	if v == nil {
		return false, false, "no value"
	}
	ls := loopShapeOf(atoms, src)
	// a slice made with len(src) before the loop and filled by index, once per iteration (summarised by the engine)
	if a, isA := v.(*AllocV); isA && a.Comment == "makeslice" {
		if c, has := t.St.heap["slicecomp:"+a.Key()]; has {
			v = c.val
		}
	}
	emptyNonNil := func(x Val) (empty, nn bool) {
		if isNilConst(x) {
			return true, false
		}
		if isEmptySliceValT(t, x) {
			return true, true
		}
		// make([]T, len(src)) on a path where src is known to be empty
		if a, isA := x.(*AllocV); isA && a.Comment == "makeslice" && ls.Zero {
			if c, has := t.St.heap["len:"+a.Key()]; has && ap(c.val) == "len("+src+")" {
				return true, true
			}
		}
		return false, false
	}
	if m, isMap := v.(*MapV); isMap {
		// the engine has already established: exhaustive index-order loop over Coll, one append per iteration, empty start
		if ap(m.Coll) != src || ap(m.Elem) != elem {
			return false, m.NonNil, "list is " + ap(v) + ", want [" + elem + " for " + src + "]"
		}
		return true, m.NonNil, ""
	}
	if app, isApp := v.(*AppendV); isApp {
		if !ls.Gen || !ls.Exhausted {
			return false, false, "append outside an exhaustive loop over " + src + ": " + ap(v)
		}
		if len(app.Elems) != 1 || app.Spread || ap(app.Elems[0]) != elem {
			return false, false, "appends " + ap(v) + ", want one " + elem + " per iteration"
		}
		// carried in a register: a loop-header phi whose entry value is the empty slice
		if lp, isPhi := app.S.(*LoopPhiV); isPhi {
			for _, e := range t.St.events {
				if e.Kind != EvLoopEnter {
					continue
				}
				for _, pi := range e.Phis {
					if pi.Key == lp.Key() {
						em, nn := emptyNonNil(pi.Init)
						if !em {
							return false, false, "the list starts as " + ap(pi.Init)
						}
						return true, nn, ""
					}
				}
			}
			return false, false, "loop-carried list without a recorded entry value"
		}
		// the location carrying the list across iterations
		u, isU := app.S.(*UnknownV)
		if !isU || !strings.HasPrefix(u.Why, "loop-carried ") {
			return false, false, "append does not extend the list carried around the loop: " + ap(app.S)
		}
		loc := strings.TrimPrefix(u.Why, "loop-carried ")
		inits := 0
		for _, e := range t.St.events {
			if e.Kind != EvStore || lvalKey(e.Addr) != loc {
				continue
			}
			if a2, isA := e.Val.(*AppendV); isA {
				if a2.S.Key() != app.S.Key() {
					return false, false, "a second, different append into " + loc
				}
				continue
			}
			em, nn := emptyNonNil(e.Val)
			if !em {
				return false, false, loc + " is also assigned " + ap(e.Val)
			}
			inits++
			nonNil = nn
		}
		if inits == 0 {
			return false, false, loc + " is never initialised"
		}
		return true, nonNil, ""
	}
	// no iteration happened on this path
	em, nn := emptyNonNil(v)
	if !em {
		return false, false, "value is " + ap(v)
	}
	if !ls.Zero && ls.Gen {
		return false, nn, "the loop over " + src + " ran but nothing was appended"
	}
	if !ls.Zero && !ls.Gen {
		return false, nn, "the signed list " + src + " is never iterated"
	}
	return true, nn, ""
}

// finalFlag: final value of boolean field <name> of the object returned by t. known=false when it is not a constant of
// the path; an untouched field of a fresh allocation is false.
func finalFlag(t *Terminal, name string) (val bool, known bool) {
	if len(t.Vals) == 0 {
		return false, false
	}
	v, st := t.finalFieldState(t.Vals[0], name)
	switch st {
	case "zero":
		return false, true
	case "stored":
		if b, ok := constBool(v); ok {
			return b, true
		}
		// a stored comparison the path has decided
		if isBoolType(v.Type()) {
			if _, isU := v.(*UnknownV); !isU {
				return t.factTrue(v)
			}
		}
	}
	return false, false
}

// warningInfoSource: on every accepting path RetrieveAssertionInfo hands back exactly what VerifyAssertionConditions
// returned, and that call returned no error (C06-R4, shared as C05-R8).
func warningInfoSource(c *Ctx, rule string) {
	ri := c.kernel("(*SAMLServiceProvider).RetrieveAssertionInfo", retrieveInline...)
	if ri != nil {
		n := 0
		for _, t := range ri.Terms {
			if !t.accepting(ri.Root) {
				continue
			}
			n++
			wi, ok := t.finalField(t.Vals[0], "WarningInfo")
			// the value returned (first result) by the inlined VerifyAssertionConditions on this very path
			good := false
			var vac *Event
			for _, e := range t.St.events {
				if e.Kind == EvExit && shortName(e.Callee) == "(*SAMLServiceProvider).VerifyAssertionConditions" && len(e.Res) > 0 {
					vac = e
					if ok && e.Res[0].Key() == wi.Key() {
						good = true
					}
				}
			}
			c.check(good, rule, shortFn(ri.Root), "AssertionInfo.WarningInfo source", c.P.InstrPos(t.Instr), "WarningInfo <- VerifyAssertionConditions(...)#0", "WarningInfo is "+apOrNone(wi))
			// ... and that call succeeded: a result handed back together with an error is cut short before the audience,
			// one-time-use and proxy conditions were looked at
			errNil := false
			if vac != nil && len(vac.Res) == 2 {
				if isNilConst(vac.Res[1]) {
					errNil = true
				} else if isNil, known := t.eqFact(vac.Res[1], nilOf(vac.Res[1].Type())); known && isNil {
					errNil = true
				}
			}
			c.check(errNil, rule, shortFn(ri.Root), "accepts only when the conditions check returned no error", c.P.InstrPos(t.Instr), "VerifyAssertionConditions(...)#1 == nil on the path", "RetrieveAssertionInfo accepts on a path where VerifyAssertionConditions returned an error: the warnings are a partial result")
		}
		c.count(rule, n)
		c.floor(rule, 1)
	}
}

// underNilClock: the instruction is dominated by the true edge of `<x>.Clock == nil` (or the false edge of `!= nil`).
func underNilClock(in ssa.Instruction) bool {
	b := in.Block()
	for d := b.Idom(); d != nil; d = d.Idom() {
		if len(d.Instrs) == 0 || len(d.Succs) != 2 {
			continue
		}
		ifi, ok := d.Instrs[len(d.Instrs)-1].(*ssa.If)
		if !ok {
			continue
		}
		cmp, ok := ifi.Cond.(*ssa.BinOp)
		if !ok || (cmp.Op != token.EQL && cmp.Op != token.NEQ) {
			continue
		}
		x, y := cmp.X, cmp.Y
		if c, isC := x.(*ssa.Const); isC && c.IsNil() {
			x, y = y, x
		}
		if c, isC := y.(*ssa.Const); !isC || !c.IsNil() {
			continue
		}
		ld, ok := x.(*ssa.UnOp)
		if !ok || ld.Op != token.MUL {
			continue
		}
		fa, ok := ld.X.(*ssa.FieldAddr)
		if !ok {
			continue
		}
		st, ok := derefStruct(fa.X.Type())
		if !ok || st.Underlying().(*types.Struct).Field(fa.Field).Name() != "Clock" {
			continue
		}
		edge := d.Succs[0]
		if cmp.Op == token.NEQ {
			edge = d.Succs[1]
		}
		if len(edge.Preds) == 1 && (edge == b || edge.Dominates(b)) {
			return true
		}
	}
	return false
}


// onlyStopwatchUses: every use of the time value v is an operand of time.Since / (time.Time).Sub, or a move (store into
// a local variable, capture by a closure, phi) whose every read is again such a use.
var stopwatchProg *Prog

func onlyStopwatchUses(v ssa.Value, depth int, seen map[ssa.Value]bool) bool {
	if depth > 6 {
		return false
	}
	if seen[v] {
		return true
	}
	seen[v] = true
	refs := v.Referrers()
	if refs == nil {
		return false
	}
	for _, r := range *refs {
		switch x := r.(type) {
		case *ssa.DebugRef:
		case *ssa.Call, *ssa.Defer, *ssa.Go:
			_ = x
			ci := r.(ssa.CallInstruction)
			n, callee := calleeName(ci.Common())
			if callee != nil && stopwatchProg != nil && stopwatchProg.inModule(callee) && callee.Blocks != nil && !ci.Common().IsInvoke() {
				// handed to a module helper: its parameter must be a stopwatch operand too
				for i, a := range ci.Common().Args {
					if a == v && (i >= len(callee.Params) || !onlyStopwatchUses(callee.Params[i], depth+1, seen)) {
						return false
					}
				}
				continue
			}
			if _, isCall := r.(*ssa.Call); !isCall {
				return false
			}
			switch n {
			case "time.Since":
			case "(time.Time).Sub":
				// a difference of two wall-clock readings — not "now minus an instant of the message"
				for _, a := range ci.Common().Args {
					if a != v && !fromStopwatchStart(stopwatchProg, a, 0, map[ssa.Value]bool{}) {
						return false
					}
				}
			default:
				return false
			}
		case *ssa.Phi:
			if !onlyStopwatchUses(x, depth+1, seen) {
				return false
			}
		case *ssa.Store:
			if x.Val != v {
				return false
			}
			// into a local variable (possibly captured by reference): all loads of it must be stopwatch uses
			al, ok := x.Addr.(*ssa.Alloc)
			if !ok {
				return false
			}
			if !cellOnlyStopwatch(al, depth+1, seen) {
				return false
			}
		case *ssa.MakeClosure:
			// captured by value: the corresponding free variable of the closure
			fn, _ := x.Fn.(*ssa.Function)
			if fn == nil {
				return false
			}
			for i, b := range x.Bindings {
				if b == v && i < len(fn.FreeVars) {
					if !onlyStopwatchUses(fn.FreeVars[i], depth+1, seen) {
						return false
					}
				}
			}
		default:
			return false
		}
	}
	return true
}

// cellOnlyStopwatch: the variable cell (an Alloc, or a free variable that is a pointer to one) is only stored to and
// loaded for stopwatch uses.
func cellOnlyStopwatch(cell ssa.Value, depth int, seen map[ssa.Value]bool) bool {
	if depth > 6 {
		return false
	}
	if seen[cell] {
		return true
	}
	seen[cell] = true
	refs := cell.Referrers()
	if refs == nil {
		return false
	}
	for _, r := range *refs {
		switch x := r.(type) {
		case *ssa.DebugRef:
		case *ssa.Store:
			if x.Addr != cell {
				return false
			}
		case *ssa.UnOp:
			if x.Op != token.MUL || !onlyStopwatchUses(x, depth+1, seen) {
				return false
			}
		case *ssa.MakeClosure:
			fn, _ := x.Fn.(*ssa.Function)
			if fn == nil {
				return false
			}
			for i, b := range x.Bindings {
				if b == cell && i < len(fn.FreeVars) {
					if !cellOnlyStopwatch(fn.FreeVars[i], depth+1, seen) {
						return false
					}
				}
			}
		default:
			return false
		}
	}
	return true
}

// fromStopwatchStart: v is a reading of time.Now() taken by the library (directly, through a local variable, a closure
// capture, or a parameter that receives only such readings at every call site).
func fromStopwatchStart(p *Prog, v ssa.Value, depth int, seen map[ssa.Value]bool) bool {
	if depth > 6 || v == nil {
		return false
	}
	if seen[v] {
		return true
	}
	seen[v] = true
	switch x := v.(type) {
	case *ssa.Call:
		n, _ := calleeName(x.Common())
		return n == "time.Now"
	case *ssa.Phi:
		for _, e := range x.Edges {
			if !fromStopwatchStart(p, e, depth+1, seen) {
				return false
			}
		}
		return len(x.Edges) > 0
	case *ssa.UnOp:
		if x.Op != token.MUL {
			return false
		}
		return cellFromStopwatch(p, x.X, depth+1, seen)
	case *ssa.FreeVar:
		// captured by value
		return freeVarBindings(x, func(b ssa.Value) bool { return fromStopwatchStart(p, b, depth+1, seen) })
	case *ssa.Parameter:
		fn := x.Parent()
		idx := -1
		for i, q := range fn.Params {
			if q == x {
				idx = i
			}
		}
		cs := p.callerIndex()[fn]
		if idx < 0 || len(cs) == 0 || isPublicFn(fn) {
			return false
		}
		for cc := range cs {
			for _, b := range cc.Blocks {
				for _, in := range b.Instrs {
					call, ok := in.(ssa.CallInstruction)
					if !ok || call.Common().StaticCallee() != fn {
						continue
					}
					if idx >= len(call.Common().Args) || !fromStopwatchStart(p, call.Common().Args[idx], depth+1, seen) {
						return false
					}
				}
			}
		}
		return true
	}
	return false
}

func cellFromStopwatch(p *Prog, cell ssa.Value, depth int, seen map[ssa.Value]bool) bool {
	switch c := cell.(type) {
	case *ssa.Alloc:
		n := 0
		if refs := c.Referrers(); refs != nil {
			for _, r := range *refs {
				if st, ok := r.(*ssa.Store); ok && st.Addr == cell {
					n++
					if !fromStopwatchStart(p, st.Val, depth+1, seen) {
						return false
					}
				}
			}
		}
		return n > 0
	case *ssa.FreeVar:
		return freeVarBindings(c, func(b ssa.Value) bool { return cellFromStopwatch(p, b, depth+1, seen) })
	case *ssa.FieldAddr:
		// a field of a local stopwatch struct: every store to that field in the function is a reading
		if al, ok := c.X.(*ssa.Alloc); ok {
			n := 0
			if refs := al.Referrers(); refs != nil {
				for _, r := range *refs {
					if fa, ok := r.(*ssa.FieldAddr); ok && fa.Field == c.Field {
						if frefs := fa.Referrers(); frefs != nil {
							for _, fr := range *frefs {
								if st, ok := fr.(*ssa.Store); ok && st.Addr == ssa.Value(fa) {
									n++
									if !fromStopwatchStart(p, st.Val, depth+1, seen) {
										return false
									}
								}
							}
						}
					}
				}
			}
			return n > 0
		}
	}
	return false
}

// freeVarBindings applies ok to what every MakeClosure of the free variable's function binds to it.
func freeVarBindings(fv *ssa.FreeVar, ok func(ssa.Value) bool) bool {
	fn := fv.Parent()
	idx := -1
	for i, q := range fn.FreeVars {
		if q == fv {
			idx = i
		}
	}
	parent := fn.Parent()
	if idx < 0 || parent == nil {
		return false
	}
	n := 0
	for _, b := range parent.Blocks {
		for _, in := range b.Instrs {
			if mc, isMC := in.(*ssa.MakeClosure); isMC && mc.Fn == ssa.Value(fn) && idx < len(mc.Bindings) {
				n++
				if !ok(mc.Bindings[idx]) {
					return false
				}
			}
		}
	}
	return n > 0
}
