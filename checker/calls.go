package main

import (
	"fmt"
	"go/token"
	"go/types"
	"os"
	"strings"

	"golang.org/x/tools/go/ssa"
)

func (en *Engine) callArgs(st *State, fr *Frame, c *ssa.CallCommon) (name string, callee *ssa.Function, bindings []Val, args []Val, dynamic bool) {
	if c.IsInvoke() {
		recv := en.eval(st, fr, c.Value)
		// devirtualise: the interface value was made on this path from a value of known concrete type
		if mi, ok := recv.(*MakeIfaceV); ok && mi.X != nil && mi.Dyn != nil {
			if sel := en.P.SSA.MethodSets.MethodSet(mi.Dyn).Lookup(c.Method.Pkg(), c.Method.Name()); sel == nil {
				// the conversion to the named type that carries the method was transparent: stay symbolic
			} else if m := en.P.SSA.MethodValue(sel); m != nil {
				args = append(args, mi.X)
				for _, a := range c.Args {
					args = append(args, en.eval(st, fr, a))
				}
				return m.String(), m, nil, args, false
			}
		}
		args = append(args, recv)
		for _, a := range c.Args {
			args = append(args, en.eval(st, fr, a))
		}
		name = "(" + types.TypeString(c.Value.Type(), nil) + ")." + c.Method.Name()
		return name, nil, nil, args, false
	}
	for _, a := range c.Args {
		args = append(args, en.eval(st, fr, a))
	}
	switch v := c.Value.(type) {
	case *ssa.Builtin:
		return "builtin:" + v.Name(), nil, nil, args, false
	case *ssa.Function:
		return v.String(), v, nil, args, false
	case *ssa.MakeClosure:
		fn := v.Fn.(*ssa.Function)
		for _, b := range v.Bindings {
			bindings = append(bindings, en.eval(st, fr, b))
		}
		return fn.String(), fn, bindings, args, false
	}
	fv := en.eval(st, fr, c.Value)
	if cl, ok := fv.(*ClosureV); ok {
		return cl.Fn.String(), cl.Fn, cl.Bindings, args, false
	}
	return "dynamic:" + fv.Key(), nil, nil, append([]Val{fv}, args...), true
}

func (en *Engine) callEvent(st *State, fr *Frame, in ssa.CallInstruction) *Event {
	name, callee, _, args, _ := en.callArgs(st, fr, in.Common())
	return &Event{Kind: EvCall, Instr: in, Callee: name, CalleeFn: callee, Args: args}
}

func resultTypes(c *ssa.CallCommon) []types.Type {
	sig := c.Signature()
	out := make([]types.Type, sig.Results().Len())
	for i := range out {
		out[i] = sig.Results().At(i).Type()
	}
	return out
}

func (en *Engine) inStack(st *State, fn *ssa.Function) bool {
	for _, f := range st.frames {
		if f.fn == fn {
			return true
		}
	}
	return false
}

// doCall handles an ssa.Call. forks != nil means the state forked (st may be among them).
func (en *Engine) doCall(st *State, fr *Frame, x *ssa.Call) ([]*State, bool, error) {
	c := x.Common()
	name, callee, bindings, args, _ := en.callArgs(st, fr, c)
	if strings.HasPrefix(name, "builtin:") {
		fr.env[x] = en.builtin(st, fr, x, name[len("builtin:"):], args)
		return nil, false, nil
	}
	if c.IsInvoke() {
		st.addEvent(&Event{Kind: EvDeref, Instr: x, X: args[0], Callee: "invoke"})
	}
	if callee != nil && callee.Blocks != nil && isThunk(callee) && len(st.frames) < 12 && en.Inline != nil {
		// method-expression thunks and receiver-adjusting wrappers only forward to the declared method
		en.pushFrame(st, fr, x, callee, bindings, args, false, "")
		return nil, true, nil
	}
	if callee != nil && callee.Blocks != nil && stdInlined(callee) && !en.inStack(st, callee) && len(st.frames) < 12 && en.Inline != nil {
		// small, pure standard-library helpers over slices are simulated like module code: their loops are the
		// loops a maintainer would otherwise have written by hand
		en.pushFrame(st, fr, x, callee, bindings, args, false, "")
		return nil, true, nil
	}
	if callee != nil && callee.Blocks != nil && en.P.inModule(callee) && !en.inStack(st, callee) &&
		len(st.frames) < 12 && en.Inline != nil && (isBoundWrapper(callee) || (en.boundInl[callee] && !en.Excluded[callee]) || en.Inline(fr.fn, callee, len(st.frames))) {
		en.pushFrame(st, fr, x, callee, bindings, args, false, "")
		return nil, true, nil
	}
	if callee != nil && callee.Blocks != nil && en.P.inModule(callee) {
		en.NotInlined[callee] = true
	}
	if callee == nil || !en.P.inModule(callee) {
		// equivalent spellings of library calls are rewritten to one canonical form (canon.go)
		var done bool
		if name, args, done = en.canonical(st, fr, x, name, args); done {
			return nil, false, nil
		}
	}
	ct := lookupContract(name)
	if ct != nil && ct.Iterate {
		return en.iterate(st, fr, x, name, callee, args, ct)
	}
	en.external(st, fr, x, name, callee, args, ct)
	return nil, false, nil
}

func (en *Engine) pushFrame(st *State, fr *Frame, x ssa.Instruction, callee *ssa.Function, bindings, args []Val, handler bool, iterID string) {
	site := siteOf(x)
	nctx := fr.ctx + "/" + site
	st.visits["frame:"+nctx]++
	if n := st.visits["frame:"+nctx]; n > 1 {
		nctx += fmt.Sprintf("#%d", n)
	}
	nf := &Frame{fn: callee, ctx: nctx, env: map[ssa.Value]Val{}, block: callee.Blocks[0], retTo: x, handler: handler, handlerIter: iterID}
	for i, p := range callee.Params {
		if i < len(args) {
			nf.env[p] = args[i]
		}
	}
	for i, fv := range callee.FreeVars {
		if i < len(bindings) {
			nf.env[fv] = bindings[i]
		} else {
			v := &FreeV{Name: fv.Name()}
			v.typ = fv.Type()
			v.key = "free:" + fv.Name()
			nf.env[fv] = v
		}
	}
	st.addEvent(&Event{Kind: EvEnter, Instr: x, Callee: callee.String(), CalleeFn: callee, Args: args})
	st.frames = append(st.frames, nf)
}

func (en *Engine) popFrame(st *State, vals []Val) {
	fr := st.top()
	st.frames = st.frames[:len(st.frames)-1]
	caller := st.top()
	st.addEvent(&Event{Kind: EvExit, Instr: fr.retTo, Callee: fr.fn.String(), CalleeFn: fr.fn, Res: vals, Fn: caller.fn})
	if fr.handler {
		st.addEvent(&Event{Kind: EvIterExit, Instr: fr.retTo, Callee: fr.handlerIter, Res: vals, Fn: caller.fn})
		st.popIter(fr.handlerIter)
	}
	if fr.handler && len(vals) == 1 && isHaltSentinel(vals[0]) {
		// etreeutils.ErrTraversalHalted ends the walk and the helper reports success (the iter-exit event keeps the sentinel)
		vals = []Val{nilOf(vals[0].Type())}
	}
	if v, ok := fr.retTo.(ssa.Value); ok {
		switch len(vals) {
		case 0:
		case 1:
			caller.env[v] = vals[0]
		default:
			caller.env[v] = mkTuple(vals)
		}
	}
}

func (en *Engine) external(st *State, fr *Frame, x *ssa.Call, name string, callee *ssa.Function, args []Val, ct *Contract) {
	rts := resultTypes(x.Common())
	site := ""
	det := ct != nil && ct.Det
	if ct != nil && ct.TreeObserver {
		site = fmt.Sprintf("tree#%d", st.treeEpoch)
	} else if !det {
		site = fr.ctx + "/" + siteOf(x)
		st.visits["call:"+site]++
		if n := st.visits["call:"+site]; n > 1 {
			site += fmt.Sprintf("#%d", n)
		}
	}
	res := make([]Val, len(rts))
	for i, t := range rts {
		res[i] = mkCall(name, callee, args, site, i, len(rts), t)
	}
	ev := st.addEvent(&Event{Kind: EvCall, Instr: x, Callee: name, CalleeFn: callee, Args: args, Res: res})
	_ = ev
	switch {
	case ct != nil && ct.TreeMutator:
		// a tree the path made itself, fed only with nodes it made itself (a copy being re-rooted for a log line), is
		// not a tree any earlier observation was about
		if !ownScratchTree(args) {
			st.treeEpoch++
		}
	case ct != nil:
	case callee != nil && en.P.inModule(callee):
		if !moduleTreePure(en.P, callee, map[*ssa.Function]bool{}) {
			st.treeEpoch++
		}
	default:
		// unmodelled external: it can reach a tree only through a pointer-carrying argument. The receiver of a method
		// called on an interface value that sits in a field of a parameter (an observer or store the application plugged
		// in before the call) cannot reach a tree built during the call
		for i, a := range args {
			if i == 0 && x.Common().IsInvoke() && pluginRecv(a) {
				continue
			}
			if i == 0 && strings.HasPrefix(name, "dynamic:") && pluginHook(a) {
				continue
			}
			if cv, isC := a.(*CallV); i == 0 && isC && strings.HasPrefix(name, "dynamic:") && cv.Fn != nil && en.P.inModule(cv.Fn) && moduleTreePure(en.P, cv.Fn, map[*ssa.Function]bool{}) {
				// a closure handed back by a module function that (closures included) changes no tree: `done := sp.startPhase(..)`
				continue
			}
			if a == nil || mayPointTo(a.Type()) {
				st.treeEpoch++
				break
			}
		}
	}
	// acquiring a lock is where other goroutines' writes become visible: whatever the object that owns the mutex held
	// before may have been replaced meanwhile, so later loads are new values (a re-check under the lock is not decided by
	// what was read before it)
	// ... and releasing it is where this goroutine's exclusive view ends: what is read from the owner afterwards (through a
	// pointer to a record that was filled under the lock, say) is whatever the last writer left there
	if (name == "(*sync.RWMutex).Lock" || name == "(*sync.RWMutex).RLock" || name == "(*sync.Mutex).Lock" ||
		name == "(*sync.RWMutex).Unlock" || name == "(*sync.RWMutex).RUnlock" || name == "(*sync.Mutex).Unlock") && len(args) == 1 {
		if fa, ok := args[0].(*FieldAddrV); ok {
			en.havoc(st, fa.X)
		}
	}
	switch {
	case ct != nil:
		// encoding/xml never assigns a field tagged xml:"-": what the target held there before the decode is still there
		var keep []cell
		if name == "encoding/xml.Unmarshal" && len(args) == 2 {
			keep = en.untaggedFields(st, stripIface(args[1]))
		}
		for _, i := range ct.Writes {
			if i < len(args) {
				en.havoc(st, args[i])
			}
		}
		for _, k := range keep {
			st.heap[k.addr.Key()] = k
		}
	case callee != nil && en.P.inModule(callee):
		eff := moduleEffect(en.P, callee, map[*ssa.Function]bool{})
		for i, a := range args {
			if eff.global || eff.params[i] {
				en.havoc(st, a)
			}
		}
	default:
		en.Unmodelled[name]++
		for i, a := range args {
			if i == 0 && strings.HasPrefix(name, "dynamic:") && pluginHook(a) {
				continue // the callback itself: not the provider it was read from
			}
			en.havoc(st, a)
		}
	}
	switch len(res) {
	case 0:
	case 1:
		fr.env[x] = res[0]
	default:
		fr.env[x] = mkTuple(res)
	}
}

// iterate models a traversal helper that invokes a handler for every selected element:
//
//	Z: the handler is never invoked, result nil;
//	E: the helper itself fails (non-nil error that is not the handler's);
//	G: one generic handler invocation whose return value becomes the helper's result.
func (en *Engine) iterate(st *State, fr *Frame, x *ssa.Call, name string, callee *ssa.Function, args []Val, ct *Contract) ([]*State, bool, error) {
	root := args[ct.IterRoot]
	h, ok := args[ct.IterHandler].(*ClosureV)
	site := fr.ctx + "/" + siteOf(x)
	rt := resultTypes(x.Common())[0]
	if !ok || h.Fn.Blocks == nil {
		en.external(st, fr, x, name, callee, args, nil)
		return nil, false, nil
	}
	// Z
	z := st.clone()
	zf := z.top()
	z.addEvent(&Event{Kind: EvCall, Instr: x, Callee: name, CalleeFn: callee, Args: args, Res: []Val{nilOf(rt)}, Val: boolV(false)})
	zf.env[x] = nilOf(rt)
	// E
	e := st.clone()
	ef := e.top()
	ev := mkCall(name+"$own-error", callee, args, site, 0, 1, rt)
	e.addEvent(&Event{Kind: EvCall, Instr: x, Callee: name, CalleeFn: callee, Args: args, Res: []Val{ev}, Val: boolV(false)})
	ef.env[x] = ev
	c, pol := normCond(mkBin(tokenNEQ, ev, nilOf(rt), types.Typ[types.Bool]), true)
	e.facts = append(e.facts, Fact{Cond: c, Pol: pol, Forced: true, Instr: x, Seq: len(e.events)})
	// G
	g := st
	id := site + "/iter"
	g.iters = append(g.iters, id)
	elem := &IterElemV{Root: root, Site: site}
	elem.typ = h.Fn.Params[len(h.Fn.Params)-1].Type()
	elem.key = "iterelem(" + root.Key() + ")@" + site
	g.addEvent(&Event{Kind: EvIterEnter, Instr: x, Callee: id, CalleeFn: h.Fn, Args: args, X: elem})
	// havoc what earlier invocations of the handler may have written
	hfn := h.Fn
	if tgt := boundTarget(en.P, h.Fn); tgt != nil {
		hfn = tgt // a method value: the stores are in the method, the receiver is the single binding
	}
	for _, s := range handlerStores(hfn) {
		tmp := &Frame{fn: hfn, env: map[ssa.Value]Val{}}
		if hfn != h.Fn {
			if len(hfn.Params) > 0 && len(h.Bindings) > 0 {
				tmp.env[hfn.Params[0]] = h.Bindings[0]
			}
		} else {
			for i, fv := range h.Fn.FreeVars {
				if i < len(h.Bindings) {
					tmp.env[fv] = h.Bindings[i]
				}
			}
		}
		en.havocStoreTarget(g, tmp, s)
	}
	hargs := make([]Val, len(h.Fn.Params))
	for i, p := range h.Fn.Params {
		if i == len(hargs)-1 {
			hargs[i] = elem
		} else {
			g.nonce++
			hargs[i] = mkUnknown("iter-ctx", p.Type(), g.nonce)
		}
	}
	en.pushFrame(g, fr, x, h.Fn, h.Bindings, hargs, true, id)
	return []*State{z, e, g}, true, nil
}

// isHaltSentinel: the value is a load of etreeutils.ErrTraversalHalted.
func isHaltSentinel(v Val) bool {
	l, ok := v.(*LoadV)
	if !ok {
		return false
	}
	g, ok := l.Addr.(*GlobalV)
	return ok && g.G != nil && g.G.Pkg != nil && g.G.Name() == "ErrTraversalHalted" && strings.HasSuffix(g.G.Pkg.Pkg.Path(), "goxmldsig/etreeutils")
}

func handlerStores(fn *ssa.Function) []*ssa.Store {
	var out []*ssa.Store
	for _, b := range fn.Blocks {
		for _, in := range b.Instrs {
			if s, ok := in.(*ssa.Store); ok {
				out = append(out, s)
			}
		}
	}
	return out
}

func (en *Engine) builtin(st *State, fr *Frame, x *ssa.Call, name string, args []Val) Val {
	t := x.Type()
	switch name {
	case "len":
		return mkLen(st, args[0], t)
	case "cap":
		return mkCall("cap", nil, args, "", 0, 1, t)
	case "append":
		sig := x.Common().Signature()
		_ = sig
		if len(args) == 2 {
			// append(s, t...) in SSA always has exactly two operands: the second is a slice
			return en.mkAppendNorm(st, args[0], args[1], t)
		}
		return mkAppend(args[0], args[1:], false, t)
	case "copy":
		// copy(a[k:], src) into a slice made on this path: remembered as one segment (rendered by seqSegments, which
		// also checks that the lengths add up); anything else forgets the destination
		if a, k, ok := freshSliceFrom(args[0]); ok {
			if _, dirty := st.dirty[a.Key()]; !dirty {
				if _, again := st.heap["copyseg:"+a.Key()]; !again {
					pfx := indexPrefix(a)
					for hk, c := range st.heap {
						if ia, isIA := c.addr.(*IndexAddrV); isIA && strings.HasPrefix(hk, pfx) {
							if i, isC := constInt(ia.I); !isC || i >= k {
								delete(st.heap, hk)
							}
						}
					}
					delete(st.heap, "slicecomp:"+a.Key())
					st.heap["copyseg:"+a.Key()] = cell{a, mkTuple([]Val{intV(k), args[1]})}
					st.nonce++
					return mkUnknown("copy", t, st.nonce)
				}
			}
		}
		en.havoc(st, args[0])
		st.nonce++
		return mkUnknown("copy", t, st.nonce)
	case "ssa:wrapnilchk":
		return args[0]
	case "delete":
		st.addEvent(&Event{Kind: EvMapUpdate, Instr: x, X: args[0], I: args[1]})
		return nil
	case "min", "max":
		return mkCall(name, nil, args, "", 0, 1, t)
	case "print", "println":
		return nil
	case "recover":
		en.Errors = append(en.Errors, "recover() in kernel "+fr.fn.String())
	}
	st.nonce++
	return mkUnknown("builtin:"+name, t, st.nonce)
}

// mkAppendNorm: SSA lowers append(s, a, b) to append(s, slice-of-new-array...). Recover the element list
// when the spread operand is a slice literal over a fresh array.
func (en *Engine) mkAppendNorm(st *State, s, spread Val, t types.Type) Val {
	if sl, ok := spread.(*SliceV); ok && sl.Lo == nil && sl.Hi == nil {
		if a, ok := sl.X.(*AllocV); ok {
			if p, ok := a.Type().Underlying().(*types.Pointer); ok {
				if arr, ok := p.Elem().Underlying().(*types.Array); ok && arr.Len() <= 16 {
					elems := make([]Val, arr.Len())
					for i := range elems {
						elems[i] = en.load(st, mkIndexAddr(a, intV(int64(i)), arr.Elem()), arr.Elem())
					}
					return mkAppend(s, elems, false, t)
				}
			}
		}
	}
	return mkAppend(s, []Val{spread}, true, t)
}

func mkLen(st *State, x Val, t types.Type) Val {
	if s, ok := constString(x); ok {
		return intV(int64(len(s)))
	}
	if isNilConst(x) {
		return intV(0)
	}
	if a, ok := x.(*AllocV); ok && st != nil {
		if c, ok := st.heap["len:"+a.Key()]; ok {
			return c.val
		}
	}
	if m, ok := x.(*MapV); ok {
		return mkLen(st, m.Coll, t)
	}
	// len(a + b) on strings = len(a) + len(b)
	if b, ok := x.(*BinV); ok && b.Op == token.ADD && isStringType(b.Type()) {
		return mkBin(token.ADD, mkLen(st, b.Y, t), mkLen(st, b.X, t), t)
	}
	if app, ok := x.(*AppendV); ok && !app.Spread {
		if k, isC := constInt(mkLen(st, app.S, t)); isC {
			return intV(k + int64(len(app.Elems)))
		}
	}
	if sl, ok := x.(*SliceV); ok {
		// constant bounds
		if sl.Hi != nil {
			if hi, isC := constInt(sl.Hi); isC {
				lo := int64(0)
				okLo := true
				if sl.Lo != nil {
					lo, okLo = constInt(sl.Lo)
				}
				if okLo && hi >= lo {
					return intV(hi - lo)
				}
			}
		}
		// slice of an array pointer: constant length
		if p, ok := sl.X.Type().Underlying().(*types.Pointer); ok && sl.Lo == nil && sl.Hi == nil {
			if arr, ok := p.Elem().Underlying().(*types.Array); ok {
				return intV(arr.Len())
			}
		}
	}
	return mkCall("len", nil, []Val{x}, "", 0, 1, t)
}

// Write-effect summary of a module function (syntactic, transitive within the module): does it write memory that is
// neither its own nor reached through one of its parameters ("global": anything loaded from elsewhere, package
// variables, unknown callees on pointer-carrying values), and through which parameters does it write. A caller's heap
// survives a summarised call except for what hangs off the arguments in those parameter positions.
type effect struct {
	global bool
	params map[int]bool
}

var effCache = map[*ssa.Function]*effect{}

func resetEffCache() { effCache = map[*ssa.Function]*effect{} }

func (en *Engine) modulePure(fn *ssa.Function) bool {
	e := moduleEffect(en.P, fn, map[*ssa.Function]bool{})
	return !e.global && len(e.params) == 0
}

func moduleEffect(p *Prog, fn *ssa.Function, seen map[*ssa.Function]bool) *effect {
	if e, ok := effCache[fn]; ok {
		return e
	}
	if seen[fn] {
		return &effect{params: map[int]bool{}}
	}
	seen[fn] = true
	e := &effect{params: map[int]bool{}}
	var base func(v ssa.Value) (string, int)
	base = func(v ssa.Value) (string, int) {
		switch a := v.(type) {
		case *ssa.Alloc, *ssa.MakeSlice, *ssa.MakeMap, *ssa.FreeVar:
			return "local", 0
		case *ssa.FieldAddr:
			return base(a.X)
		case *ssa.IndexAddr:
			return base(a.X)
		case *ssa.Slice:
			return base(a.X)
		case *ssa.MakeInterface:
			return base(a.X)
		case *ssa.ChangeType:
			return base(a.X)
		case *ssa.Parameter:
			for i, pp := range fn.Params {
				if pp == a {
					return "param", i
				}
			}
		}
		return "other", 0
	}
	write := func(v ssa.Value) {
		switch k, i := base(v); k {
		case "local":
		case "param":
			e.params[i] = true
		default:
			e.global = true
		}
	}
	closure := func(f *ssa.Function) {
		ce := moduleEffect(p, f, seen)
		if ce.global || len(ce.params) > 0 {
			e.global = true // a function value is invoked with arguments this summary does not see
		}
	}
	for _, b := range fn.Blocks {
		for _, in := range b.Instrs {
			switch x := in.(type) {
			case *ssa.Store:
				write(x.Addr)
			case *ssa.MapUpdate:
				write(x.Map)
			case ssa.CallInstruction:
				c := x.Common()
				if c.IsInvoke() {
					name := "(" + types.TypeString(c.Value.Type(), nil) + ")." + c.Method.Name()
					ct := lookupContract(name)
					if ct == nil || len(ct.Writes) > 0 {
						e.global = true
					}
					continue
				}
				switch v := c.Value.(type) {
				case *ssa.Builtin:
					if (v.Name() == "copy" || v.Name() == "delete") && len(c.Args) > 0 {
						write(c.Args[0])
					}
				case *ssa.Function:
					if (p.inModule(v) || stdInlined(v)) && v.Blocks != nil {
						ce := moduleEffect(p, v, seen)
						if ce.global {
							e.global = true
						}
						for i := range ce.params {
							if i < len(c.Args) {
								write(c.Args[i])
							}
						}
					} else {
						ct := lookupContract(v.String())
						if ct == nil {
							// an unmodelled external function can write through any pointer-carrying argument;
							// one that receives only immutable values (strings, numbers) has no path to our objects
							for _, a := range c.Args {
								if mayPointTo(a.Type()) {
									write(a)
								}
							}
						} else {
							for _, wi := range ct.Writes {
								if wi < len(c.Args) {
									write(c.Args[wi])
								}
							}
						}
					}
				case *ssa.MakeClosure:
					closure(v.Fn.(*ssa.Function))
				default:
					// call through a function value: closures created in this function are scanned below
				}
			case *ssa.MakeClosure:
				closure(x.Fn.(*ssa.Function))
			}
		}
	}
	effCache[fn] = e
	return e
}

var treePureCache = map[any]bool{}

// moduleTreePure: fn (transitively, within the module) calls no etree mutator and no unmodelled external.
func moduleTreePure(p *Prog, fn *ssa.Function, seen map[*ssa.Function]bool) bool {
	if v, ok := treePureCache[fn]; ok {
		return v
	}
	if seen[fn] {
		return true
	}
	seen[fn] = true
	pure := true
	for _, b := range fn.Blocks {
		for _, in := range b.Instrs {
			if mc, ok := in.(*ssa.MakeClosure); ok {
				if !moduleTreePure(p, mc.Fn.(*ssa.Function), seen) {
					pure = false
				}
			}
			ci, ok := in.(ssa.CallInstruction)
			if !ok {
				continue
			}
			name, callee := calleeName(ci.Common())
			if name == "" {
				continue // call through a local function value: closures are scanned above
			}
			if strings.HasPrefix(name, "builtin:") {
				continue
			}
			if callee != nil && (p.inModule(callee) || stdInlined(callee)) && callee.Blocks != nil {
				if !moduleTreePure(p, callee, seen) {
					pure = false
				}
				continue
			}
			ct := lookupContract(name)
			// an etree operation on a tree this very function made (a copy being pretty-printed for a log line) changes no
			// tree anybody else can see
			if sn := shortName(name); strings.HasPrefix(sn, "(*etree.") && etreeReadOnly[sn[strings.LastIndex(sn, ".")+1:]] {
				continue // Copy, Root, FindElement, WriteTo…: reads
			}
			if sn := shortName(name); strings.HasPrefix(sn, "(*etree.") && len(ci.Common().Args) > 0 && !ci.Common().IsInvoke() && freshTree(ci.Common().Args[0], 0) {
				if ct == nil || ct.TreeMutator {
					ok := true
					for _, a := range ci.Common().Args[1:] {
						if isEtreeNodeType(a.Type()) && !freshTree(a, 0) {
							ok = false // a live node moved into the fresh tree (SetRoot(el), AddChild(el)) is taken out of its own
						}
					}
					if ok {
						continue
					}
				}
			}
			if ct == nil {
				args := ci.Common().Args
				if ci.Common().IsInvoke() {
					pure = false
				}
				for _, a := range args {
					if mayPointTo(a.Type()) {
						pure = false
					}
				}
				continue
			}
			if ct.TreeMutator || ct.Iterate {
				pure = false
			}
		}
	}
	if os.Getenv("VERIF_DEBUG_PURE") != "" {
		println("TREEPURE", fn.String(), pure)
	}
	treePureCache[fn] = pure
	return pure
}

// isBoundWrapper: go/ssa's synthetic wrapper for a method value x.m (one free variable: the receiver).
func isBoundWrapper(fn *ssa.Function) bool {
	return fn != nil && strings.HasPrefix(fn.Synthetic, "bound method wrapper")
}

// isThunk: go/ssa's synthetic forwarding functions for method expressions T.m and promoted/receiver-adjusted methods.
func isThunk(fn *ssa.Function) bool {
	return fn != nil && (strings.HasPrefix(fn.Synthetic, "thunk for") || strings.HasPrefix(fn.Synthetic, "wrapper for"))
}

// boundTarget: the declared method behind a bound-method wrapper (nil for interface methods and non-wrappers).
func boundTarget(p *Prog, fn *ssa.Function) *ssa.Function {
	if !isBoundWrapper(fn) {
		return nil
	}
	obj, ok := fn.Object().(*types.Func)
	if !ok {
		return nil
	}
	t := p.SSA.FuncValue(obj)
	if t == nil || t.Blocks == nil {
		return nil
	}
	return t
}

// stdInlined: generic helpers of package slices whose bodies are plain loops without side effects.
func stdInlined(f *ssa.Function) bool {
	s := f.String()
	for _, p := range []string{"slices.Contains[", "slices.ContainsFunc[", "slices.Index[", "slices.IndexFunc["} {
		if strings.HasPrefix(s, p) {
			return true
		}
	}
	return false
}

// freshSliceFrom: v is a[k:] (k constant, no upper bound) of a slice a made by make on this path, or a itself (k = 0).
func freshSliceFrom(v Val) (*AllocV, int64, bool) {
	switch x := v.(type) {
	case *AllocV:
		if x.Comment == "makeslice" {
			return x, 0, true
		}
	case *SliceV:
		a, ok := x.X.(*AllocV)
		if !ok || a.Comment != "makeslice" || x.Hi != nil || x.Max != nil {
			return nil, 0, false
		}
		if x.Lo == nil {
			return a, 0, true
		}
		if k, isC := constInt(x.Lo); isC && k >= 0 {
			return a, k, true
		}
	}
	return nil, 0, false
}

// pluginRecv: an interface value loaded from a field of a parameter object (sp.Observer).
// pluginHook: a function value loaded from a field of a parameter — a callback the application plugged in before the
// call. Like the receiver of a plugged-in interface it is application code: what it does to objects it captured is the
// application's business; it reaches the library's data only through the other arguments it is handed.
func pluginHook(v Val) bool {
	l, ok := v.(*LoadV)
	if !ok || l.Type() == nil {
		return false
	}
	if _, isFn := l.Type().Underlying().(*types.Signature); !isFn {
		return false
	}
	fa, ok := l.Addr.(*FieldAddrV)
	if !ok {
		return false
	}
	_, isP := fa.X.(*ParamV)
	return isP
}

func pluginRecv(v Val) bool {
	l, ok := v.(*LoadV)
	if !ok || !isIfaceType(l.Type()) {
		return false
	}
	fa, ok := l.Addr.(*FieldAddrV)
	if !ok {
		return false
	}
	_, isP := fa.X.(*ParamV)
	return isP
}

// untaggedFields: the current content of the top-level fields of *target that carry the struct tag xml:"-".
func (en *Engine) untaggedFields(st *State, target Val) []cell {
	if target == nil || target.Type() == nil {
		return nil
	}
	owner, ok := derefStruct(target.Type())
	if !ok {
		return nil
	}
	stt, ok := owner.Underlying().(*types.Struct)
	if !ok {
		return nil
	}
	var out []cell
	for i := 0; i < stt.NumFields(); i++ {
		if reflectTag(stt.Tag(i), "xml") != "-" {
			continue
		}
		ft := stt.Field(i).Type()
		addr := mkFieldAddr(target, i, owner, ft)
		out = append(out, cell{addr, en.load(st, addr, ft)})
	}
	return out
}

func reflectTag(tag, key string) string {
	// `xml:"-" json:"x"`
	for tag != "" {
		i := strings.Index(tag, ":\"")
		if i < 0 {
			return ""
		}
		name := strings.TrimSpace(tag[:i])
		if j := strings.LastIndex(name, " "); j >= 0 {
			name = name[j+1:]
		}
		rest := tag[i+2:]
		k := strings.Index(rest, "\"")
		if k < 0 {
			return ""
		}
		if name == key {
			return rest[:k]
		}
		tag = rest[k+1:]
	}
	return ""
}


// ownScratchTree: the receiver is a document / element this path created (etree.NewDocument, NewElement, Copy,
// NSDetatch) and every other node argument is one too.
func ownScratchTree(args []Val) bool {
	if len(args) == 0 {
		return false
	}
	fresh := func(v Val) bool {
		cv, ok := stripIface(v).(*CallV)
		if !ok {
			return false
		}
		sn := shortName(cv.Callee)
		return sn == "etree.NewDocument" || sn == "etree.NewElement" || strings.HasSuffix(sn, ").Copy") || sn == "etreeutils.NSDetatch"
	}
	if !fresh(args[0]) {
		return false
	}
	for _, a := range args[1:] {
		if a != nil && a.Type() != nil && isEtreeNodeType(a.Type()) && !fresh(a) {
			return false
		}
	}
	return true
}
