package main

// Query helpers over terminal states: normalised access paths, fact atoms, event search.

import (
	"fmt"
	"go/token"
	"go/types"
	"sort"
	"strings"

	"golang.org/x/tools/go/ssa"
)

// typeSym gives the symbolic root used for parameters of well-known types, so that renaming a
// parameter is invisible to the rules.
func typeSym(t types.Type) string {
	s := typeStr(t)
	switch s {
	case "*saml2.SAMLServiceProvider":
		return "SP"
	case "*types.Response":
		return "R"
	case "*types.Assertion":
		return "A"
	case "*types.LogoutResponse":
		return "LR"
	case "*saml2.LogoutRequest":
		return "LQ"
	case "*types.EncryptedAssertion":
		return "EA"
	case "*types.EncryptedKey":
		return "EK"
	case "*tls.Certificate":
		return "CERT"
	}
	return ""
}

// ap renders a value as a normalised access path / expression:
//   parameters by type symbol, loads as dotted paths, loop-dependent indexes as [*], epochs dropped.
func ap(v Val) string {
	switch x := v.(type) {
	case nil:
		return ""
	case *ConstV:
		return x.Key()
	case *ParamV:
		if s := typeSym(x.Type()); s != "" {
			return s
		}
		return "$" + x.Name
	case *FreeV:
		return "free:" + x.Name
	case *GlobalV:
		return shortName(strings.TrimPrefix(x.Key(), "&"))
	case *AllocV:
		return "new<" + x.Comment + ">@" + lastSite(x.Site)
	case *LoadV:
		return apLval(x.Addr)
	case *FieldAddrV:
		return "&" + apLval(x)
	case *IndexAddrV:
		return "&" + apLval(x)
	case *FieldV:
		return ap(x.X) + "." + x.Name
	case *IndexV:
		return ap(x.X) + "[" + apIdx(x.I) + "]"
	case *SliceV:
		return ap(x.X) + "[" + ap(x.Lo) + ":" + ap(x.Hi) + "]"
	case *CallV:
		as := make([]string, len(x.Args))
		for i, a := range x.Args {
			as[i] = ap(a)
		}
		s := shortName(x.Callee) + "(" + strings.Join(as, ", ") + ")"
		if x.N > 1 {
			s += fmt.Sprintf("#%d", x.Idx)
		}
		return s
	case *BinV:
		return "(" + ap(x.X) + " " + x.Op.String() + " " + ap(x.Y) + ")"
	case *UnV:
		return x.Op.String() + ap(x.X)
	case *MakeIfaceV:
		return ap(x.X)
	case *ConvV:
		return typeStr(x.Type()) + "(" + ap(x.X) + ")"
	case *TypeAssertV:
		s := ap(x.X) + ".(" + typeStr(x.To) + ")"
		if x.CommaOk {
			s += fmt.Sprintf("#%d", x.Idx)
		}
		return s
	case *ClosureV:
		return "func:" + shortFn(x.Fn)
	case *LoopPhiV:
		return "i*"
	case *IterElemV:
		return "elem(" + ap(x.Root) + ")"
	case *StructLitV:
		var parts []string
		for _, n := range x.Names {
			f := x.Fields[n]
			if c, ok := f.(*ConstV); ok && (c.C == nil || c.Key() == `""` || c.Key() == "0" || c.Key() == "false") {
				continue
			}
			parts = append(parts, n+": "+ap(f))
		}
		return typeStr(x.Type()) + "{" + strings.Join(parts, ", ") + "}"
	case *AppendV:
		es := make([]string, len(x.Elems))
		for i, e := range x.Elems {
			es[i] = ap(e)
		}
		sp := ""
		if x.Spread {
			sp = "..."
		}
		return "append(" + ap(x.S) + "; " + strings.Join(es, ", ") + sp + ")"
	case *ArrayLitV:
		es := make([]string, len(x.Elems))
		for i, e := range x.Elems {
			es[i] = ap(e)
		}
		return "[" + strings.Join(es, ", ") + "]"
	case *MapV:
		return "[" + ap(x.Elem) + " for " + ap(x.Coll) + "]"
	case *MapElemV:
		return ap(x.M.Elem)
	case *TupleV:
		es := make([]string, len(x.Vals))
		for i, e := range x.Vals {
			es[i] = ap(e)
		}
		return "(" + strings.Join(es, ", ") + ")"
	case *UnknownV:
		return "?" + x.Why
	}
	return v.Key()
}

func lastSite(s string) string {
	if i := strings.LastIndex(s, "/"); i >= 0 {
		return s[i+1:]
	}
	return s
}

func apIdx(i Val) string {
	if containsVal(i, func(v Val) bool { _, ok := v.(*LoopPhiV); return ok }) {
		return "*"
	}
	return ap(i)
}

// apLval renders the object an address denotes.
func apLval(addr Val) string {
	switch x := addr.(type) {
	case *FieldAddrV:
		return apObj(x.X) + "." + x.Name
	case *IndexAddrV:
		if _, ok := x.X.Type().Underlying().(*types.Pointer); ok {
			return apObj(x.X) + "[" + apIdx(x.I) + "]"
		}
		return ap(x.X) + "[" + apIdx(x.I) + "]"
	case *GlobalV:
		return shortName(strings.TrimPrefix(x.Key(), "&"))
	}
	return "*" + ap(addr)
}

// apObj: the object a pointer value points to.
func apObj(ptr Val) string {
	switch x := ptr.(type) {
	case *FieldAddrV, *IndexAddrV:
		return apLval(x)
	}
	return ap(ptr)
}

// atom renders a fact as a normalised string, e.g. `R.Version == "2.0"` or `!(R.Issuer == nil)`.
func atom(f Fact) string {
	s := atomCond(f.Cond)
	if !f.Pol {
		return "!(" + s + ")"
	}
	return s
}

func atomCond(c Val) string {
	if b, ok := c.(*BinV); ok && (b.Op == token.EQL) {
		x, y := ap(b.X), ap(b.Y)
		_, cx := b.X.(*ConstV)
		_, cy := b.Y.(*ConstV)
		if (cx && !cy) || (cx == cy && x > y) {
			x, y = y, x
		}
		return x + " == " + y
	}
	if b, ok := c.(*BinV); ok && b.Op == token.LSS {
		return ap(b.X) + " < " + ap(b.Y)
	}
	return ap(c)
}

func (t *Terminal) atoms() map[string]bool {
	m := map[string]bool{}
	for _, f := range t.St.facts {
		m[atom(f)] = true
	}
	return m
}

func (t *Terminal) atomList() []string {
	var out []string
	for _, f := range t.St.facts {
		out = append(out, atom(f))
	}
	return out
}

// errIdx: index of the error result of fn (-1 if none).
func errIdx(fn *ssa.Function) int {
	res := fn.Signature.Results()
	for i := res.Len() - 1; i >= 0; i-- {
		if typeStr(res.At(i).Type()) == "error" {
			return i
		}
	}
	return -1
}

// accepting: terminal returns with a nil error (or has no error result).
func (t *Terminal) accepting(fn *ssa.Function) bool {
	if t.Kind != "return" {
		return false
	}
	i := errIdx(fn)
	if i < 0 {
		return true
	}
	if isNilConst(t.Vals[i]) {
		return true
	}
	// the returned error is a value the path has already tested against nil (single-exit style: `return err`)
	if isNil, known := t.eqFact(t.Vals[i], nilOf(t.Vals[i].Type())); known && isNil {
		return true
	}
	return false
}

// errKnownNonNil: the returned error is non-nil on this path (fresh error, typed error value, or fact err != nil).
func (t *Terminal) errNonNil(v Val) bool {
	if isNilConst(v) {
		return false
	}
	if nonNilByConstruction(v) {
		return true
	}
	c, pol := normCond(mkBin(token.NEQ, v, nilOf(v.Type()), types.Typ[types.Bool]), true)
	if b, known := decide(t.St, c); known {
		return b == pol
	}
	return false
}

func (t *Terminal) factTrue(c Val) (bool, bool) {
	nc, pol := normCond(c, true)
	if b, known := decide(t.St, nc); known {
		return b == pol, true
	}
	return false, false
}

// eqFact: is `x == y` known true / false on this path?
func (t *Terminal) eqFact(x, y Val) (bool, bool) {
	return t.factTrue(mkBin(token.EQL, x, y, types.Typ[types.Bool]))
}

func (t *Terminal) nonNil(v Val) bool {
	if nonNilByConstruction(v) {
		return true
	}
	b, known := t.eqFact(v, nilOf(v.Type()))
	return known && !b
}

// calls returns the call events (inlined enter events included) whose callee name has the given suffix.
func (t *Terminal) calls(suffix string) []*Event {
	var out []*Event
	for _, e := range t.St.events {
		if (e.Kind == EvCall || e.Kind == EvEnter) && (strings.HasSuffix(e.Callee, suffix) || strings.HasSuffix(shortName(e.Callee), suffix)) {
			out = append(out, e)
		}
	}
	return out
}

func (t *Terminal) stores() []*Event {
	var out []*Event
	for _, e := range t.St.events {
		if e.Kind == EvStore {
			out = append(out, e)
		}
	}
	return out
}

// pathDesc: compact description of the branch decisions of a path (for reports).
func (t *Terminal) pathDesc(p *Prog) []string {
	var out []string
	for _, f := range t.St.facts {
		pos := "-"
		if f.Instr != nil {
			pos = p.InstrPos(f.Instr)
		}
		s := atom(f)
		if len(s) > 160 {
			s = s[:160] + "…"
		}
		out = append(out, pos+": "+s)
	}
	return out
}

// finalField: value of field `name` of the object pointed to by obj at the end of the path.
func (t *Terminal) finalField(obj Val, name string) (Val, bool) {
	p, ok := obj.Type().Underlying().(*types.Pointer)
	if !ok {
		return nil, false
	}
	st, ok := p.Elem().Underlying().(*types.Struct)
	if !ok {
		return nil, false
	}
	for i := 0; i < st.NumFields(); i++ {
		if st.Field(i).Name() == name {
			fa := mkFieldAddr(obj, i, p.Elem(), st.Field(i).Type())
			if c, ok := t.St.heap[fa.Key()]; ok {
				return c.val, true
			}
			return nil, false
		}
	}
	return nil, false
}

func fieldIndex(t types.Type, name string) int {
	st, ok := t.Underlying().(*types.Struct)
	if !ok {
		return -1
	}
	for i := 0; i < st.NumFields(); i++ {
		if st.Field(i).Name() == name {
			return i
		}
	}
	return -1
}

// isFieldAddrOf: addr is &obj.<name> (obj compared by key).
func isFieldAddrOf(addr Val, obj Val, name string) bool {
	fa, ok := addr.(*FieldAddrV)
	return ok && fa.Name == name && fa.X.Key() == obj.Key()
}

func sortedStrings(m map[string]bool) []string {
	var out []string
	for k := range m {
		out = append(out, k)
	}
	sort.Strings(out)
	return out
}

// structLitOf unwraps an interface-wrapped composite literal: returns type name and constant fields.
func structLitOf(v Val) (string, map[string]Val, bool) {
	v = stripIface(v)
	switch x := v.(type) {
	case *StructLitV:
		return typeStr(x.Type()), x.Fields, true
	case *ConstV:
		if isZeroAggregate(x) {
			return typeStr(x.Type()), map[string]Val{}, true
		}
	}
	return "", nil, false
}

// finalFieldState: final value of obj.<name> with how it is known: "stored" (heap entry), "zero" (obj is a fresh
// allocation of this path that nothing could have written behind the engine's back), "unknown".
func (t *Terminal) finalFieldState(obj Val, name string) (Val, string) {
	if v, ok := t.finalField(obj, name); ok {
		return v, "stored"
	}
	if a, isAlloc := obj.(*AllocV); isAlloc {
		if _, dirty := t.St.dirty[a.Key()]; !dirty {
			return nil, "zero"
		}
	}
	return nil, "unknown"
}

// reader navigates the final state of a terminal: fields of struct values / pointees and elements of slices, assembling
// aggregates from their parts the way a run-time read at function exit would see them.
type reader struct {
	t  *Terminal
	en *Engine
}

func newReader(t *Terminal) *reader { return &reader{t: t, en: NewEngine(nil)} }

func (r *reader) field(v Val, name string) Val {
	if v == nil {
		return nil
	}
	v = stripIface(v)
	switch x := v.(type) {
	case *StructLitV:
		if f, ok := x.Fields[name]; ok {
			return f
		}
		return nil
	case *LoadV:
		if st, ok := derefStruct(x.Addr.Type()); ok {
			if i := fieldIndex(st, name); i >= 0 {
				ft := st.Underlying().(*types.Struct).Field(i).Type()
				return r.en.load(r.t.St, mkFieldAddr(x.Addr, i, st, ft), ft)
			}
		}
		return nil
	}
	if st, ok := derefStruct(v.Type()); ok {
		if i := fieldIndex(st, name); i >= 0 {
			ft := st.Underlying().(*types.Struct).Field(i).Type()
			return r.en.load(r.t.St, mkFieldAddr(v, i, st, ft), ft)
		}
		return nil
	}
	if stt, ok := v.Type().Underlying().(*types.Struct); ok {
		if i := fieldIndex(v.Type(), name); i >= 0 {
			return mkField(v, i, name, stt.Field(i).Type())
		}
	}
	return nil
}

func (r *reader) elems(v Val) ([]Val, bool) {
	if v == nil {
		return nil, false
	}
	switch x := v.(type) {
	case *ConstV:
		if isNilConst(x) {
			return nil, true
		}
	case *AppendV:
		if x.Spread {
			return nil, false
		}
		b, ok := r.elems(x.S)
		if !ok {
			return nil, false
		}
		return append(b, x.Elems...), true
	case *AllocV:
		if x.Comment == "makeslice" {
			c, ok := r.t.St.heap["len:"+x.Key()]
			if !ok {
				return nil, false
			}
			n, isC := constInt(c.val)
			if isC && n == 0 {
				return nil, true // make([]T, 0, cap): empty whatever the capacity
			}
			sl, isS := x.Type().Underlying().(*types.Pointer)
			if !isC || !isS || n > 64 {
				return nil, false
			}
			var et types.Type
			switch u := sl.Elem().Underlying().(type) {
			case *types.Array:
				et = u.Elem()
			case *types.Slice:
				et = u.Elem()
			default:
				return nil, false
			}
			out := make([]Val, n)
			for i := range out {
				out[i] = r.en.load(r.t.St, mkIndexAddr(x, intV(int64(i)), et), et)
			}
			return out, true
		}
	case *SliceV:
		if a, ok := x.X.(*AllocV); ok && (x.Lo == nil || isConstInt(x.Lo, 0)) {
			if p, ok := a.Type().Underlying().(*types.Pointer); ok {
				if arr, ok := p.Elem().Underlying().(*types.Array); ok && arr.Len() <= 64 {
					n := arr.Len()
					if x.Hi != nil {
						k, isC := constInt(x.Hi)
						if !isC || k > n {
							return nil, false
						}
						n = k
					}
					out := make([]Val, n)
					for i := range out {
						out[i] = r.en.load(r.t.St, mkIndexAddr(a, intV(int64(i)), arr.Elem()), arr.Elem())
					}
					return out, true
				}
			}
		}
	}
	return nil, false
}
