package main

// External contract table (DESIGN.md §2.9): what the engine assumes about callees it does not
// analyse. One line per callee, with the clause relied on. Anything absent is "unmodelled": its
// result is opaque, everything reachable from its arguments is forgotten, and it is listed in the
// evidence.

import (
	"go/token"
	"strings"
)

const tokenNEQ = token.NEQ

type Contract struct {
	Det          bool  // deterministic function of its arguments (value numbered), no heap effect
	Writes       []int // argument indexes whose reachable memory the callee may write
	NonNil       []int // result indexes that are never nil
	Iterate      bool  // traversal helper invoking a handler (IterRoot, IterHandler = argument indexes)
	IterRoot     int
	IterHandler  int
	NilSafeRecv  bool   // pointer-receiver method documented to accept a nil receiver
	MayNil       []int  // result indexes that may be nil even on success ("may return nil")
	TreeMutator  bool   // mutates the etree it is invoked on (tracked through events, not the heap)
	TreeObserver bool   // reads tree structure: result is stable until the next tree mutation on the path
	Pre          string // precondition-bearing callee (deny-list, C09)
	OkNonNil     []int  // result indexes that are non-nil whenever the callee's error result is nil
	LenRes0      bool   // result 0 is len(argument 0) whenever the error result is nil ("fills the whole slice or fails")
	Fresh        bool   // results are newly created objects: writing them does not write the arguments
	ResultOf     []int  // the result wraps exactly these arguments: writing through it writes them and nothing else
	ConcSafeRecv bool   // documented safe for concurrent use on a shared receiver, and does not change what the receiver denotes
	Note         string
}

const (
	pDsig  = "github.com/russellhaering/goxmldsig"
	pEtree = "github.com/beevik/etree"
	pEU    = "github.com/russellhaering/goxmldsig/etreeutils"
	pRT    = "github.com/mattermost/xml-roundtrip-validator"
)

var contracts = map[string]*Contract{
	// --- goxmldsig
	"(*" + pDsig + ".ValidationContext).Validate":                  {Fresh: true, Note: "err==nil => result is a fresh tree re-parsed from the canonical bytes covered by a verified signature under ctx.CertificateStore at ctx.Clock; ErrMissingSignature iff no signature references el; el not mutated", OkNonNil: []int{0}},
	pDsig + ".NewDefaultValidationContext":                         {Fresh: true, NonNil: []int{0}, Note: "context over exactly the given store; Clock nil => wall clock"},
	"(*" + pDsig + ".Clock).Now":                                   {NilSafeRecv: true, Note: "nil-safe; returns the wrapped clock's instant"},
	pDsig + ".NewDefaultSigningContext":                            {Fresh: true, NonNil: []int{0}, Note: "signing context over the given key store"},
	pDsig + ".NewSigningContext":                                   {Fresh: true, Note: "errors only for a nil signer", OkNonNil: []int{0}},
	"(*" + pDsig + ".SigningContext).SetSignatureMethod":           {Writes: []int{0}, Note: "sets the hash for a known algorithm id, error otherwise"},
	"(*" + pDsig + ".SigningContext).ConstructSignature":           {Fresh: true, Note: "builds a ds:Signature over el without mutating it", OkNonNil: []int{0}},
	"(*" + pDsig + ".SigningContext).SignString":                   {Note: "signs the exact octets given"},
	"(*" + pDsig + ".SigningContext).GetSignatureMethodIdentifier": {Note: "URI of the configured algorithm"},
	"(" + pDsig + ".X509KeyStore).GetKeyPair":                      {Note: "user-supplied key store; may fail", MayNil: []int{0, 1}},
	// --- etree / etreeutils
	pEU + ".NSFindIterate":                     {Iterate: true, IterRoot: 0, IterHandler: 3, Note: "calls h for every element (root included, all depths) with that namespace+tag; returns h's first error"},
	pEU + ".NSFindIterateCtx":                  {Iterate: true, IterRoot: 1, IterHandler: 4, Note: "NSFindIterate with an explicit namespace context"},
	pEU + ".NewDefaultNSContext":               {Fresh: true, Note: "the context NSFindIterate starts from"},
	pEU + ".NSDetatch":                         {Fresh: true, Note: "deep copy with namespace declarations, input unchanged", OkNonNil: []int{0}},
	"(*" + pEtree + ".Element).Parent":         {TreeObserver: true, MayNil: []int{0}, Note: "may return nil; stable until the tree is mutated"},
	"(*" + pEtree + ".Document).Root":          {TreeObserver: true, MayNil: []int{0}, Note: "may return nil; stable until the tree is mutated"},
	"(*" + pEtree + ".Element).RemoveChild":    {TreeMutator: true, MayNil: []int{0}, Note: "returns nil iff t.Parent() != e"},
	"(*" + pEtree + ".Element).AddChild":       {TreeMutator: true, Note: "appends t (re-parenting it)"},
	"(*" + pEtree + ".Element).Copy":           {Fresh: true, NonNil: []int{0}, Note: "deep copy, input unchanged"},
	"(*" + pEtree + ".Document).Copy":          {Fresh: true, NonNil: []int{0}, Note: "deep copy of the whole document, input unchanged"},
	"(*" + pEtree + ".Document).Indent":        {Writes: []int{0}, Note: "rewrites whitespace nodes of the document it is called on"},
	"(*" + pEtree + ".Document).Unindent":      {Writes: []int{0}, Note: "removes whitespace nodes of the document it is called on"},
	"(*" + pEtree + ".Element).CreateAttr":     {TreeMutator: true, NonNil: []int{0}, Note: "attribute value escaped on serialisation; key emitted verbatim"},
	"(*" + pEtree + ".Element).CreateElement":  {TreeMutator: true, NonNil: []int{0}, Note: "tag emitted verbatim"},
	"(*" + pEtree + ".Element).SetText":        {TreeMutator: true, Note: "text escaped on serialisation"},
	pEtree + ".NewElement":                     {NonNil: []int{0}, Fresh: true, Note: "detached element; \"prefix:local\" is split into Space and Tag"},
	"(*" + pEtree + ".Element).CreateText":     {TreeMutator: true, NonNil: []int{0}, Note: "appends escaped character data"},
	pEtree + ".NewDocument":                    {Fresh: true, NonNil: []int{0}, Note: "fresh empty document"},
	"(*" + pEtree + ".Document).SetRoot":       {TreeMutator: true, Note: "replaces the root"},
	"(*" + pEtree + ".Document).ReadFromBytes": {TreeMutator: true, Note: "total: error or success"},
	"(*" + pEtree + ".Document).WriteToBytes":  {Fresh: true, Note: "serialises"},
	"(*" + pEtree + ".Document).WriteToString": {Fresh: true, Note: "serialises"},
	pRT + ".Validate":                          {Note: "total: error or success, no panic"},
	// --- std: time
	"time.Parse":                   {Fresh: true, Det: true, Note: "RFC3339 accepts offsets and fractional seconds, errors otherwise"},
	"(time.Time).Before":           {Det: true, Note: "strict instant comparison, zone-independent"},
	"(time.Time).After":            {Det: true, Note: "strict instant comparison, zone-independent"},
	"(time.Time).Compare":          {Det: true, Note: "-1 / 0 / +1 by instant, zone-independent"},
	"(time.Time).Equal":            {Det: true, Note: "instant equality, zone-independent"},
	"(time.Time).UTC":              {Det: true},
	"time.Now":                     {Note: "reads the wall clock; touches nothing else"},
	"time.Since":                   {Note: "time.Now().Sub(t)"},
	"time.Until":                   {Note: "t.Sub(time.Now())"},
	"(time.Time).Sub":              {Det: true},
	"(time.Duration).String":       {Det: true},
	"(time.Duration).Seconds":      {Det: true},
	"(time.Duration).Milliseconds": {Det: true},
	"(time.Time).Add":              {Det: true},
	"(time.Time).Format":           {Det: true},
	// --- std: fmt / errors / strings / bytes
	"fmt.Errorf":                                   {Fresh: true, NonNil: []int{0}, Note: "non-nil error"},
	"errors.New":                                   {Fresh: true, NonNil: []int{0}, Note: "non-nil error"},
	"fmt.Sprintf":                                  {Fresh: true, Det: true},
	"strings.ToLower":                              {Det: true},
	"strings.Compare":                              {Det: true, Note: "0 iff equal"},
	"bytes.Compare":                                {Det: true, Note: "0 iff equal"},
	"bytes.Equal":                                  {Det: true},
	"bytes.TrimRight":                              {Det: true, Note: "result is a prefix of the argument: 0 <= len(result) <= len(arg)"},
	"encoding/xml.NewDecoder":                      {Fresh: true, NonNil: []int{0}, Note: "decoder over the reader; Decode(v) on a fresh decoder is Unmarshal(all bytes, v)"},
	"(*encoding/xml.Decoder).Decode":               {Writes: []int{1}, Note: "canonicalised to xml.Unmarshal when the reader's bytes are known"},
	"unicode/utf8.EncodeRune":                      {Writes: []int{0}, Pre: "len(p) >= utf8.RuneLen(r)", Note: "panics when the destination is too short for the rune"},
	"errors.Is":                                    {Note: "compares along the Unwrap chain; reads only"},
	"errors.Unwrap":                                {Note: "reads only"},
	"errors.As":                                    {Writes: []int{1}, Note: "stores the match into target"},
	"(*sync/atomic.Uint64).Add":                    {Writes: []int{0}, ConcSafeRecv: true, Note: "atomic"},
	"(*sync/atomic.Uint64).Load":                   {ConcSafeRecv: true, Note: "atomic"},
	"(*sync/atomic.Int64).Add":                     {Writes: []int{0}, ConcSafeRecv: true, Note: "atomic"},
	"(*sync/atomic.Int64).Load":                    {ConcSafeRecv: true, Note: "atomic"},
	"(*sync/atomic.Uint32).Add":                    {Writes: []int{0}, ConcSafeRecv: true, Note: "atomic"},
	"(*sync/atomic.Uint32).Load":                   {ConcSafeRecv: true, Note: "atomic"},
	"encoding/base64.NewEncoder":                   {ResultOf: []int{1}, NonNil: []int{0}, Note: "streaming encoder over w: the Encoding is only read"},
	"(io.WriteCloser).Write":                       {Writes: []int{0}, Note: "io.Writer: writes to the receiver, must not modify p"},
	"(io.WriteCloser).Close":                       {Writes: []int{0}, Note: "flushes the receiver"},
	"(io.Writer).Write":                            {Writes: []int{0}, Note: "io.Writer: writes to the receiver, must not modify p"},
	"(*encoding/base64.Encoding).DecodedLen":       {Det: true, Note: "0 <= DecodedLen(n) <= n"},
	"(*encoding/base64.Encoding).EncodedLen":       {Det: true, Note: "0 <= EncodedLen(n) <= 4*(n/3+1)"},
	"(*encoding/base64.Encoding).Decode":           {Writes: []int{1}, Note: "canonicalised to DecodeString for a destination of exactly DecodedLen(len(src))"},
	"(*encoding/base64.Encoding).Encode":           {Writes: []int{1}, Note: "canonicalised to EncodeToString for a destination of exactly EncodedLen(len(src))"},
	"(time.Time).In":                               {Det: true, Note: "same instant in another location; In(time.UTC) is UTC()"},
	"time.ParseInLocation":                         {Det: true, Note: "for layouts that carry a zone the location does not influence the instant"},
	"(time.Time).AppendFormat":                     {Writes: []int{1}, Note: "Format appended to b"},
	"net/url.ParseQuery":                           {Fresh: true, Note: "u.Query() is ParseQuery(u.RawQuery) with the error dropped"},
	"(*github.com/beevik/etree.Document).WriteTo":  {Writes: []int{1}, Note: "WriteToBytes written to w"},
	"(*github.com/beevik/etree.Document).ReadFrom": {TreeMutator: true, Note: "ReadFromBytes over the reader's bytes"},
	"github.com/beevik/etree.NewDocumentWithRoot":  {NonNil: []int{0}, Fresh: true, Note: "NewDocument() + SetRoot(e)"},
	"bytes.NewReader":                              {Fresh: true, NonNil: []int{0}},
	"(*bytes.Buffer).Bytes":                        {},
	"(*bytes.Buffer).Len":                          {},
	"(*bytes.Buffer).String":                       {},
	"(*bytes.Buffer).WriteByte":                    {Writes: []int{0}},
	"(*bytes.Buffer).WriteString":                  {Writes: []int{0}},
	"(*bytes.Buffer).WriteRune":                    {Writes: []int{0}},
	"(*strings.Builder).Len":                       {},
	"(*strings.Builder).String":                    {},
	"(*strings.Builder).Grow":                      {Writes: []int{0}},
	"(*strings.Builder).WriteByte":                 {Writes: []int{0}},
	"(*strings.Builder).WriteRune":                 {Writes: []int{0}},
	"(*strings.Builder).WriteString":               {Writes: []int{0}},
	"strings.Join":                                 {Det: true},
	"fmt.Fprintf":                                  {Writes: []int{0}},
	"io.WriteString":                               {Writes: []int{0}, Note: "w.Write([]byte(s)) unless w has WriteString"},
	// --- std: encoding
	"(*encoding/base64.Encoding).DecodeString":   {Fresh: true, Det: true, NonNil: []int{0}, Note: "the result slice is made by the call: non-nil even when empty"},
	"(*encoding/base64.Encoding).EncodeToString": {Fresh: true, Det: true},
	"encoding/hex.EncodeToString":                {Det: true},
	"encoding/xml.Unmarshal":                     {Writes: []int{1}, Note: "error unless the root element has the tagged XMLName; absent optional elements leave pointer fields nil; xml:\"-\" fields never written"},
	// --- std: io / compress
	"io.LimitReader":                 {Fresh: true, NonNil: []int{0}, Note: "at most n bytes are read from r"},
	"io.ReadAll":                     {Fresh: true, Note: "reads to EOF or error"},
	"compress/flate.NewReader":       {Fresh: true, NonNil: []int{0}},
	"compress/flate.NewWriter":       {Fresh: true, OkNonNil: []int{0}},
	"(*compress/flate.Writer).Write": {Writes: []int{0}},
	"(*compress/flate.Writer).Close": {Writes: []int{0}},
	// --- std: crypto
	"crypto/x509.ParseCertificate":          {Fresh: true, Det: true, OkNonNil: []int{0}},
	"crypto/cipher.NewGCM":                  {Fresh: true, OkNonNil: []int{0}},
	"crypto/cipher.NewCBCDecrypter":         {Fresh: true, NonNil: []int{0}, Pre: "len(iv) == b.BlockSize()"},
	"(crypto/cipher.BlockMode).CryptBlocks": {Writes: []int{1}, Pre: "len(src) % BlockSize == 0 && len(dst) >= len(src)"},
	"(crypto/cipher.AEAD).Open":             {Fresh: true, Pre: "len(nonce) == NonceSize()"},
	"(crypto/cipher.AEAD).NonceSize":        {Det: true, Note: "stable getter"},
	"(crypto/cipher.AEAD).Overhead":         {Det: true, Note: "stable getter"},
	"(crypto/cipher.Block).BlockSize":       {Det: true, Note: "stable getter, > 0"},
	"(hash.Hash).Size":                      {Det: true},
	"(hash.Hash).Write":                     {Writes: []int{0}},
	"(hash.Hash).Sum":                       {Fresh: true},
	"(crypto.Hash).New":                     {NonNil: []int{0}, Fresh: true, Note: "the registered constructor: crypto.SHA1.New() is sha1.New()"},
	"crypto/sha1.New":                       {Fresh: true, NonNil: []int{0}},
	"crypto/sha256.New":                     {Fresh: true, NonNil: []int{0}},
	"crypto/sha512.New":                     {Fresh: true, NonNil: []int{0}},
	"crypto/rsa.DecryptOAEP":                {Fresh: true, Writes: []int{0}},
	"crypto/rsa.DecryptPKCS1v15":            {Fresh: true},
	"crypto/aes.NewCipher":                  {Fresh: true, OkNonNil: []int{0}},
	"crypto/rand.Read":                      {Writes: []int{0}, LenRes0: true, Note: "fills the whole slice or returns an error: n == len(b) iff err == nil"},
	// --- std: url / http / template
	"net/url.Parse":                             {Fresh: true, OkNonNil: []int{0}},
	"(*net/url.URL).Query":                      {Fresh: true, NonNil: []int{0}},
	"(*net/url.URL).String":                     {},
	"(net/url.Values).Add":                      {Writes: []int{0}},
	"(net/url.Values).Get":                      {},
	"(net/url.Values).Encode":                   {},
	"net/url.QueryEscape":                       {Det: true},
	"net/http.Redirect":                         {Writes: []int{0}},
	"encoding/hex.Encode":                       {Writes: []int{0}},
	"html/template.New":                         {Fresh: true, NonNil: []int{0}},
	"(*html/template.Template).Parse":           {Writes: []int{0}, OkNonNil: []int{0}},
	"html/template.Must":                        {NonNil: []int{0}, Pre: "err == nil"},
	"(*html/template.Template).ExecuteTemplate": {Writes: []int{1}, ConcSafeRecv: true, Note: "Execute of the associated template of that name"},
	"(*html/template.Template).Execute":         {Writes: []int{1}, ConcSafeRecv: true, Note: "html/template: a template may be executed safely in parallel"},
	// --- std: sync
	"(*sync.RWMutex).RLock":   {},
	"(*sync.RWMutex).RUnlock": {},
	"(*sync.RWMutex).Lock":    {},
	"(*sync.RWMutex).Unlock":  {},
	// --- used by the thorough-tier audit of goxmldsig
	"(*crypto/x509.Certificate).Equal":                  {Det: true},
	"(*crypto/x509.Certificate).CheckSignature":         {Det: true},
	"(" + pDsig + ".X509CertificateStore).Certificates": {Note: "user-supplied store"},
	"(*regexp.Regexp).ReplaceAllString":                 {Det: true},
	// --- misc
	"(error).Error":                       {Det: true},
	"(*" + modPath + "/uuid.UUID).String": {Det: true},
}

func lookupContract(name string) *Contract {
	if c, ok := contracts[name]; ok {
		return c
	}
	return nil
}

func contractNonNil(c *CallV) bool {
	ct := lookupContract(strings.TrimSuffix(c.Callee, "$own-error"))
	if ct == nil {
		return false
	}
	for _, i := range ct.NonNil {
		if i == c.Idx {
			return true
		}
	}
	return false
}

// canonParams: the names under which the rules refer to the parameters (receiver first) of kernel roots. Binding is by
// position, so renaming a parameter in the source changes nothing; parameters of a type with a symbol (SP, R, A, ...)
// are rendered by that symbol and need no entry.
var canonParams = map[string][]string{
	"maybeDeflate": {"data", "maxSize", "decoder"},
	"(*SAMLServiceProvider).RetrieveAssertionInfo": {"", "encodedResponse"},
	"DecodeUnverifiedBaseResponse":                 {"encodedResponse"},
	"DecodeUnverifiedLogoutResponse":               {"encodedResponse"},
	"(Values).Get":                                 {"vals", "k"},
	"(Values).GetSize":                             {"vals", "k"},
	"(Values).GetAll":                              {"vals", "k"},
	"(*SAMLServiceProvider).SignAuthnRequest":      {"", "el"},
	"(*SAMLServiceProvider).SignLogoutRequest":     {"", "el"},
	"(*SAMLServiceProvider).SignLogoutResponse":    {"", "el"},
	"(*SAMLServiceProvider).decryptAssertions":     {"", "el"},
	"(*SAMLServiceProvider).MetadataWithSLO":       {"", "validityHours"},
}
