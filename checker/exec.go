package main

// pathwalk: path-sensitive symbolic simulation of go/ssa functions (DESIGN.md §2.4, A.1).
//
// The engine enumerates the control-flow paths of a kernel function. Module-internal callees
// are inlined when the kernel's policy says so; everything else is a symbolic call result
// governed by the external contract table. Loops and traversal handlers are explored as a
// zero-iteration path plus one *generic* iteration (header phis / locations written in the
// loop are havocked first), see DESIGN.md A.1.
//
// No function of the analysed library is ever executed.

import (
	"fmt"
	"go/constant"
	"go/token"
	"go/types"
	"sort"
	"strings"

	"golang.org/x/tools/go/ssa"
)

type EvKind int

const (
	EvCall EvKind = iota
	EvEnter
	EvExit
	EvStore
	EvDeref
	EvIndex
	EvSlice
	EvTypeAssert
	EvDiv
	EvMapUpdate
	EvIterEnter
	EvIterExit
	EvLoopEnter
	EvLoopBack
	EvLoopExit
	EvDefer
	EvLookup
	EvMakeSlice
)

var evNames = map[EvKind]string{EvCall: "call", EvEnter: "enter", EvExit: "exit", EvStore: "store", EvDeref: "deref",
	EvIndex: "index", EvSlice: "slice", EvTypeAssert: "typeassert", EvDiv: "div", EvMapUpdate: "mapupdate",
	EvIterEnter: "iter-enter", EvIterExit: "iter-exit", EvLoopEnter: "loop-enter", EvLoopBack: "loop-back", EvLoopExit: "loop-exit", EvDefer: "defer", EvLookup: "lookup", EvMakeSlice: "makeslice"}

type Event struct {
	Kind        EvKind
	Instr       ssa.Instruction
	Fn          *ssa.Function
	Ctx         string
	Callee      string
	CalleeFn    *ssa.Function
	Args        []Val
	Res         []Val
	Addr        Val
	Val         Val
	X           Val // indexed / sliced / dereferenced / asserted operand
	I           Val
	Lo, Hi, Max Val
	NFacts      int
	Iters       []string // enclosing generic iterations (loops, handler invocations)
	Seq         int
	Deferred    bool
	Phis        []PhiInfo // loop-enter: header phis of the generic iteration
	TreeEpoch   int       // number of tree-changing operations on the path before this event
}

type PhiInfo struct {
	Key     string // key of the LoopPhiV
	Init    Val
	Step    int64
	HasStep bool
}

func (e *Event) String() string {
	switch e.Kind {
	case EvCall, EvEnter, EvDefer:
		as := make([]string, len(e.Args))
		for i, a := range e.Args {
			as[i] = a.Key()
		}
		return fmt.Sprintf("%s %s(%s)", evNames[e.Kind], shortName(e.Callee), shortName(strings.Join(as, ", ")))
	case EvStore:
		return fmt.Sprintf("store %s = %s", shortName(lvalKey(e.Addr)), shortName(e.Val.Key()))
	}
	return evNames[e.Kind]
}

type Fact struct {
	Cond   Val
	Pol    bool
	Forced bool
	Instr  ssa.Instruction
	Seq    int // number of events before the fact
}

func (f Fact) String() string {
	if f.Pol {
		return shortName(f.Cond.Key())
	}
	return "!" + shortName(f.Cond.Key())
}

type loopCtx struct {
	info  *loopInfo
	mode  int // 0 generic, 1 exitZ, 2 exitG, 3 concrete (constant trip count: executed as written)
	id    string
	trips int
	phis  []PhiInfo      // header phis with their entry values (generic iteration)
	pre   map[string]Val // heap contents at loop entry (before the loop-carried locations were forgotten)
}

type Frame struct {
	fn          *ssa.Function
	ctx         string
	env         map[ssa.Value]Val
	block       *ssa.BasicBlock
	prev        *ssa.BasicBlock
	pc          int
	retTo       ssa.Instruction // call instruction in the caller frame
	defers      []*Event
	loops       []*loopCtx
	handler     bool // frame is a generic handler invocation; its return value becomes the iterate call's result
	handlerIter string
}

type cell struct {
	addr Val
	val  Val
}

type State struct {
	frames    []*Frame
	heap      map[string]cell
	dirty     map[string]int
	epoch     int
	facts     []Fact
	events    []*Event
	nonce     int
	iters     []string
	visits    map[string]int
	treeEpoch int
}

type Terminal struct {
	Kind  string // "return" | "panic"
	Vals  []Val
	Instr ssa.Instruction
	Fn    *ssa.Function
	St    *State
	Depth int // frame depth at termination (panic inside inlined callee > 1)
}

type Engine struct {
	P          *Prog
	Inline     func(caller, callee *ssa.Function, depth int) bool
	MaxPaths   int
	Unmodelled map[string]int
	loops      map[*ssa.Function]map[*ssa.BasicBlock]*loopInfo
	Errors     []string
	boundInl   map[*ssa.Function]bool // methods whose method value was created by simulated code: inlined like closures
	Excluded   map[*ssa.Function]bool // functions the kernel wants to see as calls, even when reached through a method value
	NotInlined map[*ssa.Function]bool // module callees that were summarised instead of inlined at some site
	// ParamNonNil: assume pointer parameters / receivers of the root non-nil
	steps int
}

type Result struct {
	Root   *ssa.Function
	Terms  []*Terminal
	Pruned int
	Steps  int
}

func NewEngine(p *Prog) *Engine {
	return &Engine{P: p, MaxPaths: 20000, Unmodelled: map[string]int{}, loops: map[*ssa.Function]map[*ssa.BasicBlock]*loopInfo{}, boundInl: map[*ssa.Function]bool{}, NotInlined: map[*ssa.Function]bool{}}
}

func (st *State) clone() *State {
	n := &State{epoch: st.epoch, nonce: st.nonce, treeEpoch: st.treeEpoch}
	n.frames = make([]*Frame, len(st.frames))
	for i, f := range st.frames {
		nf := *f
		nf.env = make(map[ssa.Value]Val, len(f.env))
		for k, v := range f.env {
			nf.env[k] = v
		}
		nf.defers = append([]*Event(nil), f.defers...)
		nf.loops = make([]*loopCtx, len(f.loops))
		for j, l := range f.loops {
			c := *l
			nf.loops[j] = &c
		}
		n.frames[i] = &nf
	}
	n.heap = make(map[string]cell, len(st.heap))
	for k, v := range st.heap {
		n.heap[k] = v
	}
	n.dirty = make(map[string]int, len(st.dirty))
	for k, v := range st.dirty {
		n.dirty[k] = v
	}
	n.visits = make(map[string]int, len(st.visits))
	for k, v := range st.visits {
		n.visits[k] = v
	}
	n.facts = append([]Fact(nil), st.facts...)
	n.events = append([]*Event(nil), st.events...)
	n.iters = append([]string(nil), st.iters...)
	return n
}

func (st *State) top() *Frame { return st.frames[len(st.frames)-1] }

func (st *State) addEvent(e *Event) *Event {
	f := st.top()
	if e.Fn == nil {
		e.Fn = f.fn
	}
	e.Ctx = f.ctx
	e.NFacts = len(st.facts)
	e.Iters = append([]string(nil), st.iters...)
	e.Seq = len(st.events)
	e.TreeEpoch = st.treeEpoch
	st.events = append(st.events, e)
	return e
}

// ---------------------------------------------------------------- running

func (en *Engine) Run(fn *ssa.Function) (*Result, error) {
	if fn == nil || fn.Blocks == nil {
		return nil, fmt.Errorf("pathwalk: function has no body")
	}
	st := &State{heap: map[string]cell{}, dirty: map[string]int{}, visits: map[string]int{}}
	if fn.Name() != "init" {
		for k, c := range en.P.constGlobals(en) {
			st.heap[k] = c
		}
	}
	fr := &Frame{fn: fn, ctx: "", env: map[ssa.Value]Val{}, block: fn.Blocks[0]}
	for i, p := range fn.Params {
		v := &ParamV{Fn: fn, Idx: i, Name: p.Name()}
		if cp, ok := canonParams[shortFn(fn)]; ok && i < len(cp) && cp[i] != "" {
			v.Name = cp[i] // positional: the rules' name for this parameter, whatever the source calls it
		}
		v.typ = p.Type()
		v.key = p.Name()
		fr.env[p] = v
	}
	for _, fv := range fn.FreeVars {
		v := &FreeV{Name: fv.Name()}
		v.typ = fv.Type()
		v.key = "free:" + fv.Name()
		fr.env[fv] = v
	}
	st.frames = []*Frame{fr}
	res := &Result{Root: fn}
	work := []*State{st}
	for len(work) > 0 {
		s := work[len(work)-1]
		work = work[:len(work)-1]
		next, term, err := en.runUntilBranch(s)
		if err != nil {
			return nil, err
		}
		if term != nil {
			res.Terms = append(res.Terms, term)
			if len(res.Terms) > en.MaxPaths {
				return nil, fmt.Errorf("pathwalk: kernel %s exceeds %d paths", fn, en.MaxPaths)
			}
		}
		if next == nil && term == nil {
			res.Pruned++
		}
		work = append(work, next...)
	}
	res.Steps = en.steps
	return res, nil
}

func siteOf(in ssa.Instruction) string {
	b := in.Block()
	if b == nil {
		return "?"
	}
	for i, o := range b.Instrs {
		if o == in {
			return fmt.Sprintf("%s:b%di%d", baseFn(b.Parent()), b.Index, i)
		}
	}
	return fmt.Sprintf("%s:b%d", baseFn(b.Parent()), b.Index)
}

// baseFn: short, stable function label for site ids (method name, closures as parent$n).
func baseFn(fn *ssa.Function) string {
	if fn == nil {
		return "?"
	}
	return fn.Name()
}

func (en *Engine) eval(st *State, fr *Frame, v ssa.Value) Val {
	switch x := v.(type) {
	case *ssa.Const:
		return mkConst(x)
	case *ssa.Function:
		return mkClosure(x, nil, "")
	case *ssa.Global:
		g := &GlobalV{G: x}
		g.typ = x.Type()
		g.key = "&" + shortName(x.String())
		return g
	case *ssa.Builtin:
		return mkUnknown("builtin:"+x.Name(), x.Type(), 0)
	}
	if val, ok := fr.env[v]; ok {
		return val
	}
	st.nonce++
	en.Errors = append(en.Errors, fmt.Sprintf("unbound ssa value %s in %s", v.Name(), fr.fn))
	return mkUnknown("unbound:"+v.Name(), v.Type(), st.nonce)
}

// runUntilBranch advances st until it terminates or forks.
func (en *Engine) runUntilBranch(st *State) ([]*State, *Terminal, error) {
	for {
		en.steps++
		if en.steps > 5_000_000 {
			return nil, nil, fmt.Errorf("pathwalk: step budget exhausted")
		}
		fr := st.top()
		if fr.pc >= len(fr.block.Instrs) {
			return nil, nil, fmt.Errorf("pathwalk: fell off block %d of %s", fr.block.Index, fr.fn)
		}
		in := fr.block.Instrs[fr.pc]
		fr.pc++
		switch x := in.(type) {
		case *ssa.DebugRef:
		case *ssa.Phi:
			// handled at block entry
		case *ssa.Alloc:
			fr.env[x] = en.alloc(st, fr, x, x.Type(), x.Comment, x.Heap)
		case *ssa.MakeMap:
			fr.env[x] = en.alloc(st, fr, x, x.Type(), "makemap", true)
		case *ssa.MakeSlice:
			a := en.alloc(st, fr, x, x.Type(), "makeslice", true)
			fr.env[x] = a
			lv, cv := en.eval(st, fr, x.Len), en.eval(st, fr, x.Cap)
			st.heap["len:"+a.Key()] = cell{a, lv}
			st.heap["cap:"+a.Key()] = cell{a, cv}
			st.addEvent(&Event{Kind: EvMakeSlice, Instr: x, X: a, Lo: lv, Hi: cv})
		case *ssa.MakeChan:
			fr.env[x] = en.alloc(st, fr, x, x.Type(), "makechan", true)
		case *ssa.FieldAddr:
			xv := en.eval(st, fr, x.X)
			st.addEvent(&Event{Kind: EvDeref, Instr: x, X: xv})
			owner, _ := derefStruct(x.X.Type())
			if owner == nil {
				owner = x.X.Type().Underlying().(*types.Pointer).Elem()
			}
			fr.env[x] = mkFieldAddr(xv, x.Field, owner, x.Type().Underlying().(*types.Pointer).Elem())
		case *ssa.Field:
			xv := en.eval(st, fr, x.X)
			stt := x.X.Type().Underlying().(*types.Struct)
			fr.env[x] = mkField(xv, x.Field, stt.Field(x.Field).Name(), x.Type())
		case *ssa.IndexAddr:
			xv := en.eval(st, fr, x.X)
			iv := en.eval(st, fr, x.Index)
			if _, isPtr := x.X.Type().Underlying().(*types.Pointer); isPtr {
				st.addEvent(&Event{Kind: EvDeref, Instr: x, X: xv})
			}
			st.addEvent(&Event{Kind: EvIndex, Instr: x, X: xv, I: iv})
			fr.env[x] = mkIndexAddrCanon(xv, iv, x.Type().Underlying().(*types.Pointer).Elem())
		case *ssa.Index:
			xv := en.eval(st, fr, x.X)
			iv := en.eval(st, fr, x.Index)
			st.addEvent(&Event{Kind: EvIndex, Instr: x, X: xv, I: iv})
			fr.env[x] = mkIndex(xv, iv, x.Type())
			if _, isLit := xv.(*ArrayLitV); isLit {
				fr.env[x] = mkIndexOfValue(xv, iv, x.Type())
			}
			if b, ok := constPrefixByte(xv, iv); ok {
				fr.env[x] = constOf(constant.MakeInt64(int64(b)), x.Type())
			}
			// element of a copy of an effectively-constant package-level array (never written outside init)
			if l, ok := xv.(*LoadV); ok {
				if _, isG := directBase(l.Addr).(*GlobalV); isG {
					if _, isC := iv.(*ConstV); isC {
						if c, ok := en.P.globalInit[mkIndexAddr(l.Addr, iv, x.Type()).Key()]; ok {
							fr.env[x] = c.val
						}
					}
				}
			}
		case *ssa.Lookup:
			xv := en.eval(st, fr, x.X)
			iv := en.eval(st, fr, x.Index)
			if _, isMap := x.X.Type().Underlying().(*types.Map); isMap {
				st.addEvent(&Event{Kind: EvLookup, Instr: x, X: xv, I: iv})
				if a, ok := xv.(*AllocV); ok && a.Comment == "makemap" {
					_, dirty := st.dirty[a.Key()]
					_, sym := st.heap["mapsym:"+a.Key()]
					if _, isC := iv.(*ConstV); isC && !dirty && !sym {
						var val Val
						present := false
						if c, ok := st.heap["map:"+a.Key()+"["+iv.Key()+"]"]; ok {
							val, present = c.val, true
						}
						if x.CommaOk {
							tt := x.Type().(*types.Tuple)
							if !present {
								val = zeroOf(tt.At(0).Type())
							}
							fr.env[x] = mkTuple([]Val{val, boolV(present)})
						} else {
							if !present {
								val = zeroOf(x.Type())
							}
							fr.env[x] = val
						}
						continue
					}
				}
				if a, ok := xv.(*AllocV); ok && a.Comment == "makemap" {
					_, dirty := st.dirty[a.Key()]
					_, sym := st.heap["mapsym:"+a.Key()]
					if set, isSet := st.heap["mapset:"+a.Key()]; isSet && !dirty {
						// a set filled by one insertion per element of an exhaustively visited collection:
						// membership of k holds iff some element's key equals k
						m := set.val.(*MapV)
						cnd, pol := normCond(mkBin(token.EQL, m.Elem, iv, types.Typ[types.Bool]), true)
						mk := func(s *State, present bool) {
							f := s.top()
							if x.CommaOk {
								tt := x.Type().(*types.Tuple)
								f.env[x] = mkTuple([]Val{zeroOrIndex(xv, iv, tt.At(0).Type(), present), boolV(present)})
							} else {
								f.env[x] = zeroOrIndex(xv, iv, x.Type(), present)
							}
						}
						if b, known := decide(st, cnd); known {
							mk(st, b == pol)
							continue
						}
						yes, no := st.clone(), st.clone()
						yes.facts = append(yes.facts, Fact{Cond: cnd, Pol: pol, Instr: x, Seq: len(yes.events)})
						no.facts = append(no.facts, Fact{Cond: cnd, Pol: !pol, Instr: x, Seq: len(no.events)})
						mk(yes, true)
						mk(no, false)
						return []*State{yes, no}, nil, nil
					}
					if !dirty && !sym && !en.mapHasEntries(st, a) {
						// nothing was ever inserted on this path
						if x.CommaOk {
							tt := x.Type().(*types.Tuple)
							fr.env[x] = mkTuple([]Val{zeroOf(tt.At(0).Type()), boolV(false)})
						} else {
							fr.env[x] = zeroOf(x.Type())
						}
						continue
					}
				}
				// a read-only table (package-level map assigned once by the initialiser) looked up with a symbolic key:
				// one continuation per entry (key == k_i) and one for "no entry" — the switch the table stands for
				if a, ok := xv.(*AllocV); ok && a.Comment == "makemap" {
					if _, frozen := st.heap["frozenmap:"+a.Key()]; frozen {
						if forks := en.lookupFrozen(st, fr, x, a, iv); forks != nil {
							return forks, nil, nil
						}
					}
				}
				r := mkIndex(xv, iv, x.Type())
				if x.CommaOk {
					tt := x.Type().(*types.Tuple)
					v0 := mkIndex(xv, iv, tt.At(0).Type())
					ok := mkCall("maphas", nil, []Val{xv, iv}, "", 0, 1, tt.At(1).Type())
					r = mkTuple([]Val{v0, ok})
				}
				fr.env[x] = r
			} else {
				st.addEvent(&Event{Kind: EvIndex, Instr: x, X: xv, I: iv})
				// byte i of "const" + s for i inside the constant prefix
				if b, ok := constPrefixByte(xv, iv); ok {
					fr.env[x] = constOf(constant.MakeInt64(int64(b)), x.Type())
				} else {
					fr.env[x] = mkIndex(xv, iv, x.Type())
				}
			}
		case *ssa.Slice:
			xv := en.eval(st, fr, x.X)
			var lo, hi, mx Val
			if x.Low != nil {
				lo = en.eval(st, fr, x.Low)
			}
			if x.High != nil {
				hi = en.eval(st, fr, x.High)
			}
			if x.Max != nil {
				mx = en.eval(st, fr, x.Max)
			}
			// dst[:n] after n, err := enc.Decode(dst, []byte(s)) into a buffer of exactly DecodedLen(len(s)) is the
			// result of enc.DecodeString(s); n <= len(dst) by the library's contract
			if a, ok := xv.(*AllocV); ok && a.Comment == "makeslice" && lo == nil && hi != nil && mx == nil {
				if c, has := st.heap["b64d:"+a.Key()]; has {
					tv := c.val.(*TupleV)
					if tv.Vals[1].Key() == hi.Key() {
						fr.env[x] = tv.Vals[0]
						continue
					}
				}
			}
			if _, isPtr := x.X.Type().Underlying().(*types.Pointer); isPtr {
				st.addEvent(&Event{Kind: EvDeref, Instr: x, X: xv})
			}
			st.addEvent(&Event{Kind: EvSlice, Instr: x, X: xv, Lo: lo, Hi: hi, Max: mx})
			// b[:len(b)] and b[:len(b):len(b)] are the same bytes at the same place (only the capacity is clipped)
			if isSliceType(x.X.Type()) && hi != nil && (lo == nil || isConstInt(lo, 0)) && hi.Key() == mkLen(st, xv, hi.Type()).Key() && (mx == nil || mx.Key() == hi.Key()) {
				fr.env[x] = xv
				continue
			}
			fr.env[x] = mkSlice(xv, lo, hi, mx, x.Type())
		case *ssa.UnOp:
			xv := en.eval(st, fr, x.X)
			switch x.Op {
			case token.MUL:
				st.addEvent(&Event{Kind: EvDeref, Instr: x, X: xv})
				fr.env[x] = en.load(st, xv, x.Type())
			default:
				fr.env[x] = mkUn(x.Op, xv, x.Type())
			}
		case *ssa.BinOp:
			xv := en.eval(st, fr, x.X)
			yv := en.eval(st, fr, x.Y)
			if x.Op == token.QUO || x.Op == token.REM {
				if b, ok := x.X.Type().Underlying().(*types.Basic); ok && b.Info()&types.IsInteger != 0 {
					st.addEvent(&Event{Kind: EvDiv, Instr: x, X: xv, I: yv})
				}
			}
			fr.env[x] = mkBin(x.Op, xv, yv, x.Type())
		case *ssa.Store:
			av := en.eval(st, fr, x.Addr)
			vv := en.eval(st, fr, x.Val)
			st.addEvent(&Event{Kind: EvDeref, Instr: x, X: av})
			if _, isC := vv.(*ConstV); !isC && isBoolType(x.Val.Type()) {
				// a flag assigned from a boolean expression: split on its truth, exactly as `if e { f = true } else { f = false }`
				cnd, pol := normCond(vv, true)
				computed := false // a comparison or a predicate call, not a copy of (the negation of) stored data
				switch cnd.(type) {
				case *BinV, *CallV:
					computed = true
				}
				if computed {
					if b, known := decide(st, cnd); known {
						vv = boolV(b == pol)
					} else {
						s2 := st.clone()
						st.facts = append(st.facts, Fact{Cond: cnd, Pol: pol, Instr: x, Seq: len(st.events)})
						en.store(st, av, boolV(true))
						st.addEvent(&Event{Kind: EvStore, Instr: x, Addr: av, Val: boolV(true)})
						s2.facts = append(s2.facts, Fact{Cond: cnd, Pol: !pol, Instr: x, Seq: len(s2.events)})
						en.store(s2, av, boolV(false))
						s2.addEvent(&Event{Kind: EvStore, Instr: x, Addr: av, Val: boolV(false)})
						return []*State{st, s2}, nil, nil
					}
				}
			}
			en.store(st, av, vv)
			st.addEvent(&Event{Kind: EvStore, Instr: x, Addr: av, Val: vv})
		case *ssa.MapUpdate:
			mv := en.eval(st, fr, x.Map)
			kv := en.eval(st, fr, x.Key)
			vv := en.eval(st, fr, x.Value)
			st.addEvent(&Event{Kind: EvMapUpdate, Instr: x, X: mv, I: kv, Val: vv})
			// local map with constant keys: contents are tracked exactly
			if a, ok := mv.(*AllocV); ok && a.Comment == "makemap" {
				if _, isC := kv.(*ConstV); isC {
					st.heap["map:"+a.Key()+"["+kv.Key()+"]"] = cell{a, vv}
					st.heap["mapkey:"+a.Key()+"["+kv.Key()+"]"] = cell{a, kv}
				} else {
					st.heap["mapsym:"+a.Key()] = cell{a, kv}
					n := int64(0)
					if c, ok := st.heap["mapsymn:"+a.Key()]; ok {
						n, _ = constInt(c.val)
					}
					st.heap["mapsymn:"+a.Key()] = cell{a, intV(n + 1)}
				}
			}
		case *ssa.MakeInterface:
			fr.env[x] = mkIface(en.eval(st, fr, x.X), x.Type(), x.X.Type())
		case *ssa.ChangeType:
			fr.env[x] = en.eval(st, fr, x.X)
		case *ssa.ChangeInterface:
			fr.env[x] = en.eval(st, fr, x.X)
		case *ssa.Convert:
			xv := en.eval(st, fr, x.X)
			// string(dst) after enc.Encode(dst, b) into a buffer of exactly EncodedLen(len(b)) is enc.EncodeToString(b)
			if a, ok := xv.(*AllocV); ok && a.Comment == "makeslice" && isStringType(x.Type()) {
				if c, has := st.heap["b64e:"+a.Key()]; has {
					fr.env[x] = c.val
					continue
				}
			}
			fr.env[x] = mkConv(xv, x.Type())
		case *ssa.MultiConvert:
			fr.env[x] = mkConv(en.eval(st, fr, x.X), x.Type())
		case *ssa.SliceToArrayPointer:
			fr.env[x] = mkConv(en.eval(st, fr, x.X), x.Type())
		case *ssa.TypeAssert:
			xv := en.eval(st, fr, x.X)
			if mi, ok := xv.(*MakeIfaceV); ok && x.CommaOk {
				// dynamic type statically known
				if _, isIface := x.AssertedType.Underlying().(*types.Interface); !isIface {
					tt := x.Type().(*types.Tuple)
					if types.Identical(mi.Dyn, x.AssertedType) {
						fr.env[x] = mkTuple([]Val{mi.X, boolV(true)})
					} else {
						fr.env[x] = mkTuple([]Val{zeroOf(tt.At(0).Type()), boolV(false)})
					}
					continue
				}
			}
			if x.CommaOk {
				tt := x.Type().(*types.Tuple)
				fr.env[x] = mkTuple([]Val{
					mkTypeAssert(xv, x.AssertedType, true, 0, tt.At(0).Type()),
					mkTypeAssert(xv, x.AssertedType, true, 1, tt.At(1).Type())})
			} else {
				st.addEvent(&Event{Kind: EvTypeAssert, Instr: x, X: xv})
				fr.env[x] = mkTypeAssert(xv, x.AssertedType, false, 0, x.Type())
			}
		case *ssa.Extract:
			tv := en.eval(st, fr, x.Tuple)
			if t, ok := tv.(*TupleV); ok && x.Index < len(t.Vals) {
				fr.env[x] = t.Vals[x.Index]
			} else {
				st.nonce++
				fr.env[x] = mkUnknown("extract", x.Type(), st.nonce)
			}
		case *ssa.MakeClosure:
			b := make([]Val, len(x.Bindings))
			for i, bv := range x.Bindings {
				b[i] = en.eval(st, fr, bv)
			}
			fr.env[x] = mkClosure(x.Fn.(*ssa.Function), b, fr.ctx+"/"+siteOf(x))
			if tgt := boundTarget(en.P, x.Fn.(*ssa.Function)); tgt != nil && en.P.inModule(tgt) {
				en.boundInl[tgt] = true
			}
		case *ssa.Range:
			st.nonce++
			fr.env[x] = mkUnknown("range", x.Type(), st.nonce)
		case *ssa.Next:
			tt := x.Type().(*types.Tuple)
			vals := make([]Val, tt.Len())
			for i := range vals {
				st.nonce++
				vals[i] = mkUnknown("next", tt.At(i).Type(), st.nonce)
			}
			fr.env[x] = mkTuple(vals)
		case *ssa.Send, *ssa.Go, *ssa.Select:
			en.Errors = append(en.Errors, fmt.Sprintf("unsupported instruction %T in %s", in, fr.fn))
		case *ssa.Defer:
			ev := en.callEvent(st, fr, x)
			ev.Kind = EvDefer
			ev.Deferred = true
			st.addEvent(ev)
			fr.defers = append(fr.defers, ev)
		case *ssa.RunDefers:
			for i := len(fr.defers) - 1; i >= 0; i-- {
				d := fr.defers[i]
				ne := *d
				ne.Kind = EvCall
				ne.Deferred = true
				ne.Instr = x
				st.addEvent(&ne)
			}
			fr.defers = nil
		case *ssa.Call:
			forks, pushed, err := en.doCall(st, fr, x)
			if err != nil {
				return nil, nil, err
			}
			if forks != nil {
				return forks, nil, nil
			}
			_ = pushed
		case *ssa.Jump:
			ns := en.transfer(st, fr, fr.block.Succs[0])
			if len(ns) == 1 && ns[0] == st {
				continue
			}
			return ns, nil, nil
		case *ssa.If:
			cv := en.eval(st, fr, x.Cond)
			return en.branch(st, fr, x, cv), nil, nil
		case *ssa.Return:
			vals := make([]Val, len(x.Results))
			for i, r := range x.Results {
				vals[i] = en.eval(st, fr, r)
			}
			if len(st.frames) == 1 {
				return nil, &Terminal{Kind: "return", Vals: vals, Instr: x, Fn: fr.fn, St: st, Depth: 1}, nil
			}
			en.popFrame(st, vals)
		case *ssa.Panic:
			return nil, &Terminal{Kind: "panic", Vals: []Val{en.eval(st, fr, x.X)}, Instr: x, Fn: fr.fn, St: st, Depth: len(st.frames)}, nil
		default:
			en.Errors = append(en.Errors, fmt.Sprintf("unhandled instruction %T in %s", in, fr.fn))
			if v, ok := in.(ssa.Value); ok {
				st.nonce++
				fr.env[v] = mkUnknown(fmt.Sprintf("%T", in), v.Type(), st.nonce)
			}
		}
	}
}

func mkIndexAddrCanon(x, i Val, et types.Type) Val {
	if s, ok := x.(*SliceV); ok && s.Max == nil {
		if s.Lo == nil || isConstInt(s.Lo, 0) {
			if p, ok := s.X.Type().Underlying().(*types.Pointer); ok {
				if _, ok := p.Elem().Underlying().(*types.Array); ok {
					return mkIndexAddr(s.X, i, et)
				}
			}
		}
	}
	return mkIndexAddr(x, i, et)
}

func isConstInt(v Val, n int64) bool {
	i, ok := constInt(v)
	return ok && i == n
}

func (en *Engine) alloc(st *State, fr *Frame, in ssa.Instruction, t types.Type, comment string, heap bool) Val {
	site := fr.ctx + "/" + siteOf(in)
	st.visits[site]++
	if n := st.visits[site]; n > 1 {
		site += fmt.Sprintf("#%d", n)
	}
	a := &AllocV{Site: site, Comment: comment, Heap: heap, Instr: in}
	a.typ = t
	a.key = "alloc<" + comment + ">" + site
	// an Alloc re-executed on the same path (loops) denotes fresh zeroed memory
	for k, c := range st.heap {
		if directBase(c.addr) != nil && directBase(c.addr).Key() == a.key {
			delete(st.heap, k)
		}
	}
	delete(st.dirty, a.key)
	return a
}

// directBase returns the base pointer of an address built only from field / constant-index steps.
func directBase(addr Val) Val {
	for {
		switch x := addr.(type) {
		case *FieldAddrV:
			addr = x.X
		case *IndexAddrV:
			if _, ok := x.X.Type().Underlying().(*types.Pointer); ok {
				addr = x.X
			} else {
				return x.X
			}
		default:
			return addr
		}
	}
}

func hasSymbolicIndex(addr Val) bool {
	for {
		switch x := addr.(type) {
		case *FieldAddrV:
			addr = x.X
		case *IndexAddrV:
			if _, ok := constInt(x.I); !ok {
				return true
			}
			addr = x.X
		default:
			return false
		}
	}
}

func (en *Engine) load(st *State, addr Val, t types.Type) Val {
	if c, ok := st.heap[addr.Key()]; ok {
		return c.val
	}
	// element of a comprehension / of a slice value assembled by appends on this path
	if ia, ok := addr.(*IndexAddrV); ok {
		if m, isMap := ia.X.(*MapV); isMap {
			return mkMapElem(m, ia.I, t)
		}
		// ... or of a slice made with the collection's length and filled by index, one element per iteration
		if a, isA := ia.X.(*AllocV); isA && a.Comment == "makeslice" {
			if c, has := st.heap["slicecomp:"+a.Key()]; has {
				if m, isMap := c.val.(*MapV); isMap {
					return mkMapElem(m, ia.I, t)
				}
			}
		}
		if v, ok := en.appendElem(st, ia.X, ia.I); ok {
			return v
		}
	}
	// field of a struct stored whole
	if fa, ok := addr.(*FieldAddrV); ok {
		if pv, ok := en.loadIfStored(st, fa.X); ok {
			return mkField(pv, fa.Field, fa.Name, t)
		}
	}
	// element of an array stored whole
	if ia, ok := addr.(*IndexAddrV); ok {
		if _, isPtr := ia.X.Type().Underlying().(*types.Pointer); isPtr {
			if pv, ok := en.loadIfStored(st, ia.X); ok {
				if l, isLoad := pv.(*LoadV); isLoad && l.Epoch == 0 {
					// the array was copied from memory that may itself have element entries
					return en.load(st, mkIndexAddr(l.Addr, ia.I, t), t)
				}
				return mkIndexOfValue(pv, ia.I, t)
			}
		}
	}
	db := directBase(addr)
	if g, ok := db.(*GlobalV); ok && !hasSymbolicIndex(addr) && en.hasSubEntries(st, addr) {
		// whole-aggregate read of an effectively-constant package variable: snapshot of its (constant) leaves
		_ = g
		if stt, ok := t.Underlying().(*types.Struct); ok {
			names := make([]string, stt.NumFields())
			fields := map[string]Val{}
			for i := 0; i < stt.NumFields(); i++ {
				names[i] = stt.Field(i).Name()
				fields[names[i]] = en.load(st, mkFieldAddr(addr, i, t, stt.Field(i).Type()), stt.Field(i).Type())
			}
			return mkStructLit(t, names, fields)
		}
		if arr, ok := t.Underlying().(*types.Array); ok && arr.Len() <= 64 {
			elems := make([]Val, arr.Len())
			for i := range elems {
				elems[i] = en.load(st, mkIndexAddr(addr, intV(int64(i)), arr.Elem()), arr.Elem())
			}
			return mkArrayLit(t, elems)
		}
	}
	if a, ok := db.(*AllocV); ok {
		if _, d := st.dirty[a.Key()]; !d && !hasSymbolicIndex(addr) {
			// aggregate partially written? build from parts is not needed: whole-struct loads of
			// locals with per-field stores are represented by the load of the address itself.
			if en.hasSubEntries(st, addr) {
				if stt, ok := t.Underlying().(*types.Struct); ok {
					names := make([]string, stt.NumFields())
					fields := map[string]Val{}
					for i := 0; i < stt.NumFields(); i++ {
						names[i] = stt.Field(i).Name()
						fields[names[i]] = en.load(st, mkFieldAddr(addr, i, t, stt.Field(i).Type()), stt.Field(i).Type())
					}
					return mkStructLit(t, names, fields)
				}
				if arr, ok := t.Underlying().(*types.Array); ok && arr.Len() <= 32 {
					elems := make([]Val, arr.Len())
					for i := range elems {
						elems[i] = en.load(st, mkIndexAddr(addr, intV(int64(i)), arr.Elem()), arr.Elem())
					}
					return mkArrayLit(t, elems)
				}
				return mkLoad(addr, 0, t)
			}
			return zeroOf(t)
		}
	}
	// sentinel errors of dependencies (dsig.ErrMissingSignature, io.EOF, ...) are never reassigned: one value per path
	if g, ok := addr.(*GlobalV); ok && g.G != nil && g.G.Pkg != nil && !strings.HasPrefix(g.G.Pkg.Pkg.Path(), modPath) && typeStr(t) == "error" {
		return mkLoad(addr, 0, t)
	}
	root := rootOf(addr)
	ep := st.dirty[root.Key()]
	if d2, ok := st.dirty[db.Key()]; ok && d2 > ep {
		ep = d2
	}
	return mkLoad(addr, ep, t)
}

func subPrefix(addr Val) string { return "&" + lvalKey(addr) }

func (en *Engine) hasSubEntries(st *State, addr Val) bool {
	pfx := subPrefix(addr)
	for hk := range st.heap {
		if strings.HasPrefix(hk, pfx+".") || strings.HasPrefix(hk, pfx+"[") {
			return true
		}
	}
	return false
}

func (en *Engine) loadIfStored(st *State, addr Val) (Val, bool) {
	if c, ok := st.heap[addr.Key()]; ok {
		return c.val, true
	}
	if ia, ok := addr.(*IndexAddrV); ok {
		if v, ok := en.appendElem(st, ia.X, ia.I); ok {
			return v, true
		}
	}
	if fa, ok := addr.(*FieldAddrV); ok {
		if pv, ok := en.loadIfStored(st, fa.X); ok {
			ft := fa.Type().Underlying().(*types.Pointer).Elem()
			return mkField(pv, fa.Field, fa.Name, ft), true
		}
	}
	if ia, ok := addr.(*IndexAddrV); ok {
		if _, isPtr := ia.X.Type().Underlying().(*types.Pointer); isPtr {
			if pv, ok := en.loadIfStored(st, ia.X); ok {
				et := ia.Type().Underlying().(*types.Pointer).Elem()
				return mkIndexOfValue(pv, ia.I, et), true
			}
		}
	}
	return nil, false
}

func (en *Engine) store(st *State, addr, val Val) {
	k := addr.Key()
	// a whole-aggregate store overrides entries for its parts
	pfx := subPrefix(addr)
	for hk := range st.heap {
		if strings.HasPrefix(hk, pfx+".") || strings.HasPrefix(hk, pfx+"[") {
			delete(st.heap, hk)
		}
	}
	// a store through a symbolic index may hit any element entry of that array
	if ia, ok := addr.(*IndexAddrV); ok {
		if _, isC := constInt(ia.I); !isC {
			p := indexPrefix(ia.X)
			for hk := range st.heap {
				if strings.HasPrefix(hk, p) {
					delete(st.heap, hk)
				}
			}
		}
	}
	if ia, ok := addr.(*IndexAddrV); ok {
		delete(st.heap, "slicecomp:"+ia.X.Key())
		if c, has := st.heap["copyseg:"+ia.X.Key()]; has {
			k, _ := constInt(c.val.(*TupleV).Vals[0])
			if i, isC := constInt(ia.I); !isC || i >= k {
				delete(st.heap, "copyseg:"+ia.X.Key())
			}
		}
	}
	st.heap[k] = cell{addr, val}
}

// havoc forgets everything known about memory reachable from v.
func (en *Engine) havoc(st *State, v Val) {
	roots := map[string]bool{}
	var collect func(x Val, depth int)
	collect = func(x Val, depth int) {
		if x == nil || depth > 6 {
			return
		}
		switch y := x.(type) {
		case *ConstV:
			return
		case *ClosureV:
			for _, b := range y.Bindings {
				collect(b, depth+1)
			}
			return
		case *MakeIfaceV:
			collect(y.X, depth+1)
			return
		case *AppendV, *TupleV, *BinV:
			for _, s := range subVals(x) {
				collect(s, depth+1)
			}
			return
		}
		if !mayPointTo(x.Type()) {
			return
		}
		r := rootOf(x)
		roots[r.Key()] = true
		if db := directBase(x); db != nil {
			roots[db.Key()] = true
		}
		// what the pointed-to memory currently holds is reachable too
		if c, ok := st.heap[x.Key()]; ok {
			collect(c.val, depth+1)
		}
	}
	collect(v, 0)
	if len(roots) == 0 {
		return
	}
	st.epoch++
	for r := range roots {
		st.dirty[r] = st.epoch
	}
	for hk, c := range st.heap {
		if strings.HasPrefix(hk, "len:") {
			continue
		}
		if roots[rootOf(c.addr).Key()] || roots[directBase(c.addr).Key()] {
			// pointers stored in havocked memory make their targets reachable
			delete(st.heap, hk)
		}
	}
}

func mayPointTo(t types.Type) bool {
	if t == nil {
		return true
	}
	switch u := t.Underlying().(type) {
	case *types.Basic:
		return u.Kind() == types.UnsafePointer
	case *types.Struct:
		for i := 0; i < u.NumFields(); i++ {
			if mayPointTo(u.Field(i).Type()) {
				return true
			}
		}
		return false
	case *types.Array:
		return mayPointTo(u.Elem())
	}
	return true
}

// ---------------------------------------------------------------- control flow

func (en *Engine) loopsOf(fn *ssa.Function) map[*ssa.BasicBlock]*loopInfo {
	if l, ok := en.loops[fn]; ok {
		return l
	}
	l := findLoops(fn)
	en.loops[fn] = l
	return l
}

func (en *Engine) enterBlock(st *State, fr *Frame, to *ssa.BasicBlock, phiOverride map[*ssa.Phi]Val) {
	from := fr.block
	// evaluate phis simultaneously
	var idx = -1
	for i, p := range to.Preds {
		if p == from {
			idx = i
			break
		}
	}
	newVals := map[*ssa.Phi]Val{}
	for _, in := range to.Instrs {
		phi, ok := in.(*ssa.Phi)
		if !ok {
			break
		}
		if ov, ok := phiOverride[phi]; ok {
			newVals[phi] = ov
			continue
		}
		if idx < 0 {
			st.nonce++
			newVals[phi] = mkUnknown("phi", phi.Type(), st.nonce)
			continue
		}
		newVals[phi] = en.eval(st, fr, phi.Edges[idx])
	}
	for p, v := range newVals {
		fr.env[p] = v
	}
	fr.prev = from
	fr.block = to
	fr.pc = 0
}

// transfer moves the top frame along edge block->to, handling loop entry / back edges.
// It returns the successor states (st itself may be among them); nil = path pruned.
func (en *Engine) transfer(st *State, fr *Frame, to *ssa.BasicBlock) []*State {
	from := fr.block
	loops := en.loopsOf(fr.fn)
	// leave loops that do not contain the target
	for len(fr.loops) > 0 {
		top := fr.loops[len(fr.loops)-1]
		if top.info.blocks[to] {
			break
		}
		fr.loops = fr.loops[:len(fr.loops)-1]
		if top.mode == 2 && from == top.info.header {
			en.summariseAccumulators(st, fr, top)
		}
		st.addEvent(&Event{Kind: EvLoopExit, Instr: from.Instrs[len(from.Instrs)-1], Callee: top.id})
		if top.mode != 1 && top.mode != 3 {
			st.popIter(top.id)
		}
	}
	li := loops[to]
	if li == nil {
		en.enterBlock(st, fr, to, nil)
		return []*State{st}
	}
	if len(fr.loops) > 0 && fr.loops[len(fr.loops)-1].info == li {
		top := fr.loops[len(fr.loops)-1]
		if top.mode == 3 {
			top.trips++
			if top.trips > 128 {
				en.Errors = append(en.Errors, "concrete loop exceeds 128 trips in "+fr.fn.String())
				return nil
			}
			en.enterBlock(st, fr, to, nil)
			return []*State{st}
		}
		if top.mode != 0 {
			return nil // a second trip round the loop in exit mode: not explored
		}
		top.mode = 2
		st.addEvent(&Event{Kind: EvLoopBack, Instr: from.Instrs[len(from.Instrs)-1], Callee: top.id})
		en.enterBlock(st, fr, to, nil)
		return []*State{st}
	}
	// a loop that only strips trailing bytes equal to a constant is bytes.TrimRight (canon.go)
	if phi, exit, val, ok := en.trimRightLoop(st, fr, li, to, from); ok {
		fr.env[phi] = val
		fr.block = to
		en.enterBlock(st, fr, exit, nil)
		return []*State{st}
	}
	id := fr.ctx + "/loop." + fmt.Sprintf("%s:b%d", baseFn(fr.fn), to.Index)
	// a loop whose exit test compares an induction variable (constant start and step) with a value that is a
	// compile-time constant on this path — typically a range over a literal table — is executed as written
	if en.constantTripLoop(st, fr, li, to, from) || flagBoundedLoop(to, from) {
		fr.loops = append(fr.loops, &loopCtx{info: li, mode: 3, id: id})
		en.enterBlock(st, fr, to, nil)
		return []*State{st}
	}
	// loop entry: zero-iteration state and generic-iteration state
	z := st.clone()
	zf := z.top()
	zf.loops = append(zf.loops, &loopCtx{info: li, mode: 1, id: id})
	z.addEvent(&Event{Kind: EvLoopEnter, Instr: from.Instrs[len(from.Instrs)-1], Callee: id, Val: boolV(false)})
	en.enterBlock(z, zf, to, nil)

	g := st
	gf := fr
	gf.loops = append(gf.loops, &loopCtx{info: li, mode: 0, id: id})
	g.iters = append(g.iters, id)
	lev := g.addEvent(&Event{Kind: EvLoopEnter, Instr: from.Instrs[len(from.Instrs)-1], Callee: id, Val: boolV(true)})
	ov := map[*ssa.Phi]Val{}
	var idx = -1
	for i, p := range to.Preds {
		if p == from {
			idx = i
		}
	}
	for _, in := range to.Instrs {
		phi, ok := in.(*ssa.Phi)
		if !ok {
			break
		}
		lp := &LoopPhiV{Loop: id, Phi: phi.Name()}
		lp.typ = phi.Type()
		lp.key = "loopphi(" + id + "." + phi.Name() + ")"
		ov[phi] = lp
		if idx >= 0 {
			pi := PhiInfo{Key: lp.key, Init: en.eval(g, gf, phi.Edges[idx]), HasStep: true}
			for j, e := range phi.Edges {
				if j == idx {
					continue
				}
				st, ok := phiStep(e, phi)
				if !ok || (pi.Step != 0 && pi.Step != st) {
					pi.HasStep = false
				}
				pi.Step = st
			}
			lev.Phis = append(lev.Phis, pi)
		}
		// induction lower bound: phi = init on entry, phi + c (c > 0) on every back edge
		if idx >= 0 {
			if init, ok := phi.Edges[idx].(*ssa.Const); ok && isIntConst(init) {
				mono := true
				for j, e := range phi.Edges {
					if j == idx {
						continue
					}
					if !li.blocks[to.Preds[j]] {
						mono = false
						break
					}
					if !isPhiPlusPositive(e, phi) {
						mono = false
					}
				}
				if mono {
					// fact: !(phi < init)
					c := mkBin(token.LSS, lp, mkConst(init), types.Typ[types.Bool])
					g.facts = append(g.facts, Fact{Cond: c, Pol: false, Forced: true, Seq: len(g.events)})
				}
			}
		}
	}
	lc := gf.loops[len(gf.loops)-1]
	lc.phis = lev.Phis
	lc.pre = make(map[string]Val, len(g.heap))
	for k, c := range g.heap {
		lc.pre[k] = c.val
	}
	en.havocLoopStores(g, gf, li)
	en.enterBlock(g, gf, to, ov)
	return []*State{z, g}
}

func isIntConst(c *ssa.Const) bool {
	b, ok := c.Type().Underlying().(*types.Basic)
	return ok && b.Info()&types.IsInteger != 0 && c.Value != nil
}

func phiStep(v ssa.Value, phi *ssa.Phi) (int64, bool) {
	b, ok := v.(*ssa.BinOp)
	if !ok || b.Op != token.ADD || b.X != ssa.Value(phi) {
		return 0, false
	}
	c, ok := b.Y.(*ssa.Const)
	if !ok || !isIntConst(c) {
		return 0, false
	}
	return c.Int64(), true
}

func isPhiPlusPositive(v ssa.Value, phi *ssa.Phi) bool {
	b, ok := v.(*ssa.BinOp)
	if !ok || b.Op != token.ADD {
		return false
	}
	if b.X != ssa.Value(phi) {
		return false
	}
	c, ok := b.Y.(*ssa.Const)
	return ok && isIntConst(c) && c.Int64() > 0
}

func (st *State) popIter(id string) {
	for i := len(st.iters) - 1; i >= 0; i-- {
		if st.iters[i] == id {
			st.iters = append(st.iters[:i], st.iters[i+1:]...)
			return
		}
	}
}

// havocLoopStores forgets locations that the loop body (or handler) may write in earlier iterations.
func (en *Engine) havocLoopStores(st *State, fr *Frame, li *loopInfo) {
	for _, s := range li.stores {
		en.havocStoreTarget(st, fr, s)
	}
}

func (en *Engine) havocStoreTarget(st *State, fr *Frame, s *ssa.Store) {
	switch a := s.Addr.(type) {
	case *ssa.FieldAddr:
		owner, _ := derefStruct(a.X.Type())
		for hk, c := range st.heap {
			if fa, ok := c.addr.(*FieldAddrV); ok && owner != nil && fa.Field == a.Field && types.Identical(fa.Owner, owner) {
				st.nonce++
				st.heap[hk] = cell{c.addr, mkUnknown("loop-carried "+lvalKey(c.addr), c.val.Type(), st.nonce)}
			}
		}
		// the field of an object that exists before the loop and has not been written yet: an earlier iteration may
		// have written it, so it is not the zero / pre-loop value either
		if base, ok := fr.env[a.X]; ok && owner != nil {
			if stt, isS := owner.Underlying().(*types.Struct); isS && a.Field < stt.NumFields() {
				ft := stt.Field(a.Field).Type()
				addr := mkFieldAddr(base, a.Field, owner, ft)
				if _, has := st.heap[addr.Key()]; !has {
					st.nonce++
					st.heap[addr.Key()] = cell{addr, mkUnknown("loop-carried "+lvalKey(addr), ft, st.nonce)}
				}
			}
		}
	case *ssa.IndexAddr:
		for hk, c := range st.heap {
			if ia, ok := c.addr.(*IndexAddrV); ok && types.Identical(ia.Type(), a.Type()) {
				st.nonce++
				st.heap[hk] = cell{c.addr, mkUnknown("loop-carried "+lvalKey(c.addr), c.val.Type(), st.nonce)}
			}
		}
	default:
		// direct store to a cell (address-taken local / free variable / global)
		if v, ok := fr.env[s.Addr]; ok {
			if c, ok := st.heap[v.Key()]; ok {
				st.nonce++
				st.heap[v.Key()] = cell{c.addr, mkUnknown("loop-carried "+lvalKey(c.addr), c.val.Type(), st.nonce)}
			}
		}
	}
}

func (en *Engine) branch(st *State, fr *Frame, ifi *ssa.If, cv Val) []*State {
	tb, fb := fr.block.Succs[0], fr.block.Succs[1]
	takeT, takeF := true, true
	forced := false
	// loop forcing
	if len(fr.loops) > 0 && fr.loops[len(fr.loops)-1].mode != 3 {
		top := fr.loops[len(fr.loops)-1]
		inT, inF := top.info.blocks[tb], top.info.blocks[fb]
		if inT != inF {
			inSucc := tb
			if inF {
				inSucc = fb
			}
			switch {
			case top.mode != 0 && (fr.block == top.info.header || top.info.chain[fr.block]) && top.info.chain[inSucc]:
				// exit modes, `for a && b`: the loop is left at this part of the condition or at a later one
			case top.mode != 0: // exit modes: leave the loop at the first exit test (the last part of the condition)
				takeT, takeF = !inT, !inF
				forced = true
			case fr.block == top.info.header || top.info.chain[fr.block]: // generic iteration: must enter the body (`for a && b`: every part of the condition holds)
				takeT, takeF = inT, inF
				forced = true
			}
		}
	}
	c, pol := normCond(cv, true)
	decided := false
	if b, known := decide(st, c); known {
		decided = true
		val := b == pol // truth of cv
		if forced {
			// forced direction contradicts what is known: path infeasible
			if (takeT && !val) || (takeF && val) {
				return nil
			}
		}
		takeT, takeF = takeT && val, takeF && !val
	}
	var out []*State
	mk := func(s *State, to *ssa.BasicBlock, truth bool) {
		f := s.top()
		if _, isConst := c.(*ConstV); !isConst && !decided && !alreadyKnown(s, c) {
			s.facts = append(s.facts, Fact{Cond: c, Pol: truth == pol, Forced: forced, Instr: ifi, Seq: len(s.events)})
		}
		out = append(out, en.transfer(s, f, to)...)
	}
	switch {
	case takeT && takeF:
		s2 := st.clone()
		mk(st, tb, true)
		mk(s2, fb, false)
	case takeT:
		mk(st, tb, true)
	case takeF:
		mk(st, fb, false)
	}
	return out
}

func alreadyKnown(st *State, c Val) bool {
	k := c.Key()
	for _, f := range st.facts {
		if f.Cond.Key() == k {
			return true
		}
	}
	return false
}

// normCond rewrites (cond, pol) so that cond uses only ==, < and positive atoms.
func normCond(c Val, pol bool) (Val, bool) {
	for {
		switch x := c.(type) {
		case *UnV:
			if x.Op == token.NOT {
				c, pol = x.X, !pol
				continue
			}
		case *BinV:
			bt := types.Typ[types.Bool]
			switch x.Op {
			case token.NEQ:
				c, pol = mkBin(token.EQL, x.X, x.Y, bt), !pol
				continue
			case token.GEQ:
				c, pol = mkBin(token.LSS, x.X, x.Y, bt), !pol
				continue
			case token.GTR:
				c = mkBin(token.LSS, x.Y, x.X, bt)
				continue
			case token.LEQ:
				c, pol = mkBin(token.LSS, x.Y, x.X, bt), !pol
				continue
			case token.LSS:
				// 0 < len(s)  ==>  !(s == "")      len(s) < 1  ==>  s == ""      (strings)
				if isConstInt(x.X, 0) {
					if sv, ok := lenOfString(x.Y); ok {
						c, pol = mkBin(token.EQL, sv, strV(""), bt), !pol
						continue
					}
				}
				if isConstInt(x.Y, 1) {
					if sv, ok := lenOfString(x.X); ok {
						c = mkBin(token.EQL, sv, strV(""), bt)
						continue
					}
				}
				// (x + c) < k  ==>  x < k - c   and   k < (x + c)  ==>  k - c < x   (integer induction arithmetic)
				if k, isK := constInt(x.Y); isK {
					if s, ok := x.X.(*BinV); ok && s.Op == token.ADD {
						if cc, isC := constInt(s.Y); isC {
							c = mkBin(token.LSS, s.X, intV(k-cc), bt)
							continue
						}
					}
				}
				if k, isK := constInt(x.X); isK {
					if s, ok := x.Y.(*BinV); ok && s.Op == token.ADD {
						if cc, isC := constInt(s.Y); isC {
							c = mkBin(token.LSS, intV(k-cc), s.X, bt)
							continue
						}
					}
				}
			case token.EQL:
				// equivalent spellings of string / byte-slice comparisons
				if r, ok := canonCompare(x); ok {
					c = r
					continue
				}
				// b == true  ==>  b      b == false  ==>  !b
				if isBoolType(x.X.Type()) {
					if k, isK := constBool(x.Y); isK {
						if _, both := constBool(x.X); !both {
							c, pol = x.X, pol == k
							continue
						}
					}
					if k, isK := constBool(x.X); isK {
						if _, both := constBool(x.Y); !both {
							c, pol = x.Y, pol == k
							continue
						}
					}
				}
				// canonical operand order: constants last, otherwise by key
				_, cx := x.X.(*ConstV)
				_, cy := x.Y.(*ConstV)
				if (cx && !cy) || (cx == cy && x.X.Key() > x.Y.Key()) {
					c = mkBin(token.EQL, x.Y, x.X, bt)
					if _, still := c.(*BinV); still {
						return c, pol
					}
					continue
				}
			}
		}
		return c, pol
	}
}

// decide returns the truth of a normalised condition if the path already determines it.
func decide(st *State, c Val) (bool, bool) {
	if b, ok := constBool(c); ok {
		return b, true
	}
	k := c.Key()
	for i := len(st.facts) - 1; i >= 0; i-- {
		if st.facts[i].Cond.Key() == k {
			return st.facts[i].Pol, true
		}
	}
	if b, ok := c.(*BinV); ok && (b.Op == token.EQL || b.Op == token.LSS) {
		// n of a "fills the whole slice or fails" call, on a path where it did not fail, is the slice's length
		rew := func(v Val) Val {
			cv, isCall := v.(*CallV)
			if !isCall || cv.Idx != 0 || cv.N < 2 || len(cv.Args) == 0 {
				return v
			}
			if ct := lookupContract(cv.Callee); ct == nil || !ct.LenRes0 {
				return v
			}
			errV := mkCall(cv.Callee, cv.Fn, cv.Args, cv.Site, cv.N-1, cv.N, nil)
			ek := "(" + errV.Key() + " == nil)"
			for _, f := range st.facts {
				if f.Pol && f.Cond.Key() == ek {
					return mkLen(st, cv.Args[0], cv.Type())
				}
			}
			return v
		}
		if x2, y2 := rew(b.X), rew(b.Y); x2 != b.X || y2 != b.Y {
			if r, isC := constBool(mkBin(b.Op, x2, y2, b.Type())); isC {
				return r, true
			}
		}
	}
	if b, ok := c.(*BinV); ok && b.Op == token.LSS {
		// lengths are never negative
		isLen := func(v Val) bool { cv, ok := v.(*CallV); return ok && (cv.Callee == "len" || cv.Callee == "cap") }
		if k, isK := constInt(b.X); isK && k < 0 && isLen(b.Y) {
			return true, true
		}
		if k, isK := constInt(b.Y); isK && k <= 0 && isLen(b.X) {
			return false, true
		}
	}
	if b, ok := c.(*BinV); ok && b.Op == token.EQL {
		if isNilConst(b.Y) {
			if nonNilByConstruction(b.X) {
				return false, true
			}
			// the path knows x == S for a value S that cannot be nil (err == dsig.ErrMissingSignature): x is not nil
			for _, f := range st.facts {
				fb, isB := f.Cond.(*BinV)
				if !isB || fb.Op != token.EQL || !f.Pol {
					continue
				}
				if (fb.X.Key() == b.X.Key() && nonNilByConstruction(fb.Y)) || (fb.Y.Key() == b.X.Key() && nonNilByConstruction(fb.X)) {
					return false, true
				}
			}
			// a slice known to have len >= 1 is not nil
			if isSliceType(b.X.Type()) {
				lk := "len(" + b.X.Key() + ")"
				for _, f := range st.facts {
					fb, ok := f.Cond.(*BinV)
					if !ok {
						continue
					}
					switch {
					case fb.Op == token.LSS && !f.Pol && fb.X.Key() == lk:
						if k, ok := constInt(fb.Y); ok && k >= 1 {
							return false, true
						}
					case fb.Op == token.LSS && f.Pol && fb.Y.Key() == lk:
						if k, ok := constInt(fb.X); ok && k >= 0 {
							return false, true
						}
					case fb.Op == token.EQL && !f.Pol && fb.X.Key() == lk && isConstInt(fb.Y, 0):
						return false, true
					}
				}
			}
		}
		// a concatenation with a non-empty constant part is not the empty string
		if s, ok := constString(b.Y); ok && s == "" && (nonEmptyString(b.X) || encodedNonEmpty(st, b.X)) {
			return false, true
		}
		// x == K1 known, asking x == K2
		if cy, ok := b.Y.(*ConstV); ok && cy.C != nil {
			for _, f := range st.facts {
				fb, ok := f.Cond.(*BinV)
				if !ok || fb.Op != token.EQL || !f.Pol {
					continue
				}
				if fb.X.Key() == b.X.Key() {
					if fc, ok := fb.Y.(*ConstV); ok && fc.C != nil && fc.Key() != cy.Key() {
						return false, true
					}
				}
			}
		}
		ax, okx := b.X.(*AllocV)
		ay, oky := b.Y.(*AllocV)
		if okx && oky && ax.Key() != ay.Key() {
			return false, true
		}
		// an error made on this path (fmt.Errorf / errors.New allocate) is not the value a package-level sentinel holds
		{
			freshErr := func(v Val) bool {
				cv, ok := v.(*CallV)
				return ok && (cv.Callee == "fmt.Errorf" || cv.Callee == "errors.New")
			}
			sentinel := func(v Val) bool {
				l, ok := v.(*LoadV)
				if !ok {
					return false
				}
				_, isG := l.Addr.(*GlobalV)
				return isG
			}
			if (freshErr(b.X) && sentinel(b.Y)) || (freshErr(b.Y) && sentinel(b.X)) {
				return false, true
			}
		}
		// x == y where the path knows x == nil and y cannot be nil (err == dsig.ErrMissingSignature after err == nil)
		if !isNilConst(b.X) && !isNilConst(b.Y) && isNillable(b.X.Type()) {
			knownNil := func(v Val) bool {
				k := "(" + v.Key() + " == nil)"
				for _, f := range st.facts {
					if f.Pol && f.Cond.Key() == k {
						return true
					}
				}
				return false
			}
			if (knownNil(b.X) && nonNilByConstruction(b.Y)) || (knownNil(b.Y) && nonNilByConstruction(b.X)) {
				return false, true
			}
		}
	}
	return false, false
}

func nonEmptyString(v Val) bool {
	if s, ok := constString(v); ok {
		return s != ""
	}
	if b, ok := v.(*BinV); ok && b.Op == token.ADD {
		return nonEmptyString(b.X) || nonEmptyString(b.Y)
	}
	return false
}

func nonNilByConstruction(v Val) bool {
	switch x := v.(type) {
	case *AllocV, *FieldAddrV, *IndexAddrV, *ClosureV, *GlobalV:
		return true
	case *MakeIfaceV:
		return true
	case *CallV:
		return contractNonNil(x)
	case *LoadV:
		// sentinel error variables of dependencies: initialised with errors.New, never reassigned (trusted base)
		if g, ok := x.Addr.(*GlobalV); ok && g.G != nil && g.G.Pkg != nil && !strings.HasPrefix(g.G.Pkg.Pkg.Path(), modPath) && typeStr(x.Type()) == "error" {
			return true
		}
	case *AppendV:
		return len(x.Elems) > 0 && !x.Spread
	case *MapV:
		return true // exists only on paths where the loop completed at least one iteration
	case *SliceV:
		// slicing a non-nil array pointer
		if _, ok := x.X.Type().Underlying().(*types.Pointer); ok {
			return nonNilByConstruction(x.X)
		}
	}
	return false
}

// ---------------------------------------------------------------- loops

type loopInfo struct {
	header *ssa.BasicBlock
	blocks map[*ssa.BasicBlock]bool
	stores []*ssa.Store
	chain  map[*ssa.BasicBlock]bool // blocks after the header that only continue the loop condition (`for a && b`)
}

// conditionChain: the blocks reached from the header through in-loop edges that compute nothing but a further part of
// the loop condition: a single predecessor, only pure value instructions, an If with one successor outside the loop.
func conditionChain(li *loopInfo) map[*ssa.BasicBlock]bool {
	chain := map[*ssa.BasicBlock]bool{}
	b := li.header
	for {
		ifi, ok := b.Instrs[len(b.Instrs)-1].(*ssa.If)
		if !ok || ifi == nil || len(b.Succs) != 2 {
			return chain
		}
		var next *ssa.BasicBlock
		switch in0, in1 := li.blocks[b.Succs[0]], li.blocks[b.Succs[1]]; {
		case in0 && !in1:
			next = b.Succs[0]
		case in1 && !in0:
			next = b.Succs[1]
		default:
			return chain
		}
		// go/ssa labels the block that evaluates the right operand of && "cond.true"; a body that merely starts with a
		// test (`for … { if c { break } … }`) is not part of the condition
		if next == li.header || chain[next] || len(next.Preds) != 1 || len(next.Instrs) == 0 || next.Comment != "cond.true" {
			return chain
		}
		nif, isIf := next.Instrs[len(next.Instrs)-1].(*ssa.If)
		if !isIf || nif == nil || len(next.Succs) != 2 || li.blocks[next.Succs[0]] == li.blocks[next.Succs[1]] {
			return chain
		}
		for _, in := range next.Instrs[:len(next.Instrs)-1] {
			switch x := in.(type) {
			case *ssa.BinOp, *ssa.UnOp, *ssa.FieldAddr, *ssa.IndexAddr, *ssa.Field, *ssa.Index, *ssa.Convert, *ssa.ChangeType, *ssa.Extract, *ssa.DebugRef:
			case *ssa.Call:
				if bi, isB := x.Call.Value.(*ssa.Builtin); !isB || (bi.Name() != "len" && bi.Name() != "cap") {
					return chain
				}
			default:
				return chain
			}
		}
		chain[next] = true
		b = next
	}
}

func findLoops(fn *ssa.Function) map[*ssa.BasicBlock]*loopInfo {
	out := map[*ssa.BasicBlock]*loopInfo{}
	for _, b := range fn.Blocks {
		for _, s := range b.Succs {
			if s.Dominates(b) {
				li := out[s]
				if li == nil {
					li = &loopInfo{header: s, blocks: map[*ssa.BasicBlock]bool{s: true}}
					out[s] = li
				}
				// natural loop of back edge b->s
				stack := []*ssa.BasicBlock{b}
				for len(stack) > 0 {
					n := stack[len(stack)-1]
					stack = stack[:len(stack)-1]
					if li.blocks[n] {
						continue
					}
					li.blocks[n] = true
					stack = append(stack, n.Preds...)
				}
			}
		}
	}
	for _, li := range out {
		li.chain = conditionChain(li)
		var bs []*ssa.BasicBlock
		for b := range li.blocks {
			bs = append(bs, b)
		}
		sort.Slice(bs, func(i, j int) bool { return bs[i].Index < bs[j].Index })
		for _, b := range bs {
			for _, in := range b.Instrs {
				if s, ok := in.(*ssa.Store); ok {
					li.stores = append(li.stores, s)
				}
			}
		}
	}
	return out
}

func isSliceType(t types.Type) bool {
	if t == nil {
		return false
	}
	_, ok := t.Underlying().(*types.Slice)
	return ok
}

// mkIndexOfValue: element i of an array value; an array loaded whole from memory is re-expressed as a load of the element.
func mkIndexOfValue(arr Val, i Val, t types.Type) Val {
	if al, ok := arr.(*ArrayLitV); ok {
		if k, isC := constInt(i); isC && k >= 0 && int(k) < len(al.Elems) {
			return al.Elems[k]
		}
	}
	if l, ok := arr.(*LoadV); ok {
		return mkLoad(mkIndexAddr(l.Addr, i, t), l.Epoch, t)
	}
	if isZeroAggregate(arr) {
		return zeroOf(t)
	}
	return mkIndex(arr, i, t)
}

// constantTripLoop: the header ends in `if phi(+c) <op> K` with K constant on this path, phi starting at a constant
// and advancing by a constant step, and at most 64 trips.
func (en *Engine) constantTripLoop(st *State, fr *Frame, li *loopInfo, header, from *ssa.BasicBlock) bool {
	if len(header.Instrs) == 0 {
		return false
	}
	ifi, ok := header.Instrs[len(header.Instrs)-1].(*ssa.If)
	if !ok {
		return false
	}
	cmp, ok := ifi.Cond.(*ssa.BinOp)
	if !ok {
		return false
	}
	switch cmp.Op {
	case token.LSS, token.LEQ, token.GTR, token.GEQ, token.NEQ:
	default:
		return false
	}
	// find the phi behind an operand (phi or phi + const)
	var findPhi func(v ssa.Value) (*ssa.Phi, int64, bool)
	findPhi = func(v ssa.Value) (*ssa.Phi, int64, bool) {
		switch x := v.(type) {
		case *ssa.Phi:
			if x.Block() == header {
				return x, 0, true
			}
		case *ssa.BinOp:
			if x.Op == token.ADD {
				if c, ok := x.Y.(*ssa.Const); ok && isIntConst(c) {
					if p, k, ok := findPhi(x.X); ok {
						return p, k + c.Int64(), true
					}
				}
			}
		}
		return nil, 0, false
	}
	phi, off, ok := findPhi(cmp.X)
	other := cmp.Y
	if !ok {
		phi, off, ok = findPhi(cmp.Y)
		other = cmp.X
		if !ok {
			return false
		}
	}
	// the other operand: constant in the current environment (it is defined outside the loop)
	var bound int64
	if inst, isInstr := other.(ssa.Instruction); isInstr && li.blocks[inst.Block()] {
		// re-evaluated on every iteration: accepted only as len(x) of an x defined outside the loop (a slice value
		// cannot change length; a reassigned slice variable would be a phi inside the loop)
		call, isCall := other.(*ssa.Call)
		if !isCall || !isLenCall(call) {
			return false
		}
		if b, _ := call.Common().Value.(*ssa.Builtin); b == nil || b.Name() != "len" {
			return false
		}
		arg := call.Common().Args[0]
		if ai, ok := arg.(ssa.Instruction); ok && li.blocks[ai.Block()] {
			return false
		}
		if _, isSlice := arg.Type().Underlying().(*types.Slice); !isSlice {
			if _, isStr := arg.Type().Underlying().(*types.Basic); !isStr {
				return false
			}
		}
		bound, ok = constInt(mkLen(st, en.eval(st, fr, arg), call.Type()))
		if !ok {
			return false
		}
	} else {
		bound, ok = constInt(en.eval(st, fr, other))
		if !ok {
			return false
		}
	}
	idx := -1
	for i, p := range header.Preds {
		if p == from {
			idx = i
		}
	}
	if idx < 0 {
		return false
	}
	ic, ok := phi.Edges[idx].(*ssa.Const)
	if !ok || !isIntConst(ic) {
		return false
	}
	step := int64(0)
	for j, e := range phi.Edges {
		if j == idx {
			continue
		}
		s, ok := phiStep(e, phi)
		if !ok || s == 0 || (step != 0 && s != step) {
			return false
		}
		step = s
	}
	if step == 0 {
		return false
	}
	trips := (bound - (ic.Int64() + off)) / step
	if trips < 0 {
		trips = -trips
	}
	return trips <= 64
}

// constGlobals: initial contents of package-level variables of the library that are effectively constant — of array /
// basic / string type, stored only by the package initialiser and never address-taken elsewhere. Computed once per
// program by simulating the initialisers.
func (p *Prog) constGlobals(en *Engine) map[string]cell {
	if p.globalInit != nil {
		return p.globalInit
	}
	p.globalInit = map[string]cell{}
	for _, pk := range p.Lib {
		// candidates
		cand := map[*ssa.Global]bool{}
		refCand := map[*ssa.Global]bool{}
		sliceCand := map[*ssa.Global]bool{}
		mapCand := map[*ssa.Global]bool{}
		errCand := map[*ssa.Global]bool{}
		for _, m := range pk.Members {
			g, ok := m.(*ssa.Global)
			if !ok {
				continue
			}
			t := g.Type().Underlying().(*types.Pointer).Elem()
			if constLikeType(t) {
				cand[g] = true
			} else if _, isPtr := t.Underlying().(*types.Pointer); isPtr {
				// a pointer assigned once by the initialiser and afterwards only used as the receiver of
				// concurrency-safe methods keeps denoting the object the initialiser built
				if ok, _ := p.globalInitOnly(g); ok {
					refCand[g] = true
				}
			} else if mt, isMap := t.Underlying().(*types.Map); isMap && constLikeType(mt.Key()) {
				if ok, _ := p.globalInitOnly(g); ok {
					mapCand[g] = true
				}
			} else if sl, isSlice := t.Underlying().(*types.Slice); isSlice && constLikeType(sl.Elem()) {
				// a read-only table: slice of plain values assigned once by the initialiser, only read afterwards
				if ok, _ := p.globalInitOnly(g); ok {
					sliceCand[g] = true
				}
			} else if typeStr(t) == "error" && storedOnlyByInit(g) {
				// an error value built once (errors.New / fmt.Errorf / a typed error literal): error values are immutable,
				// so every use of the loaded value is a read
				errCand[g] = true
			}
		}
		// disqualify globals written or address-taken outside init
		for _, f := range pkgFunctions(pk) {
			isInit := f.Name() == "init" && f.Synthetic != ""
			for _, b := range f.Blocks {
				for _, in := range b.Instrs {
					for _, op := range in.Operands(nil) {
						if op == nil || *op == nil {
							continue
						}
						g, ok := (*op).(*ssa.Global)
						if !ok || !cand[g] {
							continue
						}
						switch x := in.(type) {
						case *ssa.UnOp: // load
						case *ssa.IndexAddr, *ssa.FieldAddr:
							// element address: fine if only loaded
							if v, ok := in.(ssa.Value); ok {
								for _, r := range *v.Referrers() {
									if _, isLoad := r.(*ssa.UnOp); !isLoad {
										if _, isDbg := r.(*ssa.DebugRef); !isDbg && !isInit {
											delete(cand, g)
										}
									}
								}
							}
						case *ssa.Store:
							if x.Addr == ssa.Value(g) && isInit {
								continue
							}
							delete(cand, g)
						case *ssa.Slice:
							// slicing a global array yields an alias: allowed only if the slice is just ranged/indexed for reading
							for _, r := range *x.Referrers() {
								switch r.(type) {
								case *ssa.IndexAddr, *ssa.DebugRef:
								case *ssa.Call:
									if c, ok := r.(*ssa.Call); !ok || !isLenCall(c) {
										delete(cand, g)
									}
								default:
									delete(cand, g)
								}
							}
						case *ssa.DebugRef:
						default:
							if !isInit {
								delete(cand, g)
							}
						}
					}
				}
			}
		}
		if len(cand) == 0 && len(refCand) == 0 && len(sliceCand) == 0 && len(mapCand) == 0 && len(errCand) == 0 {
			continue
		}
		initFn := pk.Func("init")
		if initFn == nil || initFn.Blocks == nil {
			continue
		}
		sub := NewEngine(p)
		sub.Inline = func(caller, callee *ssa.Function, depth int) bool { return callee.Parent() != nil }
		res, err := sub.Run(initFn)
		if err != nil {
			continue
		}
		// the synthetic init has exactly one branch, on init$guard; the already-initialised path stores nothing
		var fin *State
		n := 0
		for _, t := range res.Terms {
			if len(t.stores()) > 0 {
				fin = t.St
				n++
			}
		}
		if n != 1 {
			continue // initialiser with branches: leave the globals unknown
		}
		for g := range cand {
			gv := &GlobalV{G: g}
			gv.typ = g.Type()
			gv.key = "&" + shortName(g.String())
			et := g.Type().Underlying().(*types.Pointer).Elem()
			// leaves of arrays / structs of plain values, addressed individually
			var leaves func(addr Val, tp types.Type, depth int)
			leaves = func(addr Val, tp types.Type, depth int) {
				if depth > 4 {
					return
				}
				switch u := tp.Underlying().(type) {
				case *types.Array:
					if u.Len() > 64 {
						return
					}
					for i := int64(0); i < u.Len(); i++ {
						leaves(mkIndexAddr(addr, intV(i), u.Elem()), u.Elem(), depth+1)
					}
				case *types.Struct:
					for i := 0; i < u.NumFields(); i++ {
						leaves(mkFieldAddr(addr, i, tp, u.Field(i).Type()), u.Field(i).Type(), depth+1)
					}
				default:
					switch v := sub.load(fin, addr, tp).(type) {
					case *ConstV:
						p.globalInit[addr.Key()] = cell{addr, v}
					case *ClosureV:
						// a plain function or method expression (no captured variables) is as immutable as a constant
						if len(v.Bindings) == 0 {
							p.globalInit[addr.Key()] = cell{addr, v}
						}
					}
				}
			}
			leaves(gv, et, 0)
		}
		for g := range mapCand {
			gv := &GlobalV{G: g}
			gv.typ = g.Type()
			gv.key = "&" + shortName(g.String())
			et := g.Type().Underlying().(*types.Pointer).Elem()
			mv, isAlloc := sub.load(fin, gv, et).(*AllocV)
			if !isAlloc || mv.Comment != "makemap" {
				continue
			}
			if _, dirty := fin.dirty[mv.Key()]; dirty {
				continue
			}
			if _, sym := fin.heap["mapsym:"+mv.Key()]; sym {
				continue
			}
			p.globalInit[gv.Key()] = cell{gv, mv}
			p.globalInit["frozenmap:"+mv.Key()] = cell{mv, boolV(true)}
			for hk, c := range fin.heap {
				if strings.HasPrefix(hk, "map:"+mv.Key()+"[") || strings.HasPrefix(hk, "mapkey:"+mv.Key()+"[") {
					p.globalInit[hk] = c
				}
			}
		}
		for g := range sliceCand {
			gv := &GlobalV{G: g}
			gv.typ = g.Type()
			gv.key = "&" + shortName(g.String())
			et := g.Type().Underlying().(*types.Pointer).Elem()
			sv, isSlice := sub.load(fin, gv, et).(*SliceV)
			if !isSlice {
				continue
			}
			arr, isAlloc := sv.X.(*AllocV)
			if !isAlloc {
				continue
			}
			p.globalInit[gv.Key()] = cell{gv, sv}
			for hk, c := range fin.heap {
				if db := directBase(c.addr); db != nil && db.Key() == arr.Key() {
					p.globalInit[hk] = c
				}
			}
		}
		for g := range errCand {
			gv := &GlobalV{G: g}
			gv.typ = g.Type()
			gv.key = "&" + shortName(g.String())
			et := g.Type().Underlying().(*types.Pointer).Elem()
			switch v := sub.load(fin, gv, et).(type) {
			case *MakeIfaceV:
				if v.X != nil && v.X.Type() != nil && constLikeType(v.X.Type()) {
					p.globalInit[gv.Key()] = cell{gv, v}
				}
			case *CallV:
				if v.Callee == "errors.New" || v.Callee == "fmt.Errorf" {
					p.globalInit[gv.Key()] = cell{gv, v}
				}
			}
		}
		for g := range refCand {
			gv := &GlobalV{G: g}
			gv.typ = g.Type()
			gv.key = "&" + shortName(g.String())
			et := g.Type().Underlying().(*types.Pointer).Elem()
			if v, isCall := sub.load(fin, gv, et).(*CallV); isCall {
				p.globalInit[gv.Key()] = cell{gv, v}
			}
		}
	}
	return p.globalInit
}

func isLenCall(c *ssa.Call) bool {
	b, ok := c.Common().Value.(*ssa.Builtin)
	return ok && (b.Name() == "len" || b.Name() == "cap")
}

func constLikeType(t types.Type) bool {
	switch u := t.Underlying().(type) {
	case *types.Basic:
		return true
	case *types.Signature:
		return true
	case *types.Array:
		return constLikeType(u.Elem())
	case *types.Struct:
		for i := 0; i < u.NumFields(); i++ {
			if !constLikeType(u.Field(i).Type()) {
				return false
			}
		}
		return true
	}
	return false
}

// summariseAccumulators runs when the generic iteration of a loop leaves through the header test (exhaustion). If the
// loop visits every index of one collection in order (first index 0, step 1, test index < len(coll)), every slice that
// the body extends by exactly one append per iteration from an empty start — held in a header phi or in a memory
// location — is replaced by the comprehension [elem for coll]. Anything else keeps its generic-iteration value.
func (en *Engine) summariseAccumulators(st *State, fr *Frame, lc *loopCtx) {
	h := lc.info.header
	if len(h.Instrs) == 0 {
		return
	}
	ifi, ok := h.Instrs[len(h.Instrs)-1].(*ssa.If)
	if !ok {
		return
	}
	cmp, ok := ifi.Cond.(*ssa.BinOp)
	if !ok || cmp.Op != token.LSS {
		return
	}
	// index operand: phi (entry 0) or phi + 1 (entry -1), step 1
	var iphi *ssa.Phi
	off := int64(0)
	switch x := cmp.X.(type) {
	case *ssa.Phi:
		iphi = x
	case *ssa.BinOp:
		if p, isPhi := x.X.(*ssa.Phi); isPhi && x.Op == token.ADD {
			if c, isC := x.Y.(*ssa.Const); isC && isIntConst(c) {
				iphi, off = p, c.Int64()
			}
		}
	}
	if iphi == nil || iphi.Block() != h {
		return
	}
	okInd := false
	for _, pi := range lc.phis {
		if pi.Key == "loopphi("+lc.id+"."+iphi.Name()+")" && pi.HasStep && pi.Step == 1 {
			if k, isC := constInt(pi.Init); isC && k+off == 0 {
				okInd = true
			}
		}
	}
	if !okInd {
		return
	}
	bound, isLen := fr.env[cmp.Y].(*CallV)
	if !isLen || bound.Callee != "len" || len(bound.Args) != 1 {
		return
	}
	coll := bound.Args[0]
	empty := func(v Val) (bool, bool) {
		if v == nil {
			return false, false
		}
		if isNilConst(v) {
			return true, false
		}
		if s, ok := v.(*SliceV); ok {
			if a, ok := s.X.(*AllocV); ok {
				if p, ok := a.Type().Underlying().(*types.Pointer); ok {
					if arr, ok := p.Elem().Underlying().(*types.Array); ok && arr.Len() == 0 {
						return true, true
					}
				}
			}
		}
		if a, ok := v.(*AllocV); ok && a.Comment == "makeslice" {
			if c, ok := st.heap["len:"+a.Key()]; ok && isConstInt(c.val, 0) {
				return true, true
			}
		}
		return false, false
	}
	single := func(v Val, carried func(Val) bool) (Val, bool) {
		app, ok := v.(*AppendV)
		if !ok || app.Spread || len(app.Elems) != 1 || !carried(app.S) {
			return nil, false
		}
		return app.Elems[0], true
	}
	// registers
	for _, in := range h.Instrs {
		phi, ok := in.(*ssa.Phi)
		if !ok {
			break
		}
		if _, isSlice := phi.Type().Underlying().(*types.Slice); !isSlice {
			continue
		}
		key := "loopphi(" + lc.id + "." + phi.Name() + ")"
		var init Val
		for _, pi := range lc.phis {
			if pi.Key == key {
				init = pi.Init
			}
		}
		em, nn := empty(init)
		if !em {
			continue
		}
		elem, ok := single(fr.env[phi], func(s Val) bool { return s.Key() == key })
		if !ok {
			continue
		}
		fr.env[phi] = mkMap(coll, elem, nn, lc.id, phi.Type())
	}
	// sets: a local map that was empty before the loop and received exactly one insertion per iteration
	for hk, c := range st.heap {
		if !strings.HasPrefix(hk, "mapsym:") {
			continue
		}
		a, ok := c.addr.(*AllocV)
		if !ok {
			continue
		}
		if _, had := lc.pre[hk]; had {
			continue
		}
		if _, was := lc.pre["mapset:"+a.Key()]; was {
			continue
		}
		hadEntries := false
		for pk := range lc.pre {
			if strings.HasPrefix(pk, "map:"+a.Key()+"[") {
				hadEntries = true
			}
		}
		n, _ := constInt(st.heap["mapsymn:"+a.Key()].val)
		if hadEntries || n != 1 || en.mapHasEntries(st, a) {
			continue
		}
		mt, isMap := a.Type().Underlying().(*types.Map)
		if !isMap {
			continue
		}
		st.heap["mapset:"+a.Key()] = cell{a, mkMap(coll, c.val, true, lc.id, types.NewSlice(mt.Key()))}
		delete(st.heap, hk)
		delete(st.heap, "mapsymn:"+a.Key())
	}
	// indexed fill: dst := make([]T, len(coll)) before the loop, dst[i] = f(coll[i]) once per iteration
	if exitIdx := fr.env[cmp.X]; exitIdx != nil {
		for hk, c := range st.heap {
			ia, ok := c.addr.(*IndexAddrV)
			if !ok || hk != ia.Key() {
				continue
			}
			a, ok := ia.X.(*AllocV)
			if !ok || a.Comment != "makeslice" {
				continue
			}
			if mkBin(token.ADD, ia.I, intV(1), ia.I.Type()).Key() != exitIdx.Key() {
				continue
			}
			ln, ok := st.heap["len:"+a.Key()]
			if !ok || ln.val.Key() != bound.Key() {
				continue
			}
			if _, before := lc.pre["len:"+a.Key()]; !before {
				continue
			}
			if _, dirty := st.dirty[a.Key()]; dirty {
				continue
			}
			n := 0
			pfx := indexPrefix(a)
			for k2 := range st.heap {
				if strings.HasPrefix(k2, pfx) {
					n++
				}
			}
			for k2 := range lc.pre {
				if strings.HasPrefix(k2, pfx) {
					n += 2
				}
			}
			if n != 1 {
				continue
			}
			st.heap["slicecomp:"+a.Key()] = cell{a, mkMap(coll, c.val, true, lc.id, a.Type())}
			delete(st.heap, hk)
		}
	}
	// memory
	for hk, c := range st.heap {
		if c.val == nil || c.val.Type() == nil {
			continue
		}
		if _, isSlice := c.val.Type().Underlying().(*types.Slice); !isSlice {
			continue
		}
		em, nn := empty(lc.pre[hk])
		if !em {
			continue
		}
		loc := "loop-carried " + lvalKey(c.addr)
		elem, ok := single(c.val, func(s Val) bool { u, isU := s.(*UnknownV); return isU && u.Why == loc })
		if !ok {
			continue
		}
		st.heap[hk] = cell{c.addr, mkMap(coll, elem, nn, lc.id, c.val.Type())}
	}
}

// appendElem: element i (constant) of a slice value built on this path as append(...append(lit, a), b...): a fresh
// backing store nobody else can have written, so the element is the appended value itself.
func (en *Engine) appendElem(st *State, s Val, i Val) (Val, bool) {
	if _, isApp := s.(*AppendV); !isApp {
		return nil, false
	}
	k, isC := constInt(i)
	if !isC || k < 0 {
		return nil, false
	}
	var elems func(v Val) ([]Val, bool)
	elems = func(v Val) ([]Val, bool) {
		switch x := v.(type) {
		case *ConstV:
			if isNilConst(x) {
				return nil, true
			}
		case *AllocV:
			if x.Comment == "makeslice" {
				if c, ok := st.heap["len:"+x.Key()]; ok && isConstInt(c.val, 0) {
					return nil, true
				}
			}
		case *AppendV:
			if x.Spread {
				return nil, false
			}
			b, ok := elems(x.S)
			if !ok {
				return nil, false
			}
			return append(b, x.Elems...), true
		case *SliceV:
			if a, ok := x.X.(*AllocV); ok && (x.Lo == nil || isConstInt(x.Lo, 0)) {
				if p, ok := a.Type().Underlying().(*types.Pointer); ok {
					if arr, ok := p.Elem().Underlying().(*types.Array); ok && arr.Len() <= 32 {
						if _, dirty := st.dirty[a.Key()]; dirty {
							return nil, false
						}
						n := arr.Len()
						if x.Hi != nil {
							k, isC := constInt(x.Hi)
							if !isC || k > n {
								return nil, false
							}
							n = k
						}
						out := make([]Val, n)
						for j := range out {
							out[j] = en.load(st, mkIndexAddr(a, intV(int64(j)), arr.Elem()), arr.Elem())
						}
						return out, true
					}
				}
			}
		}
		return nil, false
	}
	es, ok := elems(s)
	if !ok || int(k) >= len(es) {
		return nil, false
	}
	return es[k], true
}

// lookupFrozen forks a lookup with a symbolic key in a read-only table into one state per entry plus the miss.
func (en *Engine) lookupFrozen(st *State, fr *Frame, x *ssa.Lookup, a *AllocV, key Val) []*State {
	type ent struct {
		k Val
		v Val
	}
	var ents []ent
	pfx := "map:" + a.Key() + "["
	var keys []string
	for hk := range st.heap {
		if strings.HasPrefix(hk, pfx) {
			keys = append(keys, hk)
		}
	}
	sort.Strings(keys)
	if len(keys) == 0 || len(keys) > 32 {
		return nil
	}
	for _, hk := range keys {
		c := st.heap[hk]
		kcell, ok := st.heap["mapkey:"+strings.TrimPrefix(hk, "map:")]
		if !ok {
			return nil
		}
		kc, ok := kcell.val.(*ConstV)
		if !ok {
			return nil
		}
		ents = append(ents, ent{kc, c.val})
	}
	set := func(s *State, val Val, present bool) {
		f := s.top()
		if x.CommaOk {
			tt := x.Type().(*types.Tuple)
			if !present {
				val = zeroOf(tt.At(0).Type())
			}
			f.env[x] = mkTuple([]Val{val, boolV(present)})
		} else {
			if !present {
				val = zeroOf(x.Type())
			}
			f.env[x] = val
		}
	}
	var out []*State
	miss := st.clone()
	missOK := true
	for _, e := range ents {
		cnd, pol := normCond(mkBin(token.EQL, key, e.k, types.Typ[types.Bool]), true)
		if b, known := decide(st, cnd); known {
			if b == pol {
				// the path already knows the key: only this entry
				s := st.clone()
				set(s, e.v, true)
				return []*State{s}
			}
			continue // known different
		}
		s := st.clone()
		s.facts = append(s.facts, Fact{Cond: cnd, Pol: pol, Instr: x, Seq: len(s.events)})
		set(s, e.v, true)
		out = append(out, s)
		if b, known := decide(miss, cnd); known {
			if b == pol {
				missOK = false // the entries exhaust the key's values (a two-entry table keyed by a boolean)
			}
			continue
		}
		miss.facts = append(miss.facts, Fact{Cond: cnd, Pol: !pol, Instr: x, Seq: len(miss.events)})
	}
	if missOK {
		set(miss, nil, false)
		out = append(out, miss)
	}
	return out
}

func (en *Engine) mapHasEntries(st *State, a *AllocV) bool {
	pfx := "map:" + a.Key() + "["
	for hk := range st.heap {
		if strings.HasPrefix(hk, pfx) {
			return true
		}
	}
	return false
}

func zeroOrIndex(m, k Val, t types.Type, present bool) Val {
	if !present {
		return zeroOf(t)
	}
	if st, ok := t.Underlying().(*types.Struct); ok && st.NumFields() == 0 {
		return zeroOf(t)
	}
	return mkIndex(m, k, t)
}

// flagBoundedLoop: `for second := false; ; second = true { ... if ... || second { return } ... }` — a loop carrying a
// boolean that is a constant on entry and the opposite constant on every back edge runs its body at most twice as far as
// that flag is concerned; it is executed as written (the trip cap of concrete loops applies).
func flagBoundedLoop(header, from *ssa.BasicBlock) bool {
	idx := -1
	for i, p := range header.Preds {
		if p == from {
			idx = i
		}
	}
	if idx < 0 {
		return false
	}
	for _, in := range header.Instrs {
		phi, ok := in.(*ssa.Phi)
		if !ok {
			break
		}
		if !isBoolType(phi.Type()) {
			continue
		}
		c0, ok := phi.Edges[idx].(*ssa.Const)
		if !ok || c0.Value == nil {
			continue
		}
		all := true
		for j, e := range phi.Edges {
			if j == idx {
				continue
			}
			cj, ok := e.(*ssa.Const)
			if !ok || cj.Value == nil || cj.Value.String() == c0.Value.String() {
				all = false
			}
		}
		if all && len(phi.Edges) > 1 {
			return true
		}
	}
	return false
}

// constPrefixByte: s[i] where s = "literal" + rest and 0 <= i < len("literal").
func constPrefixByte(s Val, i Val) (byte, bool) {
	k, isC := constInt(i)
	if !isC || k < 0 {
		return 0, false
	}
	for {
		if str, ok := constString(s); ok {
			if int(k) < len(str) {
				return str[k], true
			}
			return 0, false
		}
		b, ok := s.(*BinV)
		if !ok || b.Op != token.ADD || !isStringType(b.Type()) {
			return 0, false
		}
		s = b.X
	}
}

func lenOfString(v Val) (Val, bool) {
	cv, ok := v.(*CallV)
	if !ok || cv.Callee != "len" || len(cv.Args) != 1 || !isStringType(cv.Args[0].Type()) {
		return nil, false
	}
	return cv.Args[0], true
}

func strV(s string) Val { return constOf(constant.MakeString(s), types.Typ[types.String]) }

// canonCompare: len(s) == 0 is s == ""; strings.Compare(a, b) == 0 is a == b; bytes.Compare(a, b) == 0 is
// bytes.Equal(a, b).
func canonCompare(x *BinV) (Val, bool) {
	bt := types.Typ[types.Bool]
	for _, p := range [][2]Val{{x.X, x.Y}, {x.Y, x.X}} {
		if !isConstInt(p[1], 0) {
			continue
		}
		if sv, ok := lenOfString(p[0]); ok {
			return mkBin(token.EQL, sv, strV(""), bt), true
		}
		if cv, ok := p[0].(*CallV); ok && len(cv.Args) == 2 {
			switch cv.Callee {
			case "strings.Compare":
				return mkBin(token.EQL, cv.Args[0], cv.Args[1], bt), true
			case "bytes.Compare":
				return mkCall("bytes.Equal", nil, cv.Args, "", 0, 1, bt), true
			}
		}
	}
	return nil, false
}

// storedOnlyByInit: the package-level variable is stored by the package initialiser only and its address is used for
// nothing but loads.
func storedOnlyByInit(g *ssa.Global) bool {
	for _, f := range pkgFunctions(g.Pkg) {
		isInit := f.Name() == "init" && f.Synthetic != ""
		for _, b := range f.Blocks {
			for _, in := range b.Instrs {
				for _, op := range in.Operands(nil) {
					if op == nil || *op != ssa.Value(g) {
						continue
					}
					switch x := in.(type) {
					case *ssa.UnOp:
						if x.Op != token.MUL {
							return false
						}
					case *ssa.Store:
						if x.Addr != ssa.Value(g) || !isInit {
							return false
						}
					case *ssa.DebugRef:
					default:
						return false
					}
				}
			}
		}
	}
	return true
}

// encodedNonEmpty: v is (or starts / ends with) url.Values.Encode() of a map that has received an Add or Set on this
// path: "k=v" at least, never the empty string.
func encodedNonEmpty(st *State, v Val) bool {
	switch x := v.(type) {
	case *BinV:
		if x.Op == token.ADD {
			return encodedNonEmpty(st, x.X) || encodedNonEmpty(st, x.Y)
		}
	case *CallV:
		if x.Callee == "(net/url.Values).Encode" && len(x.Args) == 1 {
			for _, e := range st.events {
				if e.Kind == EvCall && (e.Callee == "(net/url.Values).Add" || e.Callee == "(net/url.Values).Set") && len(e.Args) > 0 && e.Args[0].Key() == x.Args[0].Key() {
					return true
				}
			}
		}
	}
	return false
}
