package main

// Thorough-tier contract audit (DESIGN.md §2.9): the clauses of the external contract table that the
// inbound rules lean on are checked by shape against the pinned goxmldsig source in the module cache.

import (
	"strings"

	"golang.org/x/tools/go/ssa"
)

func (c *Ctx) depKernel(pkg, name string) *Result {
	key := "dep|" + pkg + "|" + name
	if r, ok := c.Kernels[key]; ok {
		return r
	}
	fn := c.P.DepFn(pkg, name)
	if fn == nil || fn.Blocks == nil {
		c.bad("audit", shortName(pkg)+"."+name, "UNRESOLVED-ANCHOR (dependency)", "-", "dependency function "+name+" no longer resolves: the contract table describes different code")
		c.Kernels[key] = nil
		return nil
	}
	en := NewEngine(c.P)
	en.Inline = func(caller, callee *ssa.Function, depth int) bool { return false }
	res, err := en.Run(fn)
	c.Engines = append(c.Engines, en)
	if err != nil {
		c.undecided("audit", shortFn(fn), "pathwalk", c.P.Pos(fn.Pos()), err.Error())
		c.Kernels[key] = nil
		return nil
	}
	c.Kernels[key] = res
	c.KStats["dep:"+shortName(fn.String())] = "analysed"
	return res
}

// auditValidate: Validate works on a copy and returns validateSignature's element on the chain of nil errors;
// validateSignature returns doc.Root() of a document re-parsed from the very bytes whose digest matched, after
// CheckSignature succeeded with the certificate handed in.
func auditValidate(c *Ctx) {
	c.rule("audit/dsig.Validate", "thorough: (*ValidationContext).Validate copies its input, and its accepting return is validateSignature(copy, findSignature(copy), verifyCertificate(sig)) with all errors nil; validateSignature's accepting return is Root() of a document read from the canonical bytes whose digest equalled the signed digest, after cert.CheckSignature(...) == nil")
	v := c.depKernel(pDsig, "(*ValidationContext).Validate")
	if v != nil {
		fname := "dsig.(*ValidationContext).Validate"
		n := 0
		for _, t := range v.Terms {
			passThrough := false
			if t.Kind == "return" && len(t.Vals) == 2 {
				if a, ok := t.Vals[0].(*CallV); ok {
					if b, ok := t.Vals[1].(*CallV); ok && a.Site == b.Site && a.Callee == b.Callee && strings.HasSuffix(a.Callee, "validateSignature") {
						passThrough = true // return ctx.validateSignature(...): acceptance is the callee's
					}
				}
			}
			if !t.accepting(v.Root) && !passThrough {
				// every rejecting return yields a nil element
				if t.Kind == "return" {
					c.check(isNilConst(t.Vals[0]), "audit/dsig.Validate", fname, "rejecting return yields nil element", c.P.InstrPos(t.Instr), "nil", "Validate returns an element together with an error")
				}
				continue
			}
			n++
			pos := c.P.InstrPos(t.Instr)
			cp := "(*etree.Element).Copy($el)"
			sig := "(*dsig.ValidationContext).findSignature($ctx, " + cp + ")#0"
			cert := "(*dsig.ValidationContext).verifyCertificate($ctx, " + sig + ")#0"
			want := "(*dsig.ValidationContext).validateSignature($ctx, " + cp + ", " + sig + ", " + cert + ")#0"
			c.check(ap(t.Vals[0]) == want, "audit/dsig.Validate", fname, "accepting return is validateSignature(copy, sig, cert)", pos, want, "Validate returns "+ap(t.Vals[0]))
			a := t.atoms()
			c.check(a[strings.TrimSuffix(sig, "#0")+"#1 == nil"] && a[strings.TrimSuffix(cert, "#0")+"#1 == nil"], "audit/dsig.Validate", fname, "findSignature and verifyCertificate errors are nil on the accepting path", pos, "both nil", "Validate accepts without checking findSignature / verifyCertificate errors")
			// input only copied
			for _, e := range t.St.events {
				if e.Kind == EvCall && shortName(e.Callee) != "(*etree.Element).Copy" {
					for _, arg := range e.Args {
						if ap(arg) == "$el" {
							c.bad("audit/dsig.Validate", fname, "input element only copied", c.P.InstrPos(e.Instr), "Validate passes its input element to "+shortName(e.Callee)+" (contract: input not mutated)")
						}
					}
				}
			}
		}
		c.count("audit/dsig.Validate accepting", n)
		c.floor("audit/dsig.Validate accepting", 1)
	}
	vs := c.depKernel(pDsig, "(*ValidationContext).validateSignature")
	if vs != nil {
		fname := "dsig.(*ValidationContext).validateSignature"
		n := 0
		for _, t := range vs.Terms {
			if !t.accepting(vs.Root) {
				continue
			}
			n++
			pos := c.P.InstrPos(t.Instr)
			root, ok := t.Vals[0].(*CallV)
			if !ok || shortName(root.Callee) != "(*etree.Document).Root" {
				c.bad("audit/dsig.Validate", fname, "returns doc.Root()", pos, "returns "+ap(t.Vals[0]))
				continue
			}
			doc := root.Args[0]
			var read, canon, chk, eq *Event
			var hashWrite *Event
			for _, e := range t.St.events {
				if e.Kind != EvCall {
					continue
				}
				switch {
				case shortName(e.Callee) == "(*etree.Document).ReadFromBytes" && e.Args[0].Key() == doc.Key():
					read = e
				case strings.HasSuffix(e.Callee, "Canonicalizer).Canonicalize"):
					canon = e
				case e.Callee == "(*crypto/x509.Certificate).CheckSignature":
					chk = e
				case e.Callee == "bytes.Equal":
					eq = e
				case e.Callee == "(hash.Hash).Write":
					hashWrite = e
				}
			}
			if read == nil || canon == nil || chk == nil || eq == nil || hashWrite == nil {
				c.bad("audit/dsig.Validate", fname, "verification pipeline present", pos, "accepting path lacks one of ReadFromBytes / Canonicalize / CheckSignature / bytes.Equal / hash.Write")
				continue
			}
			rb := canon.Res[0]
			c.check(read.Args[1].Key() == rb.Key(), "audit/dsig.Validate", fname, "returned tree is re-parsed from the canonical bytes", pos, "ReadFromBytes(referencedBytes)", "the returned element is parsed from "+ap(read.Args[1])+", not the digested bytes")
			c.check(hashWrite.Args[1].Key() == rb.Key(), "audit/dsig.Validate", fname, "digest computed over the same bytes", pos, "hash.Write(referencedBytes)", "digest is computed over "+ap(hashWrite.Args[1]))
			eqTrue, k := t.factTrue(eq.Res[0])
			c.check(k && eqTrue, "audit/dsig.Validate", fname, "digest equality required", pos, "bytes.Equal == true", "accepts without the digest comparison being true")
			chkNil, k2 := t.eqFact(chk.Res[0], nilOf(nil))
			c.check(k2 && chkNil && ap(chk.Args[0]) == "$cert", "audit/dsig.Validate", fname, "SignedInfo signature checked with the certificate handed in", pos, "cert.CheckSignature == nil", "accepts without a successful CheckSignature by the verified certificate")
			readNil, k3 := t.eqFact(read.Res[0], nilOf(nil))
			c.check(k3 && readNil, "audit/dsig.Validate", fname, "re-parse error checked", pos, "nil", "re-parse error ignored")
		}
		c.count("audit/dsig.validateSignature accepting", n)
		c.floor("audit/dsig.validateSignature accepting", 1)
	}
	c.Extra["contract_audit"] = "dsig Validate / validateSignature audited by shape on the pinned source"
}

// auditVerifyCertificate: membership in the store, single-certificate fallback, validity window on ctx.Clock.
func auditVerifyCertificate(c *Ctx) {
	c.rule("audit/dsig.verifyCertificate", "thorough: accepting returns yield roots[i] for an i assigned only under roots[i].Equal(candidate); without KeyInfo the candidate is roots[0] under len(roots) == 1; the certificate is rejected exactly when ctx.Clock.Now() is before NotBefore or after NotAfter")
	r := c.depKernel(pDsig, "(*ValidationContext).verifyCertificate")
	if r == nil {
		return
	}
	fname := "dsig.(*ValidationContext).verifyCertificate"
	roots := "(dsig.X509CertificateStore).Certificates($ctx.CertificateStore)#0"
	now := "(*dsig.Clock).Now($ctx.Clock)"
	n := 0
	var acc []*Terminal
	for _, t := range r.Terms {
		if t.Kind != "return" {
			continue
		}
		if !t.accepting(r.Root) {
			continue
		}
		n++
		acc = append(acc, t)
		pos := c.P.InstrPos(t.Instr)
		got := ap(t.Vals[0])
		c.check(strings.HasPrefix(got, roots+"["), "audit/dsig.verifyCertificate", fname, "returns a member of the configured store", pos, got, "returns "+got+", not an element of CertificateStore.Certificates()")
		a := t.atoms()
		// candidate on the no-KeyInfo branch
		if a["$sig.KeyInfo == nil"] {
			c.check(a["len("+roots+") == 1"], "audit/dsig.verifyCertificate", fname, "no KeyInfo: only with exactly one trusted certificate", pos, "len(roots) == 1", "a signature without KeyInfo is checked against a store that does not hold exactly one certificate")
		}
		// index assigned under Equal
		eqSeen := false
		for _, f := range t.St.facts {
			if cv, ok := f.Cond.(*CallV); ok && cv.Callee == "(*crypto/x509.Certificate).Equal" {
				eqSeen = true
				c.check(strings.HasPrefix(ap(cv.Args[0]), roots+"[") || strings.HasPrefix(ap(cv.Args[1]), roots+"["), "audit/dsig.verifyCertificate", fname, "candidate compared with store members by x509 Equal", pos, "roots[i].Equal(candidate)", "Equal compares "+ap(cv.Args[0])+" with "+ap(cv.Args[1]))
			}
		}
		through := a["(i* + 1) < len("+roots+")"]
		c.check(!through || eqSeen, "audit/dsig.verifyCertificate", fname, "membership decided by Equal in the loop over the store", pos, "Equal consulted", "loop over the store does not consult Equal")
		c.check(a["!(i* == -1)"] || a["!((i* + 1) == -1)"] || !strings.Contains(got, "i*"), "audit/dsig.verifyCertificate", fname, "no match => reject", pos, "rootIdx != -1", "accepts although no store member matched")
	}
	c.count("audit/dsig.verifyCertificate accepting", n)
	c.floor("audit/dsig.verifyCertificate accepting", 2)
	// window truth tables over all returning terminals that reached the comparison
	var all []*Terminal
	bounds := map[string]bool{}
	for _, t := range r.Terms {
		if t.Kind != "return" {
			continue
		}
		all = append(all, t)
		for _, tc := range timeFacts(t) {
			for _, s := range []string{tc.a, tc.b} {
				if strings.HasSuffix(s, ".NotBefore") || strings.HasSuffix(s, ".NotAfter") {
					bounds[s] = true
				}
			}
		}
	}
	for b := range bounds {
		bb := b
		rel := func(t *Terminal) bool { return mentionsCmp(t, now, bb) }
		rejBy := func(t *Terminal) bool {
			if t.accepting(r.Root) {
				return false
			}
			for i := len(t.St.facts) - 1; i >= 0; i-- {
				if t.St.facts[i].Forced {
					continue
				}
				tc, ok := isTimeCmpFact(t.St.facts[i])
				return ok && (tc.a == bb || tc.b == bb)
			}
			return false
		}
		if strings.HasSuffix(b, ".NotBefore") {
			truthTable(c, "audit/dsig.verifyCertificate", fname, "reject outside window: NotBefore", c.P.Pos(r.Root.Pos()), all, now, b, rel, rejBy, map[int]bool{-1: true, 0: false, 1: false})
		} else {
			truthTable(c, "audit/dsig.verifyCertificate", fname, "reject outside window: NotAfter", c.P.Pos(r.Root.Pos()), all, now, b, rel, rejBy, map[int]bool{-1: false, 0: false, 1: true})
		}
	}
	c.count("audit/dsig.verifyCertificate bounds", len(bounds))
	c.floor("audit/dsig.verifyCertificate bounds", 2)
	c.Extra["contract_audit"] = "dsig verifyCertificate audited by shape on the pinned source"
}

func init() {
	thoroughExtras["C01"] = auditValidate
	thoroughExtras["C10"] = auditValidate
	thoroughExtras["C04"] = auditValidate
	thoroughExtras["C02"] = func(c *Ctx) { auditValidate(c); auditVerifyCertificate(c) }
}
