package main

// Required-fact tables and typed-error checks (DESIGN.md A.3), comparison truth tables (C05).

import (
	"fmt"
	"go/token"
	"strings"

	"golang.org/x/tools/go/ssa"
)

type ErrSpec struct {
	Type   string              // e.g. "saml2.ErrInvalidValue"
	Fields map[string][]string // constant fields and their admissible values
	Global string              // alternatively: load of this package-level error value
}

type Row struct {
	ID      string
	Alts    []string // alternative atoms: the row holds when any one is on the path
	Err     *ErrSpec
	PerElem bool // applies to paths that executed the generic iteration of the element loop
	NoErr   bool // row is checked on accepting paths only (its rejection is decided elsewhere)
}

func negAtom(a string) string {
	if strings.HasPrefix(a, "!(") && strings.HasSuffix(a, ")") {
		return a[2 : len(a)-1]
	}
	return "!(" + a + ")"
}

func rowHolds(r Row, atoms map[string]bool) bool {
	for _, a := range r.Alts {
		if atoms[a] {
			return true
		}
	}
	return false
}

// rowNegated: no alternative holds, at least one alternative is tested on the path, and every tested
// alternative is negated (alternatives may be syntactic variants of one check, of which a path mentions one).
func rowNegated(r Row, atoms map[string]bool) bool {
	mentioned := 0
	for _, a := range r.Alts {
		if atoms[a] {
			return false
		}
		if atoms[negAtom(a)] {
			mentioned++
		}
	}
	return mentioned > 0
}

// rowContradicted: every alternative the code tests is false on this path (a disjunction with an alternative still
// undetermined is not contradicted).
func rowContradicted(r Row, atoms map[string]bool, used map[string]bool) bool {
	n := 0
	for _, a := range r.Alts {
		if !used[a] {
			continue
		}
		if !atoms[negAtom(a)] {
			return false
		}
		n++
	}
	return n > 0
}

func hasLoopBack(t *Terminal) bool {
	for _, e := range t.St.events {
		if e.Kind == EvLoopBack {
			return true
		}
	}
	return false
}

// guardInventory checks (1) every accepting terminal carries every row, (2) for every row some rejecting
// terminal negates it and all such terminals return the row's typed error.
func guardInventory(c *Ctx, rule string, res *Result, rows []Row, wrap func(Val) Val) {
	if res == nil {
		return
	}
	fn := res.Root
	fname := shortFn(fn)
	ei := errIdx(fn)
	nAcc := 0
	for _, t := range res.Terms {
		if t.Kind == "panic" {
			continue
		}
		atoms := t.atoms()
		if t.accepting(fn) {
			nAcc++
			through := hasLoopBack(t)
			for _, r := range rows {
				if r.PerElem && !through {
					continue
				}
				if rowHolds(r, atoms) {
					c.ok(rule+"/row", fname, r.ID, c.P.InstrPos(t.Instr), "accepting path carries "+strings.Join(r.Alts, " ∨ "))
				} else {
					o := c.bad(rule+"/row", fname, r.ID, c.P.InstrPos(t.Instr),
						fmt.Sprintf("an accepting path of %s lacks the required check [%s]; the message is accepted without it", fname, strings.Join(r.Alts, " ∨ ")))
					o.Path = t.pathDesc(c.P)
				}
			}
			continue
		}
		// rejecting terminal
		if ei >= 0 {
			ev := t.Vals[ei]
			if wrap != nil {
				ev = wrap(ev)
			}
			if !t.errNonNil(ev) {
				c.bad(rule+"/nonnil-error", fname, "return at "+c.P.InstrPos(t.Instr), c.P.InstrPos(t.Instr), "rejecting return whose error is not provably non-nil: "+ap(ev))
			}
		}
	}
	c.count(rule+"/accepting-paths", nAcc)
	// per-element rows: must hold at EVERY completed generic iteration (back edge), whatever the path does
	// afterwards — loop-carried state is havocked, so a later accepting return says nothing about earlier iterations.
	for _, t := range res.Terms {
		for _, e := range t.St.events {
			if e.Kind != EvLoopBack {
				continue
			}
			atoms := map[string]bool{}
			for _, f := range t.St.facts {
				if f.Seq <= e.Seq {
					atoms[atom(f)] = true
				}
			}
			for _, r := range rows {
				if !r.PerElem {
					continue
				}
				if rowHolds(r, atoms) {
					c.ok(rule+"/row", fname, r.ID, c.P.InstrPos(e.Instr), "every completed iteration carries "+strings.Join(r.Alts, " ∨ "))
				} else {
					o := c.bad(rule+"/row", fname, r.ID, c.P.InstrPos(e.Instr),
						fmt.Sprintf("an iteration of the element loop in %s completes (reaches the back edge) without the required check [%s]: a failing element in a non-final position does not stop the loop", fname, strings.Join(r.Alts, " ∨ ")))
					o.Path = t.pathDesc(c.P)
				}
			}
		}
	}
	// typed errors
	// alternatives the code actually tests somewhere (the others are spellings the code does not use)
	used := map[string]bool{}
	for _, t := range res.Terms {
		atoms := t.atoms()
		for _, r := range rows {
			for _, a := range r.Alts {
				if atoms[a] || atoms[negAtom(a)] {
					used[a] = true
				}
			}
		}
	}
	for _, r := range rows {
		if r.NoErr || r.Err == nil {
			continue
		}
		n := 0
		for _, t := range res.Terms {
			if t.Kind != "return" || t.accepting(fn) || ei < 0 {
				continue
			}
			atoms := t.atoms()
			if !rowNegated(r, atoms) {
				continue
			}
			// the negation must be what decided the return: this row is the only one the path contradicts (whether
			// the checks are evaluated one at a time or all up front, a rejection that contradicts a single row is
			// that row's rejection)
			only := true
			for _, r2 := range rows {
				if r2.ID != r.ID && !r2.NoErr && r2.Err != nil && rowContradicted(r2, atoms, used) {
					only = false
				}
			}
			if !only {
				continue
			}
			n++
			ev := t.Vals[ei]
			if msg := matchErr(c, t, ev, r.Err); msg == "" {
				c.ok(rule+"/typed-error", fname, r.ID, c.P.InstrPos(t.Instr), "rejection returns "+ap(ev))
			} else {
				c.bad(rule+"/typed-error", fname, r.ID, c.P.InstrPos(t.Instr), "rejection for ["+r.ID+"] does not return the typed error naming the element: "+msg)
			}
		}
		if n == 0 {
			c.bad(rule+"/typed-error", fname, r.ID, c.P.Pos(fn.Pos()), "no rejecting path is decided by the negation of ["+strings.Join(r.Alts, " ∨ ")+"]")
		}
	}
}

func lastFact(t *Terminal) string {
	for i := len(t.St.facts) - 1; i >= 0; i-- {
		if !t.St.facts[i].Forced {
			return atom(t.St.facts[i])
		}
	}
	return ""
}

func matchErr(c *Ctx, t *Terminal, ev Val, spec *ErrSpec) string {
	if spec.Global != "" {
		if l, ok := stripIface(ev).(*LoadV); ok {
			if g, ok := l.Addr.(*GlobalV); ok && g.G.Name() == spec.Global {
				return ""
			}
		}
		// fall through to literal match
	}
	tn, fields, ok := structLitOf(ev)
	if !ok {
		return "error value is " + ap(ev) + ", not a " + spec.Type + " literal"
	}
	if tn != spec.Type {
		return "error type is " + tn + ", want " + spec.Type
	}
	for f, want := range spec.Fields {
		v, ok := fields[f]
		s, isC := "", false
		if ok {
			s, isC = constString(v)
		}
		if !ok && len(want) == 1 && want[0] == "" {
			continue
		}
		if !isC {
			return fmt.Sprintf("field %s is not a constant (%s)", f, ap(v))
		}
		match := false
		for _, w := range want {
			if s == w {
				match = true
			}
		}
		if !match {
			return fmt.Sprintf("field %s = %q, want one of %q", f, s, want)
		}
	}
	return ""
}

// ---------------------------------------------------------------- time comparison truth tables

type timeCmp struct {
	op   string // Before | After | Equal | cmp<k | k<cmp | cmp==k  (the last three: a.Compare(b) against the constant k)
	a, b string // access paths of operands
	pol  bool
	seq  int
	k    int64
}

// compareFact recognises a.Compare(b) < k, k < a.Compare(b) and a.Compare(b) == k (normalised comparison forms).
func compareFact(c Val) (timeCmp, bool) {
	b, ok := c.(*BinV)
	if !ok {
		return timeCmp{}, false
	}
	isCmp := func(v Val) (*CallV, bool) {
		cv, ok := v.(*CallV)
		return cv, ok && cv.Callee == "(time.Time).Compare" && len(cv.Args) == 2
	}
	switch b.Op {
	case token.LSS:
		if cv, ok := isCmp(b.X); ok {
			if k, isK := constInt(b.Y); isK {
				return timeCmp{op: "cmp<k", a: ap(cv.Args[0]), b: ap(cv.Args[1]), k: k}, true
			}
		}
		if cv, ok := isCmp(b.Y); ok {
			if k, isK := constInt(b.X); isK {
				return timeCmp{op: "k<cmp", a: ap(cv.Args[0]), b: ap(cv.Args[1]), k: k}, true
			}
		}
	case token.EQL:
		for _, pr := range [][2]Val{{b.X, b.Y}, {b.Y, b.X}} {
			if cv, ok := isCmp(pr[0]); ok {
				if k, isK := constInt(pr[1]); isK {
					return timeCmp{op: "cmp==k", a: ap(cv.Args[0]), b: ap(cv.Args[1]), k: k}, true
				}
			}
		}
	}
	return timeCmp{}, false
}

// timeFacts extracts the facts of t that compare two instants.
func timeFacts(t *Terminal) []timeCmp {
	var out []timeCmp
	for _, f := range t.St.facts {
		if tc, ok := compareFact(f.Cond); ok {
			tc.pol, tc.seq = f.Pol, f.Seq
			out = append(out, tc)
			continue
		}
		cv, ok := f.Cond.(*CallV)
		if !ok {
			continue
		}
		var op string
		switch cv.Callee {
		case "(time.Time).Before":
			op = "Before"
		case "(time.Time).After":
			op = "After"
		case "(time.Time).Equal":
			op = "Equal"
		default:
			continue
		}
		out = append(out, timeCmp{op: op, a: ap(cv.Args[0]), b: ap(cv.Args[1]), pol: f.Pol, seq: f.Seq})
	}
	return out
}

// evalCmp: truth of op(a, b) under ordering ord of (x relative to y): -1 x<y, 0 x=y, 1 x>y. ok=false if the
// comparison is not between x and y.
func evalCmp(tc timeCmp, x, y string, ord int) (bool, bool) {
	o := ord
	switch {
	case tc.a == x && tc.b == y:
	case tc.a == y && tc.b == x:
		o = -ord
	default:
		return false, false
	}
	switch tc.op {
	case "Before":
		return o < 0, true
	case "After":
		return o > 0, true
	case "cmp<k":
		return int64(o) < tc.k, true
	case "k<cmp":
		return tc.k < int64(o), true
	case "cmp==k":
		return int64(o) == tc.k, true
	default:
		return o == 0, true
	}
}

// consistent: every comparison fact of t between x and y is true under ord.
func consistent(t *Terminal, x, y string, ord int) bool {
	for _, tc := range timeFacts(t) {
		if v, ok := evalCmp(tc, x, y, ord); ok && v != tc.pol {
			return false
		}
	}
	return true
}

func mentionsCmp(t *Terminal, x, y string) bool {
	for _, tc := range timeFacts(t) {
		if _, ok := evalCmp(tc, x, y, 0); ok {
			return true
		}
	}
	return false
}

var ordNames = map[int]string{-1: "now < bound", 0: "now = bound", 1: "now > bound"}

// truthTable evaluates, for each ordering of (now, bound), whether `decision(t)` holds on all / none of the
// terminals consistent with that ordering (restricted to `relevant` terminals). want[ord] is the required value.
func truthTable(c *Ctx, rule, fname, construct, pos string, terms []*Terminal, now, bound string,
	relevant func(*Terminal) bool, decision func(*Terminal) bool, want map[int]bool) {
	for _, ord := range []int{-1, 0, 1} {
		nT, nD := 0, 0
		for _, t := range terms {
			if !relevant(t) || !consistent(t, now, bound, ord) {
				continue
			}
			nT++
			if decision(t) {
				nD++
			}
		}
		key := construct + " @ " + ordNames[ord]
		switch {
		case nT == 0:
			c.undecided(rule, fname, key, pos, "no path compares "+now+" with "+bound+" under this ordering")
		case want[ord] && nD == nT:
			c.ok(rule, fname, key, pos, fmt.Sprintf("decision taken on all %d consistent paths", nT))
		case !want[ord] && nD == 0:
			c.ok(rule, fname, key, pos, fmt.Sprintf("decision taken on none of %d consistent paths", nT))
		default:
			c.bad(rule, fname, key, pos, fmt.Sprintf("truth table wrong for ordering [%s]: required decision=%v, but it is taken on %d of %d consistent paths (comparison of %s against %s)", ordNames[ord], want[ord], nD, nT, now, bound))
		}
	}
}

// ---------------------------------------------------------------- misc path helpers

// storesTo returns store events whose address is field `name` of an object with the given ap rendering prefix.
func storesToField(t *Terminal, name string) []*Event {
	var out []*Event
	for _, e := range t.St.events {
		if e.Kind != EvStore {
			continue
		}
		if fa, ok := e.Addr.(*FieldAddrV); ok && fa.Name == name {
			out = append(out, e)
		}
	}
	return out
}

// guardBefore: the atom of the last non-forced fact recorded before event e.
func guardBefore(t *Terminal, e *Event) (Fact, bool) {
	for i := len(t.St.facts) - 1; i >= 0; i-- {
		f := t.St.facts[i]
		if f.Seq <= e.Seq && !f.Forced {
			return f, true
		}
	}
	return Fact{}, false
}

func isTimeCmpFact(f Fact) (timeCmp, bool) {
	if tc, ok := compareFact(f.Cond); ok {
		tc.pol = f.Pol
		return tc, true
	}
	cv, ok := f.Cond.(*CallV)
	if !ok {
		return timeCmp{}, false
	}
	switch cv.Callee {
	case "(time.Time).Before", "(time.Time).After", "(time.Time).Equal":
		return timeCmp{op: strings.TrimPrefix(cv.Callee, "(time.Time)."), a: ap(cv.Args[0]), b: ap(cv.Args[1]), pol: f.Pol}, true
	}
	return timeCmp{}, false
}

var _ = token.EQL
var _ *ssa.Function

// loopShape: how a path went through the loop over `coll` — recognises the range idiom (index phi from -1) and
// the classic index idiom (from 0).
type loopShape struct {
	Zero      bool // zero iterations
	Gen       bool // went through the generic iteration
	Exhausted bool // left by exhaustion after the generic iteration
}

func loopShapeOf(atoms map[string]bool, coll string) loopShape {
	l := "len(" + coll + ")"
	var s loopShape
	// an explicit emptiness test says the same as a loop that did not run
	s.Zero = atoms["!(0 < "+l+")"] || atoms[l+" == 0"] || atoms[l+" < 1"]
	rangeGen := atoms["(i* + 1) < "+l]
	idxGen := atoms["i* < "+l]
	s.Gen = rangeGen || idxGen
	s.Exhausted = (rangeGen && atoms["!(((i* + 1) + 1) < "+l+")"]) || (idxGen && atoms["!((i* + 1) < "+l+")"])
	return s
}

// timeInconsistent: the instant comparisons of the path (Before / After / Equal / Compare among the clock reading and
// the parsed bounds) admit no ordering of the instants — e.g. !(now < nb), now < noa and !(nb < noa).
func timeInconsistent(t *Terminal) bool {
	tfs := timeFacts(t)
	if len(tfs) < 3 {
		return false
	}
	idx := map[string]int{}
	var names []string
	for _, tc := range tfs {
		for _, n := range []string{tc.a, tc.b} {
			if _, ok := idx[n]; !ok {
				idx[n] = len(names)
				names = append(names, n)
			}
		}
	}
	n := len(names)
	if n < 3 || n > 5 {
		return false
	}
	rank := make([]int, n)
	var try func(i int) bool
	try = func(i int) bool {
		if i == n {
			for _, tc := range tfs {
				d := rank[idx[tc.a]] - rank[idx[tc.b]]
				ord := 0
				if d < 0 {
					ord = -1
				} else if d > 0 {
					ord = 1
				}
				if v, ok := evalCmp(tc, tc.a, tc.b, ord); ok && v != tc.pol {
					return false
				}
			}
			return true
		}
		for r := 0; r < n; r++ {
			rank[i] = r
			if try(i + 1) {
				return true
			}
		}
		return false
	}
	return !try(0)
}
