package main

// Engine F: key-source decision tables (C11-R3, C13-R4, C19-R2), advertised-vs-handled tables (C11-R1/R2),
// symmetric layer arithmetic (C11-R4), metadata wiring and validity unit rule (C19).

import (
	"fmt"
	"go/constant"
	"go/token"
	"go/types"
	"sort"
	"strings"

	"golang.org/x/tools/go/ssa"
)

var keySources = []string{"spSigningKeyStoreOverride", "SPSigningKeyStore", "spKeyStoreOverride", "SPKeyStore"}

// sourceOf names the provider key-source field a value is rooted at ("" if none).
func sourceOf(v Val) string {
	if v == nil {
		return ""
	}
	s := ap(v)
	best, bestIdx := "", -1
	for _, k := range keySources {
		if i := strings.Index(s, "SP."+k); i >= 0 && (bestIdx < 0 || i < bestIdx) {
			best, bestIdx = k, i
		}
	}
	return best
}

type config [4]bool // non-nil?

func (c config) String() string {
	var parts []string
	for i, k := range keySources {
		if c[i] {
			parts = append(parts, k)
		}
	}
	if len(parts) == 0 {
		return "{no key configured}"
	}
	return "{" + strings.Join(parts, " + ") + "}"
}

// allConfigs: the 12 valid key configurations — an encryption key (setter or field) is documented as required
// ("Required encryption key and default signing key"); configurations without one are outside the property.
func allConfigs() []config {
	var out []config
	for m := 0; m < 16; m++ {
		var c config
		for i := 0; i < 4; i++ {
			c[i] = m&(1<<i) != 0
		}
		if !c[2] && !c[3] {
			continue
		}
		out = append(out, c)
	}
	return out
}

// consistentCfg: every nil / non-nil fact of t about a key source agrees with cfg.
func consistentCfg(t *Terminal, cfg config) bool {
	for _, f := range t.St.facts {
		b, ok := f.Cond.(*BinV)
		if !ok || b.Op != token.EQL || !isNilConst(b.Y) {
			continue
		}
		a := ap(b.X)
		for i, k := range keySources {
			if a == "SP."+k {
				isNil := f.Pol
				if isNil == cfg[i] {
					return false
				}
			}
		}
	}
	return true
}

type selector struct {
	Name    string
	Role    string
	Res     *Result
	Outcome func(t *Terminal) (src string, relevant bool) // "" = none; "!error" = failed
}

// table evaluates the selector over all 16 configurations.
func (s *selector) table(c *Ctx) map[config]string {
	out := map[config]string{}
	for _, cfg := range allConfigs() {
		outs := map[string]bool{}
		errs := 0
		for _, t := range s.Res.Terms {
			if t.Kind != "return" || !consistentCfg(t, cfg) {
				continue
			}
			src, rel := s.Outcome(t)
			if !rel {
				continue
			}
			if src == "!error" {
				errs++ // run-time failure (key store error, empty certificate): not a selection
				continue
			}
			// a selected source that is nil in this configuration selects nothing
			for i, k := range keySources {
				if src == k && !cfg[i] {
					src = ""
				}
			}
			outs[src] = true
		}
		if len(outs) == 0 && errs > 0 {
			outs[""] = true
		}
		switch len(outs) {
		case 0:
			out[cfg] = "?"
		case 1:
			for k := range outs {
				out[cfg] = k
			}
		default:
			out[cfg] = "ambiguous:" + strings.Join(sortedStrings(outs), "|")
		}
	}
	return out
}

// descriptorCert: the certificate bytes value published in the KeyDescriptor with the given use, read from the FINAL
// state of the returned EntityDescriptor (so that descriptors sharing storage — a template struct appended twice whose
// certificate slice is one backing array — are seen as what the caller really gets). present=false: no such descriptor.
func descriptorCert(t *Terminal, use string) (Val, bool) {
	if len(t.Vals) == 0 {
		return nil, false
	}
	rd := newReader(t)
	sps := rd.field(t.Vals[0], "SPSSODescriptor")
	if sps == nil {
		return nil, false
	}
	kds, ok := rd.elems(rd.field(sps, "KeyDescriptors"))
	if !ok {
		return nil, false
	}
	for _, kd := range kds {
		u := rd.field(kd, "Use")
		if s, isC := constString(u); !isC || s != use {
			continue
		}
		certs, ok := rd.elems(rd.field(rd.field(rd.field(kd, "KeyInfo"), "X509Data"), "X509Certificates"))
		if !ok || len(certs) == 0 {
			return nil, true
		}
		d := rd.field(certs[0], "Data")
		if cv, ok := d.(*CallV); ok && strings.HasSuffix(cv.Callee, "EncodeToString") {
			return cv.Args[1], true
		}
		return d, true
	}
	return nil, false
}

func signingSelectors(c *Ctx) []*selector {
	var out []*selector
	if r := c.kernel("(*SAMLServiceProvider).SigningContext", "*"); r != nil {
		out = append(out, &selector{Name: "SigningContext (key that signs)", Role: "signing", Res: r, Outcome: func(t *Terminal) (string, bool) {
			a := t.atoms()
			if !a["SP.signingContext == nil"] {
				return "", false // cached path: not a selection
			}
			for _, e := range t.St.events {
				if e.Kind == EvCall && (shortName(e.Callee) == "dsig.NewSigningContext" || shortName(e.Callee) == "dsig.NewDefaultSigningContext") {
					return sourceOf(e.Args[0]), true
				}
			}
			return "", true
		}})
	}
	if r := c.kernel("(*SAMLServiceProvider).GetSigningCertBytes", "*"); r != nil {
		out = append(out, &selector{Name: "GetSigningCertBytes (certificate reported)", Role: "signing", Res: r, Outcome: func(t *Terminal) (string, bool) {
			if !t.accepting(r.Root) {
				return "!error", true
			}
			return sourceOf(t.Vals[0]), true
		}})
	}
	for _, fn := range []string{"(*SAMLServiceProvider).Metadata", "(*SAMLServiceProvider).MetadataWithSLO"} {
		if r := c.kernel(fn, "*"); r != nil {
			rr := r
			out = append(out, &selector{Name: shortFn(r.Root) + " (signing KeyDescriptor published)", Role: "signing", Res: r, Outcome: func(t *Terminal) (string, bool) {
				if !t.accepting(rr.Root) {
					return "!error", true
				}
				v, present := descriptorCert(t, "signing")
				if !present {
					return "", true
				}
				return sourceOf(v), true
			}})
		}
	}
	return out
}

func encryptionSelectors(c *Ctx) []*selector {
	var out []*selector
	if r := c.kernel("(*SAMLServiceProvider).getDecryptCert", "*"); r != nil {
		out = append(out, &selector{Name: "getDecryptCert (key that decrypts)", Role: "encryption", Res: r, Outcome: func(t *Terminal) (string, bool) {
			if !t.accepting(r.Root) {
				// validity failures are not selections
				a := t.atoms()
				if a["SP.ValidateEncryptionCert"] {
					return "", false
				}
				return "!error", true
			}
			if a := t.atoms(); a["SP.ValidateEncryptionCert"] {
				return "", false
			}
			// returned &decryptCert: its PrivateKey / Certificate source
			en := &Engine{}
			al := t.Vals[0]
			p, ok := al.Type().Underlying().(*types.Pointer)
			if !ok {
				return sourceOf(al), true
			}
			st := p.Elem().Underlying().(*types.Struct)
			idx := fieldIndex(p.Elem(), "PrivateKey")
			if idx < 0 {
				return "", true
			}
			pk := en.load(t.St, mkFieldAddr(al, idx, p.Elem(), st.Field(idx).Type()), st.Field(idx).Type())
			return sourceOf(pk), true
		}})
	}
	if r := c.kernel("(*SAMLServiceProvider).GetEncryptionCertBytes", "*"); r != nil {
		out = append(out, &selector{Name: "GetEncryptionCertBytes (certificate reported)", Role: "encryption", Res: r, Outcome: func(t *Terminal) (string, bool) {
			if !t.accepting(r.Root) {
				return "!error", true
			}
			return sourceOf(t.Vals[0]), true
		}})
	}
	for _, fn := range []string{"(*SAMLServiceProvider).Metadata", "(*SAMLServiceProvider).MetadataWithSLO"} {
		if r := c.kernel(fn, "*"); r != nil {
			rr := r
			out = append(out, &selector{Name: shortFn(r.Root) + " (encryption KeyDescriptor published)", Role: "encryption", Res: r, Outcome: func(t *Terminal) (string, bool) {
				if !t.accepting(rr.Root) {
					return "!error", true
				}
				v, present := descriptorCert(t, "encryption")
				if !present {
					return "", true
				}
				return sourceOf(v), true
			}})
		}
	}
	return out
}

// tableAgreement compares sibling selector tables of one role, configuration by configuration.
// ignoreErr: selector names whose "none" outcome (error) is not compared when the reference also has none.
func tableAgreement(c *Ctx, rule string, sels []*selector, floor int) {
	if len(sels) < 2 {
		c.bad(rule, "-", "selectors resolve", "-", "fewer than two selector functions could be analysed")
		return
	}
	tabs := make([]map[config]string, len(sels))
	for i, s := range sels {
		tabs[i] = s.table(c)
	}
	ref := sels[0]
	for i := 1; i < len(sels); i++ {
		for _, cfg := range allConfigs() {
			a, b := tabs[0][cfg], tabs[i][cfg]
			key := ref.Name + " vs " + sels[i].Name + " @ " + cfg.String()
			fn := shortFn(sels[i].Res.Root)
			pos := c.P.Pos(sels[i].Res.Root.Pos())
			show := func(s string) string {
				if s == "" {
					return "none"
				}
				return s
			}
			switch {
			case strings.HasPrefix(a, "ambiguous") || strings.HasPrefix(b, "ambiguous") || a == "?" || b == "?":
				c.undecided(rule, fn, key, pos, fmt.Sprintf("selector is not a function of the key configuration: %s=%s, %s=%s", ref.Name, a, sels[i].Name, b))
			case a == b:
				c.ok(rule, fn, key, pos, "both select "+show(a))
			default:
				c.bad(rule, fn, key, pos, fmt.Sprintf("key-source disagreement for configuration %s: %s selects %s but %s selects %s", cfg, ref.Name, show(a), sels[i].Name, show(b)))
			}
		}
	}
	c.count(rule+"/selectors", len(sels))
	c.floor(rule+"/selectors", floor)
	// evidence: the tables themselves
	tabOut := map[string]map[string]string{}
	for i, s := range sels {
		m := map[string]string{}
		for cfg, v := range tabs[i] {
			if v == "" {
				v = "none"
			}
			m[cfg.String()] = v
		}
		tabOut[s.Name] = m
	}
	c.Extra["decision_tables_"+sels[0].Role] = tabOut
}

// ---------------------------------------------------------------- constants tables

func constStrings(p *types.Package, prefix string) map[string]string {
	out := map[string]string{}
	for _, n := range p.Scope().Names() {
		if cst, ok := p.Scope().Lookup(n).(*types.Const); ok && strings.HasPrefix(n, prefix) && cst.Val().Kind() == constant.String {
			out[n] = constant.StringVal(cst.Val())
		}
	}
	return out
}

// switchCases collects, per switch tag expression (by access path), the constant strings compared with == on any path.
func caseConsts(res *Result) map[string]map[string]bool {
	out := map[string]map[string]bool{}
	for _, t := range res.Terms {
		for _, f := range t.St.facts {
			b, ok := f.Cond.(*BinV)
			if !ok || b.Op != token.EQL {
				continue
			}
			if s, ok := constString(b.Y); ok {
				k := ap(b.X)
				if out[k] == nil {
					out[k] = map[string]bool{}
				}
				out[k][s] = true
			}
		}
	}
	return out
}

func ruleC11(c *Ctx) {
	c.rule("C11-R11", "the decrypted plaintext is not written to after decryption: no append over a prefix of bytes a function did not make anywhere in the inbound cone (shared aliasingAppend) — a log preview built with append(b[:n], \"...\"...) overwrites plaintext bytes n..n+2")
	aliasingAppend(c, "C11-R11", c09Roots, true)
	c.rule("C11-R1", "advertised ⊆ handled: every EncryptionMethod algorithm published by Metadata / MetadataWithSLO is a case of the symmetric switch in DecryptBytes that leads to a decryption (not the default error); both metadata functions advertise the same set")
	c.rule("C11-R2", "exported ⊆ handled: every exported key-transport constant (MethodRSA*) and digest constant (MethodSHA*) of package types is a case in DecryptSymmetricKey; absent DigestMethod and \"\" select SHA-1")
	c.rule("C11-R3", "key-source decision tables, role encryption: the key that decrypts (getDecryptCert) and the certificate reported / published (GetEncryptionCertBytes, metadata) pick the same source for all 16 field/setter configurations")
	c.rule("C11-R4", "layer arithmetic: GCM nonce = data[:n], body = data[n:] with the same n = NonceSize(); CBC IV = data[:b], body = data[b:] with the same b = BlockSize(); padding removal returns body[:len(body)-int(body[len(body)-1])]; detached EncryptedKey used exactly when the inline one has no CipherValue")
	// R1
	db := advertisedHandled(c, "C11-R1")

	// R2
	dk := c.kernel("types.(*EncryptedKey).DecryptSymmetricKey", "*")
	if dk != nil {
		cases := caseConsts(dk)
		algCases := cases["EK.EncryptionMethod.Algorithm"]
		digCases := cases["EK.EncryptionMethod.DigestMethod.Algorithm"]
		tp := c.P.Types.Pkg
		n := 0
		for name, val := range constStrings(tp, "MethodRSA") {
			n++
			// handled = some path with that fact reaches an rsa decrypt
			c.check(algCases[val] && reachesWith(dk, "EK.EncryptionMethod.Algorithm", val, "crypto/rsa.Decrypt"), "C11-R2", shortFn(dk.Root), "key transport "+name, "-", "case leads to an RSA decrypt", "exported key-transport constant "+name+" ("+val+") has no decrypting case in DecryptSymmetricKey")
		}
		for name, val := range constStrings(tp, "MethodSHA") {
			n++
			c.check(digCases[val] && reachesWith(dk, "EK.EncryptionMethod.DigestMethod.Algorithm", val, "crypto/rsa.Decrypt"), "C11-R2", shortFn(dk.Root), "digest "+name, "-", "case leads to an RSA decrypt", "exported digest constant "+name+" ("+val+") is not accepted by DecryptSymmetricKey")
		}
		c.count("C11-R2/exported-constants", n)
		c.floor("C11-R2/exported-constants", 6)
		// default digest
		okNil, okEmpty := false, false
		for _, t := range dk.Terms {
			a := t.atoms()
			var h string
			for _, e := range t.St.events {
				if e.Kind == EvCall && e.Callee == "crypto/rsa.DecryptOAEP" {
					h = ap(e.Args[0])
				}
			}
			if h == "" {
				continue
			}
			if a["EK.EncryptionMethod.DigestMethod == nil"] {
				okNil = h == "crypto/sha1.New()"
				if !okNil {
					c.bad("C11-R2", shortFn(dk.Root), "absent DigestMethod selects SHA-1", c.P.InstrPos(t.Instr), "absent DigestMethod uses "+h)
				}
			}
			if a[`EK.EncryptionMethod.DigestMethod.Algorithm == ""`] {
				okEmpty = h == "crypto/sha1.New()"
			}
			// digest id -> hash agreement
			for id, want := range map[string]string{"http://www.w3.org/2000/09/xmldsig#sha1": "crypto/sha1.New()", "http://www.w3.org/2000/09/xmldsig#sha256": "crypto/sha256.New()", "http://www.w3.org/2000/09/xmldsig#sha512": "crypto/sha512.New()"} {
				if a["EK.EncryptionMethod.DigestMethod.Algorithm == \""+id+"\""] {
					c.check(h == want, "C11-R2", shortFn(dk.Root), "digest id "+id+" selects its hash", c.P.InstrPos(t.Instr), want, "digest identifier "+id+" is paired with "+h)
				}
			}
		}
		c.check(okNil && okEmpty, "C11-R2", shortFn(dk.Root), "absent / empty digest selects SHA-1", "-", "sha1.New on both", "absent DigestMethod or empty Algorithm does not select SHA-1")
	}

	// R6 key-unwrap flow
	if dk != nil {
		keyUnwrapFlow(c, "C11-R6", dk)
	}
	// R7 each encrypted assertion is decoded on its own
	c.rule("C11-R7", "every EncryptedAssertion is decoded into a target allocated by its own handler invocation (shared with C07-R3): a reused target carries the previous element's key placement / digest into the next")
	if da := c.kernel("(*SAMLServiceProvider).decryptAssertions", "*", "-(*SAMLServiceProvider).getDecryptCert", "-types.(*EncryptedAssertion).DecryptBytes", "-parseResponse"); da != nil {
		freshTargetsInHandlers(c, "C11-R7", da)
		// R8: what is decoded into the EncryptedAssertion struct is a detached copy of the visited element that keeps the
		// namespace declarations it inherits (NSDetatch) — a plain Copy() drops xmlns:saml declared on the Response and
		// the element no longer decodes, so an encrypted response is refused where its plaintext twin is accepted
		c.rule("C11-R10", "a refused key store changes nothing: SetSPKeyStore / SetSPSigningKeyStore store their argument only on the accepting path and touch nothing else — a signer-less store left installed takes precedence in getDecryptCert and disables decryption for a correctly configured provider (shared setterContract, also C13-R6 / C14-R6 / C19-R4)")
		setterContract(c, "C11-R10")
		c.rule("C11-R9", "decryption is reached for every encrypted assertion the validators accept: on every accepting, validating path of ValidateEncodedResponse decryptAssertions runs (unconditionally — not behind a look at the undecoded, possibly compressed, bytes) on the right root and before the assertions are read (shared with C07-R2)")
		nDec := shareFrom(c, "C11-R9", ruleC07, func(o *Obligation) bool { return o.Rule == "C07-R2" })
		c.count("C11-R9/paths", nDec)
		c.floor("C11-R9/paths", 3)
		c.rule("C11-R8", "the EncryptedAssertion is decoded from a namespace-preserving detached copy (etreeutils.NSDetatch) of the element being visited")
		n := 0
		for _, t := range da.Terms {
			for _, d := range decodes(t) {
				if typeStr(d.Obj.Type()) != "*types.EncryptedAssertion" {
					continue
				}
				n++
				want := "nscopy(desc(param:el))"
				c.check(d.Prov == want, "C11-R8", shortFn(da.Root), "EncryptedAssertion decode source", c.P.InstrPos(d.Ev.Instr), want, "the EncryptedAssertion is decoded from "+d.Prov+", want "+want+" (inherited namespace declarations must travel with the element)")
			}
		}
		c.count("C11-R8", n)
		c.floor("C11-R8", 1)
	}

	// R3
	tableAgreement(c, "C11-R3", encryptionSelectors(c), 4)

	// R4
	if db != nil {
		layerArithmetic(c, "C11-R4", db)
		keyStructRule(c, "C11-R4/key-placement")
		rejectionWhitelist(c, "C11-R5", db)
	}
}

// rejectionWhitelist: on the symmetric layer the only rejections are those memory safety needs (ciphertext shorter than
// nonce / one block, not a block multiple, empty plaintext, pad > len) or that no conforming encryptor produces
// (pad == 0, pad > block size). Any other rejecting branch refuses plaintexts the property requires to round-trip.
func rejectionWhitelist(c *Ctx, rule string, db *Result) {
	fname := shortFn(db.Root)
	c.rule(rule, "no extra rejection on the symmetric layer: every rejecting branch of DecryptBytes after the key unwrap is one of {base64 error, len(data) < NonceSize, len(data) < BlockSize, len(data) % BlockSize != 0, cipher construction / Open error, empty plaintext, pad == 0, pad > len(plaintext), pad > BlockSize, unknown algorithm}")
	n := 0
	nnHelper := &c09{c: c, retSummary: map[string]int{}, inProgress: map[string]bool{}}
	for _, t := range db.Terms {
		if t.Kind != "return" || t.accepting(db.Root) {
			continue
		}
		// only rejections after the key unwrap
		var unwrap *Event
		for _, e := range t.calls("(*types.EncryptedKey).DecryptSymmetricKey") {
			unwrap = e
		}
		if unwrap == nil {
			continue
		}
		var last Fact
		found := false
		for i := len(t.St.facts) - 1; i >= 0; i-- {
			if !t.St.facts[i].Forced {
				last, found = t.St.facts[i], true
				break
			}
		}
		if !found || last.Seq < unwrap.Seq {
			continue
		}
		a := atom(last)
		ok := false
		why := ""
		b, isBin := last.Cond.(*BinV)
		// a rejection on "x == nil" where x is provably non-nil here (result of a module function that returns non-nil
		// on success, after its error was found nil) is not a path of the program: a defensive check that never fires
		if isBin && b.Op == token.EQL && isNilConst(b.Y) && last.Pol {
			if nn, _ := nnHelper.nonNil(t, len(t.St.facts)-1, b.X); nn {
				continue
			}
		}
		n++
		isLen := func(v Val) bool { cv, ok := v.(*CallV); return ok && cv.Callee == "len" }
		isGetter := func(v Val, name string) bool { cv, ok := v.(*CallV); return ok && strings.HasSuffix(cv.Callee, name) }
		isPad := func(v Val) bool {
			for {
				if cv, ok := v.(*ConvV); ok {
					v = cv.X
					continue
				}
				break
			}
			_, ok := v.(*IndexV)
			if l, isL := v.(*LoadV); isL {
				_, ok = l.Addr.(*IndexAddrV)
			}
			return ok
		}
		switch {
		case strings.Contains(a, "DecryptSymmetricKey(") && strings.HasSuffix(a, "#1 == nil)"):
			ok, why = true, "key unwrap error"
		case strings.HasPrefix(a, "!(EA.EncryptionMethod.Algorithm == "):
			ok, why = true, "unknown algorithm"
		case isBin && b.Op == token.LSS && last.Pol && isLen(b.X) && (isGetter(b.Y, ".NonceSize") || isGetter(b.Y, ".BlockSize")):
			ok, why = true, "ciphertext shorter than nonce / block"
		case isBin && b.Op == token.EQL && isNilConst(b.Y) && !last.Pol && (strings.HasPrefix(ap(b.X), "crypto/cipher.NewGCM(") || strings.HasPrefix(ap(b.X), "(crypto/cipher.AEAD).Open(")):
			ok, why = true, "cipher error"
		case isBin && b.Op == token.EQL && !last.Pol && isConstInt(b.Y, 0):
			if r, isR := b.X.(*BinV); isR && r.Op == token.REM && isLen(r.X) && isGetter(r.Y, ".BlockSize") {
				ok, why = true, "not a block multiple"
			} else if isPad(b.X) {
				ok, why = false, "rejects pad != 0?"
			}
		case isBin && b.Op == token.EQL && last.Pol && isConstInt(b.Y, 0) && (isLen(b.X) || isPad(b.X)):
			ok, why = true, "empty plaintext / zero pad"
		case isBin && b.Op == token.LSS && last.Pol && isLen(b.X) && isConstInt(b.Y, 1):
			ok, why = true, "empty plaintext"
		case isBin && b.Op == token.LSS && last.Pol && isPad(b.X) && isConstInt(b.Y, 1):
			ok, why = true, "zero pad"
		case isBin && b.Op == token.LSS && last.Pol && (isLen(b.X) || isGetter(b.X, ".BlockSize")) && isPad(b.Y):
			ok, why = true, "pad larger than plaintext / block size"
		}
		if ok {
			c.ok(rule, fname, "rejection: "+why, c.P.InstrPos(t.Instr), a)
		} else {
			o := c.bad(rule, fname, "rejection decided by "+shortAtom(a), c.P.InstrPos(t.Instr), "DecryptBytes refuses input on a condition outside the whitelist ("+a+"): conforming ciphertexts for some plaintext lengths may no longer decrypt")
			o.Path = t.pathDesc(c.P)
		}
	}
	c.count(rule+"/rejections", n)
	c.floor(rule+"/rejections", 6)
}

func shortAtom(a string) string {
	a = strings.ReplaceAll(a, "(*encoding/base64.Encoding).DecodeString(encoding/base64.StdEncoding, EA.CipherValue)#0", "data")
	a = strings.ReplaceAll(a, "(*types.EncryptedKey).DecryptSymmetricKey(&EA.EncryptedKey, CERT)#0", "k")
	a = strings.ReplaceAll(a, "(*types.EncryptedKey).DecryptSymmetricKey(&EA.DetEncryptedKey, CERT)#0", "k")
	if len(a) > 160 {
		a = a[:160] + "…"
	}
	return a
}

func reachesWith(res *Result, lhs, val, calleePrefix string) bool {
	for _, t := range res.Terms {
		has := false
		for _, f := range t.St.facts {
			if b, ok := f.Cond.(*BinV); ok && f.Pol && b.Op == token.EQL && ap(b.X) == lhs {
				if s, ok := constString(b.Y); ok && s == val {
					has = true
				}
			}
		}
		if !has {
			continue
		}
		for _, e := range t.St.events {
			if e.Kind == EvCall && strings.HasPrefix(e.Callee, calleePrefix) {
				return true
			}
		}
	}
	return false
}

func layerArithmetic(c *Ctx, rule string, db *Result) {
	fname := shortFn(db.Root)
	nG, nC := 0, 0
	data := "(*encoding/base64.Encoding).DecodeString(encoding/base64.StdEncoding, EA.CipherValue)#0"
	for _, t := range db.Terms {
		for _, e := range t.St.events {
			if e.Kind != EvCall {
				continue
			}
			switch e.Callee {
			case "(crypto/cipher.AEAD).Open":
				nG++
				aead := ap(e.Args[0])
				n := "(crypto/cipher.AEAD).NonceSize(" + aead + ")"
				nonce, ct := ap(e.Args[2]), ap(e.Args[3])
				good := nonce == data+"[:"+n+"]" && ct == data+"["+n+":]"
				c.check(good, rule, fname, "GCM split nonce/body at NonceSize()", c.P.InstrPos(e.Instr), "nonce=data[:n], body=data[n:], same n", "GCM layer split is nonce="+nonce+" body="+ct)
				if t.accepting(db.Root) {
					c.check(t.Vals[0].Key() == e.Res[0].Key(), rule, fname, "GCM returns the opened plaintext", c.P.InstrPos(t.Instr), "plainText", "returns "+ap(t.Vals[0]))
				}
			case "(crypto/cipher.BlockMode).CryptBlocks":
				nC++
				mode, _ := stripIface(e.Args[0]).(*CallV)
				if mode == nil || mode.Callee != "crypto/cipher.NewCBCDecrypter" {
					c.bad(rule, fname, "CBC mode construction", c.P.InstrPos(e.Instr), "CryptBlocks on "+ap(e.Args[0]))
					continue
				}
				b := "(crypto/cipher.Block).BlockSize(" + ap(mode.Args[0]) + ")"
				iv, body := ap(mode.Args[1]), ap(e.Args[2])
				good := iv == data+"[:"+b+"]" && body == data+"["+b+":]" && ap(e.Args[1]) == body
				c.check(good, rule, fname, "CBC split IV/body at BlockSize(), in-place decrypt", c.P.InstrPos(e.Instr), "iv=data[:b], body=data[b:], same b", "CBC layer split is iv="+iv+" body="+body+" dst="+ap(e.Args[1]))
				if t.accepting(db.Root) {
					// returned: trimmed[:len(trimmed) - int(trimmed[len(trimmed)-1])]
					tr := "bytes.TrimRight(" + body + ", \"\\x00\")"
					want1 := tr + "[:(len(" + tr + ") - int(" + tr + "[(len(" + tr + ") - 1)]))]"
					got := ap(t.Vals[0])
					c.check(got == want1, rule, fname, "padding removal", c.P.InstrPos(t.Instr), "body[:len-int(body[len-1])] after trimming zero bytes", "padding removal returns "+got+", want "+want1)
				}
			}
		}
	}
	c.count(rule+"/gcm-paths", nG)
	c.count(rule+"/cbc-paths", nC)
	c.floor(rule+"/gcm-paths", 1)
	c.floor(rule+"/cbc-paths", 1)
}

// advertisedHandled: every advertised EncryptionMethod has a decrypting case and a matching cipher family.
func advertisedHandled(c *Ctx, rule string) *Result {
	// R1
	adv := map[string]map[string]bool{}
	for _, fn := range []string{"(*SAMLServiceProvider).Metadata", "(*SAMLServiceProvider).MetadataWithSLO"} {
		r := c.kernel(fn, "*")
		if r == nil {
			continue
		}
		set := map[string]bool{}
		for _, t := range r.Terms {
			for _, e := range t.stores() {
				if fa, ok := e.Addr.(*FieldAddrV); ok && fa.Name == "Algorithm" && typeStr(fa.Owner) == "types.EncryptionMethod" {
					if s, ok := constString(e.Val); ok {
						set[s] = true
					} else {
						c.bad(rule, shortFn(r.Root), "advertised algorithm is a constant", c.P.InstrPos(e.Instr), "non-constant EncryptionMethod algorithm "+ap(e.Val))
					}
				}
			}
		}
		adv[shortFn(r.Root)] = set
	}
	db := c.kernel("types.(*EncryptedAssertion).DecryptBytes", "*", "-types.(*EncryptedKey).DecryptSymmetricKey")
	handled := map[string]bool{}
	if db != nil {
		// a case is "handled" if some path with that equality fact reaches a cipher construction (NewGCM / NewCBCDecrypter)
		for _, t := range db.Terms {
			reaches := false
			for _, e := range t.St.events {
				if e.Kind == EvCall && (e.Callee == "crypto/cipher.NewGCM" || e.Callee == "crypto/cipher.NewCBCDecrypter") {
					reaches = true
				}
			}
			if !reaches {
				continue
			}
			for _, f := range t.St.facts {
				if b, ok := f.Cond.(*BinV); ok && f.Pol && b.Op == token.EQL && ap(b.X) == "EA.EncryptionMethod.Algorithm" {
					if s, ok := constString(b.Y); ok {
						handled[s] = true
					}
				}
			}
		}
	}
	// block-cipher families the key unwrap can construct (aes.NewCipher, des.NewTripleDESCipher, ...)
	families := map[string]bool{}
	if dk0 := c.kernel("types.(*EncryptedKey).DecryptSymmetricKey", "*"); dk0 != nil {
		for _, t := range dk0.Terms {
			if !t.accepting(dk0.Root) {
				continue
			}
			if cv, ok := stripIface(t.Vals[0]).(*CallV); ok {
				switch cv.Callee {
				case "crypto/aes.NewCipher":
					families["aes"] = true
				case "crypto/des.NewTripleDESCipher":
					families["tripledes"] = true
				case "crypto/des.NewCipher":
					families["des"] = true
				default:
					families[cv.Callee] = true
				}
			}
		}
	}
	familyOf := func(alg string) string {
		switch {
		case strings.Contains(alg, "#aes"):
			return "aes"
		case strings.Contains(alg, "tripledes"):
			return "tripledes"
		}
		return "?"
	}
	nAdv := 0
	for fn, set := range adv {
		for alg := range set {
			nAdv++
			c.check(handled[alg], rule, fn, "advertised "+alg, "-", "has a decrypting case in DecryptBytes", "metadata advertises "+alg+" but DecryptBytes has no case that decrypts it")
			c.check(families[familyOf(alg)], rule, fn, "advertised "+alg+": the key unwrap builds a "+familyOf(alg)+" cipher", "-", "DecryptSymmetricKey constructs "+familyOf(alg),
				"metadata advertises "+alg+" but DecryptSymmetricKey never constructs a "+familyOf(alg)+" block cipher (constructs: "+strings.Join(sortedStrings(families), ", ")+"): the session key is used with the wrong cipher")
		}
	}
	c.count(rule+"/advertised", nAdv)
	c.floor(rule+"/advertised", 10)
	c.count(rule+"/handled", len(handled))
	c.floor(rule+"/handled", 5)
	if a, b := adv["(*SAMLServiceProvider).Metadata"], adv["(*SAMLServiceProvider).MetadataWithSLO"]; a != nil && b != nil {
		same := len(a) == len(b)
		for k := range a {
			if !b[k] {
				same = false
			}
		}
		c.check(same, rule, "Metadata / MetadataWithSLO", "same advertised set", "-", fmt.Sprintf("%d methods each", len(a)), fmt.Sprintf("the two metadata functions advertise different encryption methods: %v vs %v", sortedStrings(a), sortedStrings(b)))
	}
	// the property's enumerated list must be advertised
	wantAdv := []string{"http://www.w3.org/2009/xmlenc11#aes128-gcm", "http://www.w3.org/2009/xmlenc11#aes192-gcm", "http://www.w3.org/2009/xmlenc11#aes256-gcm", "http://www.w3.org/2001/04/xmlenc#aes128-cbc", "http://www.w3.org/2001/04/xmlenc#aes256-cbc"}
	for _, w := range wantAdv {
		c.check(handled[w], rule, "(*types.EncryptedAssertion).DecryptBytes", "handles "+w, "-", "decrypting case present", "DecryptBytes no longer decrypts "+w+", which the property lists as advertised")
	}

	return db
}

// ---------------------------------------------------------------- C19

func ruleC19(c *Ctx) {
	c.rule("C19-R5", "every field in the type tree of the published EntityDescriptor is an attribute, element or chardata of encoding/xml (escaped); none is tagged `,comment` or `,innerxml` (emitted raw: Marshal fails or the text is verbatim for some configured strings)")
	if f := c.fn("(*SAMLServiceProvider).MetadataWithSLO"); f != nil && f.Signature.Results().Len() > 0 {
		n := rawXMLFields(c, "C19-R5", f.Signature.Results().At(0).Type())
		c.count("C19-R5/fields", n)
		c.floor("C19-R5/fields", 20)
		nb := 0
		for _, o := range c.Obs {
			if o.Rule == "C19-R5" {
				nb++
			}
		}
		if nb == 0 {
			c.ok("C19-R5", "types.EntityDescriptor", "no raw-emitted field in the descriptor's type tree", "-", fmt.Sprintf("%d fields inspected", n))
		}
	}
	c.rule("C19-R1", "metadata wiring table for Metadata and MetadataWithSLO: EntityID, ACS endpoint (POST binding, index 1), SLO endpoint (POST binding), AuthnRequestsSigned, WantAssertionsSigned = !SkipSignatureValidation, protocolSupportEnumeration, key descriptor uses and base64(StdEncoding) of the reported certificates")
	c.rule("C19-R2", "published keys = keys really used: decision-table agreement with the signer (C13) and the decrypter (C11); advertised methods ⊆ handled (C11-R1)")
	c.rule("C19-R4", "configuration setters write exactly their own override field (shared setterContract)")
	setterContract(c, "C19-R4")
	c.rule("C19-R3", "validity: ValidUntil = sp.Clock.Now().UTC().Add(d); d is a time.Duration constant or a count multiplied by a time unit (an integer number of hours converted with time.Duration(x) alone is nanoseconds); default 7 days; non-positive request selects the default")
	for _, fn := range []string{"(*SAMLServiceProvider).Metadata", "(*SAMLServiceProvider).MetadataWithSLO"} {
		r := c.kernel(fn, "*")
		if r == nil {
			continue
		}
		fname := shortFn(r.Root)
		slo := strings.HasSuffix(fn, "WithSLO")
		n := 0
		for _, t := range r.Terms {
			if !t.accepting(r.Root) {
				continue
			}
			n++
			pos := c.P.InstrPos(t.Instr)
			ed := t.Vals[0]
			get := func(obj Val, name string) string {
				v, ok := t.finalField(obj, name)
				if !ok {
					return "<unset>"
				}
				return ap(v)
			}
			c.check(get(ed, "EntityID") == "SP.ServiceProviderIssuer", "C19-R1", fname, "EntityID <- sp.ServiceProviderIssuer", pos, "wired", "EntityID is "+get(ed, "EntityID"))
			spd, ok := t.finalField(ed, "SPSSODescriptor")
			if !ok {
				c.bad("C19-R1", fname, "SPSSODescriptor present", pos, "descriptor missing")
				continue
			}
			c.check(get(spd, "AuthnRequestsSigned") == "SP.SignAuthnRequests", "C19-R1", fname, "AuthnRequestsSigned <- sp.SignAuthnRequests", pos, "wired", "AuthnRequestsSigned is "+get(spd, "AuthnRequestsSigned"))
			was := get(spd, "WantAssertionsSigned")
			c.check(was == "!SP.SkipSignatureValidation", "C19-R1", fname, "WantAssertionsSigned <- !sp.SkipSignatureValidation", pos, "wired", "WantAssertionsSigned is "+was)
			c.check(get(spd, "ProtocolSupportEnumeration") == `"urn:oasis:names:tc:SAML:2.0:protocol"`, "C19-R1", fname, "protocolSupportEnumeration", pos, "SAML 2.0 protocol", "protocolSupportEnumeration is "+get(spd, "ProtocolSupportEnumeration"))
			// endpoints: stores into the one-element slice literals
			acs := endpointFields(t, spd, "AssertionConsumerServices")
			c.check(acs["Binding"] == `"urn:oasis:names:tc:SAML:2.0:bindings:HTTP-POST"` && acs["Location"] == "SP.AssertionConsumerServiceURL" && acs["Index"] == "1" && acs["#"] == "1",
				"C19-R1", fname, "AssertionConsumerService[0] = {POST, sp.AssertionConsumerServiceURL, 1}", pos, "wired", fmt.Sprintf("ACS endpoint is %v", acs))
			if slo {
				sl := endpointFields(t, spd, "SingleLogoutServices")
				c.check(sl["Binding"] == `"urn:oasis:names:tc:SAML:2.0:bindings:HTTP-POST"` && sl["Location"] == "SP.ServiceProviderSLOURL" && sl["#"] == "1",
					"C19-R1", fname, "SingleLogoutService[0] = {POST, sp.ServiceProviderSLOURL}", pos, "wired", fmt.Sprintf("SLO endpoint is %v", sl))
			}
			// key descriptors: certificate <- base64.StdEncoding(Get*CertBytes)
			for _, use := range []string{"signing", "encryption"} {
				v, present := descriptorCert(t, use)
				if !present {
					continue
				}
				src := "GetSigningCertBytes"
				if use == "encryption" {
					src = "GetEncryptionCertBytes"
				}
				_ = src
				good := v != nil && sourceOf(v) != ""
				// encoding must be StdEncoding
				enc := false
				for _, e := range t.St.events {
					if e.Kind == EvCall && strings.HasSuffix(e.Callee, "EncodeToString") && v != nil && e.Args[1].Key() == v.Key() {
						enc = ap(e.Args[0]) == "encoding/base64.StdEncoding"
					}
				}
				c.check(good && enc, "C19-R1", fname, use+" KeyDescriptor certificate <- base64.StdEncoding(provider certificate)", pos, "wired from "+sourceOf(v), "the "+use+" descriptor publishes "+ap(v))
			}
			// R3 validity
			vu, ok := t.finalField(ed, "ValidUntil")
			if !ok {
				c.bad("C19-R3", fname, "ValidUntil set", pos, "ValidUntil never stored")
				continue
			}
			checkValidity(c, "C19-R3", fname, t, vu, slo, pos)
		}
		c.count("C19-R1/accepting "+fname, n)
		c.floor("C19-R1/accepting "+fname, 1)
	}
	advertisedHandled(c, "C19-R2/methods")
	tableAgreement(c, "C19-R2/signing", signingSelectors(c), 4)
	tableAgreement(c, "C19-R2/encryption", encryptionSelectors(c), 4)
}

func endpointFields(t *Terminal, spd Val, field string) map[string]string {
	// read from the final state of the descriptor: "#" = number of endpoints, then the fields of endpoint 0
	out := map[string]string{}
	rd := newReader(t)
	eps, ok := rd.elems(rd.field(spd, field))
	if !ok {
		return out
	}
	out["#"] = fmt.Sprint(len(eps))
	if len(eps) == 0 {
		return out
	}
	for _, name := range []string{"Binding", "Location", "ResponseLocation", "Index"} {
		if v := rd.field(eps[0], name); v != nil {
			if c, isC := v.(*ConstV); isC && (c.Key() == `""` || c.Key() == "0") && name != "Index" {
				continue
			}
			out[name] = ap(v)
		}
	}
	return out
}

// checkValidity: vu = Add(UTC(Now(SP.Clock)), d) with d dimensionally a duration.
func checkValidity(c *Ctx, rule, fname string, t *Terminal, vu Val, slo bool, pos string) {
	add, ok := vu.(*CallV)
	if !ok || add.Callee != "(time.Time).Add" {
		c.bad(rule, fname, "ValidUntil = clock.Add(d)", pos, "ValidUntil is "+ap(vu))
		return
	}
	base := ap(add.Args[0])
	c.check(base == "(time.Time).UTC("+nowAP+")", rule, fname, "ValidUntil based on sp.Clock.Now().UTC()", pos, base, "validity is computed from "+base+", not the SP clock in UTC")
	d := add.Args[1]
	a := t.atoms()
	label := "default"
	const week = int64(7 * 24 * 3600 * 1e9)
	if slo {
		switch {
		case a["!(0 < $validityHours)"] || a["$validityHours < 1"] || a["!(1 <= $validityHours)"]:
			label = "non-positive request"
		case a["0 < $validityHours"] || a["!($validityHours < 1)"]:
			label = "positive request"
		default:
			c.bad(rule, fname, "non-positive request selects the default", pos, "path does not test validityHours <= 0")
			return
		}
	}
	if label != "positive request" {
		v, isC := constInt(d)
		c.check(isC && v == week, rule, fname, "default validity is 7 days ["+label+"]", pos, "168h", "default validity is "+ap(d)+" ns, want 7*24h")
		return
	}
	// positive request: d must be validityHours * time.Hour (dimension check)
	if unitOK(d, "$validityHours") {
		c.ok(rule, fname, "requested hours multiplied by time.Hour", pos, ap(d))
	} else {
		c.bad(rule, fname, "requested hours multiplied by time.Hour", pos, "the requested number of hours reaches Time.Add as "+ap(d)+": an integer count converted to time.Duration without multiplying by time.Hour is a number of nanoseconds")
	}
}

// unitOK: expr == hours * 3600e9 (in either order, through conversions).
func unitOK(d Val, hours string) bool {
	const hour = int64(3600 * 1e9)
	for {
		if cv, ok := d.(*ConvV); ok {
			d = cv.X
			continue
		}
		break
	}
	b, ok := d.(*BinV)
	if !ok || b.Op != token.MUL {
		return false
	}
	strip := func(v Val) Val {
		for {
			if cv, ok := v.(*ConvV); ok {
				v = cv.X
				continue
			}
			return v
		}
	}
	x, y := strip(b.X), strip(b.Y)
	if k, ok := constInt(y); ok && k == hour && ap(x) == hours {
		return true
	}
	if k, ok := constInt(x); ok && k == hour && ap(y) == hours {
		return true
	}
	return false
}

var _ = sort.Strings
var _ *ssa.Function

// keyUnwrapFlow: on every accepting path of DecryptSymmetricKey the symmetric key handed to the block-cipher constructor is
// the complete RSA plaintext of the complete base64-decoded CipherValue — whatever its length — obtained with the
// primitive the transport identifier names. A fixed-length / pre-filled session-key API (DecryptPKCS1v15SessionKey)
// or a re-sliced key makes the round trip depend on the key size.
func keyUnwrapFlow(c *Ctx, rule string, dk *Result) {
	c.rule(rule, "key unwrap flow: accepting paths of DecryptSymmetricKey return NewCipher(k) with k = result 0 of rsa.DecryptOAEP (for the rsa-oaep identifiers) or rsa.DecryptPKCS1v15 (for rsa-1_5) under err == nil, applied to base64(CipherValue) whole and the certificate's private key; OAEP label nil")
	fname := shortFn(dk.Root)
	want := map[string]string{
		"http://www.w3.org/2001/04/xmlenc#rsa-oaep-mgf1p": "crypto/rsa.DecryptOAEP",
		"http://www.w3.org/2009/xmlenc11#rsa-oaep":        "crypto/rsa.DecryptOAEP",
		"http://www.w3.org/2001/04/xmlenc#rsa-1_5":        "crypto/rsa.DecryptPKCS1v15",
	}
	n := 0
	seen := map[string]bool{}
	for _, t := range dk.Terms {
		if !t.accepting(dk.Root) {
			continue
		}
		n++
		pos := c.P.InstrPos(t.Instr)
		blk, ok := stripIface(t.Vals[0]).(*CallV)
		if !ok || blk.Idx != 0 || !(blk.Callee == "crypto/aes.NewCipher" || blk.Callee == "crypto/des.NewTripleDESCipher") || len(blk.Args) != 1 {
			c.bad(rule, fname, "returned block is a cipher over the unwrapped key", pos, "accepting path returns "+ap(t.Vals[0])+", not a block cipher constructed from the unwrapped key")
			continue
		}
		k, ok := blk.Args[0].(*CallV)
		if !ok || k.Idx != 0 || !(k.Callee == "crypto/rsa.DecryptOAEP" || k.Callee == "crypto/rsa.DecryptPKCS1v15") {
			c.bad(rule, fname, "symmetric key is the whole RSA plaintext", pos, "the key given to "+shortName(blk.Callee)+" is "+ap(blk.Args[0])+", not result 0 of rsa.DecryptOAEP / rsa.DecryptPKCS1v15 (a fixed-size or partially filled key breaks the round trip for other key sizes)")
			continue
		}
		// err == nil on the path
		var errv Val
		for _, e := range t.calls(k.Callee) {
			if len(e.Res) == 2 {
				errv = e.Res[1]
			}
		}
		isNil, known := false, false
		if errv != nil {
			isNil, known = t.eqFact(errv, nilOf(errv.Type()))
		}
		c.check(known && isNil, rule, fname, "unwrap error checked before the key is used", pos, "err == nil", "the RSA unwrap error is not known to be nil where the key is used")
		// transport identifier -> primitive
		a := t.atoms()
		for id, prim := range want {
			if a["EK.EncryptionMethod.Algorithm == \""+id+"\""] {
				seen[id] = true
				c.check(k.Callee == prim, rule, fname, "transport "+id+" uses its primitive", pos, shortName(prim), "key transport "+id+" is unwrapped with "+shortName(k.Callee))
			}
		}
		// ciphertext and key operands
		var ct, pk, label Val
		if k.Callee == "crypto/rsa.DecryptOAEP" {
			pk, ct, label = k.Args[2], k.Args[3], k.Args[4]
		} else {
			pk, ct = k.Args[1], k.Args[2]
		}
		wantCT := "(*encoding/base64.Encoding).DecodeString(encoding/base64.StdEncoding, EK.CipherValue)#0"
		c.check(ap(ct) == wantCT, rule, fname, "ciphertext is base64(CipherValue), whole", pos, wantCT, "RSA ciphertext operand is "+ap(ct))
		c.check(strings.HasPrefix(ap(pk), "CERT.PrivateKey.("), rule, fname, "private key operand", pos, ap(pk), "RSA unwrap uses "+ap(pk))
		if label != nil {
			c.check(isNilConst(label), rule, fname, "OAEP label is nil", pos, "nil", "OAEP label is "+ap(label))
		}
	}
	c.count(rule+"/accepting-paths", n)
	c.floor(rule+"/accepting-paths", 4)
	for id := range want {
		c.check(seen[id], rule, fname, "transport "+id+" has an accepting path", "-", "seen", "no accepting path for key transport "+id)
	}
}

// setterContract (shared: C13-R6, C14-R6, C19-R4): the decision tables range over the key-store fields; the two
// configuration setters are what turns "the application configured key k for role r" into a field state. Each setter
// stores its argument into its own override field on success and writes nothing else through the provider — so a key
// configured for one role never leaks into the other role's slot, and a refused key changes nothing.
func setterContract(c *Ctx, rule string) {
	setters := []struct{ fn, field string }{
		{"(*SAMLServiceProvider).SetSPKeyStore", "spKeyStoreOverride"},
		{"(*SAMLServiceProvider).SetSPSigningKeyStore", "spSigningKeyStoreOverride"},
	}
	n := 0
	for _, sd := range setters {
		res := c.kernel(sd.fn, "*")
		if res == nil {
			continue
		}
		fname := shortFn(res.Root)
		arg := res.paramVal(1)
		for _, t := range res.Terms {
			if t.Kind != "return" {
				continue
			}
			pos := c.P.InstrPos(t.Instr)
			var own, other []string
			for _, e := range t.stores() {
				if _, viaSP := rootOf(e.Addr).(*ParamV); !viaSP || ap(rootOf(e.Addr)) != "SP" {
					continue
				}
				if fa, ok := e.Addr.(*FieldAddrV); ok && fa.Name == sd.field && ap(fa.X) == "SP" {
					own = append(own, ap(e.Val))
					same := arg != nil && e.Val.Key() == arg.Key()
					if !same && arg != nil && isNilConst(e.Val) {
						// `if ks == nil { field = nil }`: the nil literal on a path where the argument is nil
						eq, known := t.eqFact(arg, nilOf(nil))
						same = known && eq
					}
					if !same {
						other = append(other, "SP."+sd.field+" = "+ap(e.Val))
					}
					continue
				}
				other = append(other, apLval(e.Addr)+" = "+ap(e.Val))
			}
			for _, e := range t.St.events {
				if e.Kind == EvMapUpdate && ap(rootOf(e.X)) == "SP" {
					other = append(other, "map update on "+ap(e.X))
				}
			}
			n++
			if t.accepting(res.Root) {
				c.check(len(own) == 1 && len(other) == 0, rule, fname, "success stores the argument into "+sd.field+" and nothing else", pos, "SP."+sd.field+" = argument",
					fmt.Sprintf("setter writes %v %v: a key configured for one role ends up (also) in another slot, or not in its own", own, other))
			} else {
				c.check(len(own) == 0 && len(other) == 0, rule, fname, "a refused key store changes nothing", pos, "no store", fmt.Sprintf("rejecting path still writes %v %v", own, other))
			}
		}
	}
	c.count(rule+"/setter-paths", n)
	c.floor(rule+"/setter-paths", 4)
}
