// Positive control: parses XML into an etree outside parseResponse (no screen, no bound).
package rawparse

import "github.com/beevik/etree"

func Parse(b []byte) (*etree.Document, error) {
	d := etree.NewDocument()
	return d, d.ReadFromBytes(b)
}
