// Positive control: calls whatever the table holds for the key; a missing entry is a nil function.
package nilcall

import "hash"

func Pick(table map[string]func() hash.Hash, alg string) hash.Hash {
	return table[alg]()
}
