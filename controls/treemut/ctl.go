// Positive control: "diagnostics" that rewrite the live tree they are shown (attribute order, indentation), and a
// truncating append that writes into the caller's buffer.
package treemut

import "github.com/beevik/etree"

func Describe(el *etree.Element) string {
	el.SortAttrs()
	doc := etree.NewDocument()
	doc.SetRoot(el.Copy())
	doc.Indent(2)
	s, _ := doc.WriteToString()
	return s
}

func Pretty(doc *etree.Document) string {
	doc.Indent(2)
	s, _ := doc.WriteToString()
	return s
}

func Preview(b []byte) []byte {
	if len(b) > 16 {
		return append(b[:16], "..."...)
	}
	return b
}
