// Positive control: violates "no wall clock in library scope". Must be flagged on every run.
package wallclock

import "time"

func Stamp() time.Time { return time.Now() }
