// Positive control: builds its own signing context outside SigningContext().
package ownsigner

import dsig "github.com/russellhaering/goxmldsig"

func Ctx() *dsig.SigningContext { return dsig.NewDefaultSigningContext(dsig.RandomKeyStoreForTest()) }
