// Positive control: inflates caller bytes without any size bound, outside maybeDeflate.
package rawinflate

import (
	"bytes"
	"compress/flate"
	"io"
)

func Inflate(b []byte) ([]byte, error) { return io.ReadAll(flate.NewReader(bytes.NewReader(b))) }
