// Positive control: builds its own signature validation context over a foreign store.
package ownctx

import dsig "github.com/russellhaering/goxmldsig"

func Ctx() *dsig.ValidationContext {
	return dsig.NewDefaultValidationContext(&dsig.MemoryX509CertificateStore{})
}
