// Positive control: renders a form with text/template (no HTML escaping).
package texttemplate

import (
	"bytes"
	"text/template"
)

func Render(v string) string {
	var b bytes.Buffer
	template.Must(template.New("x").Parse(`<input value="{{.}}">`)).Execute(&b, v)
	return b.String()
}
