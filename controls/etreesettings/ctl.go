// Positive control: changes etree's read settings before parsing.
package etreesettings

import "github.com/beevik/etree"

func Parse(b []byte) (*etree.Document, error) {
	d := etree.NewDocument()
	d.ReadSettings.PreserveCData = true
	return d, d.ReadFromBytes(b)
}
