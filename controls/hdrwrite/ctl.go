// Positive control: rewrites a header field of a decoded Response after decoding.
package hdrwrite

import "github.com/russellhaering/gosaml2/types"

func Patch(r *types.Response) { r.Issuer = &types.Issuer{Value: "x"} }
