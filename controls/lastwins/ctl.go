// Positive control: the flag is raised at the top of every group and cleared on a match, so the last group decides.
package lastwins

type W struct{ Flag bool }

func Last(groups [][]string, want string) *W {
	w := &W{}
	for _, g := range groups {
		w.Flag = true
		for _, a := range g {
			if a == want {
				w.Flag = false
				break
			}
		}
	}
	return w
}
